#!/venv/bin/python
"""Owner tool: run every filed seeded change again (tools/rerun_seeded.py per id) in parallel and summarise.
usage: tools/rerun_all_seeded.py [-j 4] [C03 C11 ...]   (default: all properties); superseded ids are skipped."""
import glob, json, os, subprocess, sys
from concurrent.futures import ThreadPoolExecutor
args = sys.argv[1:]
j = 4
if '-j' in args:
    j = int(args[args.index('-j') + 1])
    del args[args.index('-j'):args.index('-j') + 2]
ids = []
for d in sorted(glob.glob('/verif/seeded/*/meta.json')):
    m = json.load(open(d))
    sid = m['id']
    if args and not any(sid.startswith(p) for p in args):
        continue
    if 'superseded' in json.dumps(m).lower() and m.get('superseded'):
        continue
    ids.append(sid)


def run(sid):
    r = subprocess.run(['/venv/bin/python', '/verif/tools/rerun_seeded.py', sid], capture_output=True)
    return sid, (r.stdout.decode().strip().split('\n') or [''])[-1]


bad = 0
with ThreadPoolExecutor(j) as ex:
    for sid, line in ex.map(run, ids):
        ok = ' exit 1 [' in line and "exit 1 []" not in line
        if not ok:
            bad += 1
        print(('ok   ' if ok else 'CHECK ') + line[:260])
print('%d ids, %d not reported with a failing input' % (len(ids), bad))
