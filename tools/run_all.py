#!/venv/bin/python
"""Run the checks of several properties in parallel and summarise (owner convenience).
Usage: tools/run_all.py [--tier quick] [--seed N] [-j 8] [C01 C02 ...]   (default: every check in MANIFEST.json)"""
import json, os, subprocess, sys, time
from concurrent.futures import ThreadPoolExecutor
VERIF = os.path.dirname(os.path.dirname(os.path.abspath(__file__)))
args = sys.argv[1:]
tier, seed, j = 'quick', '0', 8
props = []
it = iter(args)
for a in it:
    if a == '--tier': tier = next(it)
    elif a == '--seed': seed = next(it)
    elif a == '-j': j = int(next(it))
    else: props.append(a)
if not props:
    props = [c['property_id'] for c in json.load(open(os.path.join(VERIF, 'MANIFEST.json')))['checks']]
def run(p):
    t = time.time()
    env = dict(os.environ, VERIF_SEED=seed)
    r = subprocess.run(['/venv/bin/python', 'check.py', p, '--tier', tier], cwd=VERIF, capture_output=True, env=env)
    out = r.stdout.decode() + r.stderr.decode()
    return p, r.returncode, time.time() - t, out
with ThreadPoolExecutor(j) as ex:
    for p, rc, dt, out in ex.map(run, props):
        lines = [l for l in out.split('\n') if l.strip() and 'WARNING' not in l]
        print('== %s rc=%d %.0fs' % (p, rc, dt))
        for l in lines[-6:] if rc else lines[-1:]:
            print('   ', l[:300])
