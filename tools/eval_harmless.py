#!/venv/bin/python
"""Owner tool: evaluate the harmless changes an author left in /tmp/hl-<Cxx>/ (patch_<Cxx>hN.diff, meta_<Cxx>hN.json)
with tools/try_harmless.py and file each under harmless/<Cxx>hN/ (patch.diff, meta.json with the verdict).
usage: tools/eval_harmless.py Cxx [--src DIR] [--only h2] [--seed N]
With --src harmless the already filed patches are run again (after a check was relaxed); the earlier verdict is kept
under `checks_first_run`."""
import glob, json, os, re, shutil, subprocess, sys
args = sys.argv[1:]
pid = args[0]
src = '/tmp/hl-' + pid
only = None
seed = '0'
if '--src' in args:
    src = args[args.index('--src') + 1]
if '--only' in args:
    only = args[args.index('--only') + 1]
if '--seed' in args:
    seed = args[args.index('--seed') + 1]
refiled = src == 'harmless'
if refiled:
    pats = sorted(glob.glob('/verif/harmless/%sh*/patch.diff' % pid))
else:
    pats = sorted(glob.glob(os.path.join(src, 'patch_%sh*.diff' % pid)) + glob.glob(os.path.join(src, 'patch_%sH*.diff' % pid)))
for pf in pats:
    if refiled:
        sid = os.path.basename(os.path.dirname(pf))
    else:
        m = re.search(r'patch_(C\d+)[hH](\d+)\.diff', pf)
        sid = '%sh%s' % (m.group(1), m.group(2))
    if only and not sid.endswith(only):
        continue
    r = subprocess.run(['/venv/bin/python', '/verif/tools/try_harmless.py', sid, pf, '--seed', seed], capture_output=True)
    out = r.stdout.decode()
    try:
        res = json.loads(out[out.index('{'):])
    except Exception:
        print(sid, 'TOOL ERROR', out[-400:], r.stderr.decode()[-400:])
        continue
    d = os.path.join('/verif/harmless', sid)
    os.makedirs(d, exist_ok=True)
    if not refiled:
        shutil.copy(pf, os.path.join(d, 'patch.diff'))
    am = {}
    for cand in (os.path.join(src, 'meta_%s.json' % sid), os.path.join(src, 'meta_%s.json' % sid.replace('h', 'H'))):
        if os.path.exists(cand):
            try:
                am = json.load(open(cand))
            except Exception:
                am = {}
    old = json.load(open(os.path.join(d, 'meta.json'))) if os.path.exists(os.path.join(d, 'meta.json')) else {}
    meta = dict(old) if old else {
        'id': sid, 'property': pid, 'kind': am.get('kind'), 'summary': am.get('summary'),
        'why_harmless': am.get('why_harmless') or am.get('why_property_still_holds'),
        'author_check': am.get('how_checked') or am.get('commands_run'), 'files': am.get('files'),
        'author': 'independent sub-agent given only the property text and a scratch worktree (notes/HARMLESS_BRIEF.md)',
    }
    checks = {p: {'exit': c['rc'], 'verdict': c['verdict'], 'violations': c['violations'], 'detail': c['detail']}
              for p, c in res.get('checks', {}).items()}
    if old.get('checks') and 'checks_first_run' not in old:
        meta['checks_first_run'] = old['checks']
    meta['checks'] = checks
    meta['suite_with_change'] = res.get('suite')
    meta['patch_applies'] = res.get('patch_applies')
    meta['repo_head'] = os.popen('git -C /repo log --format=%h -1').read().strip()
    meta['seed'] = seed
    json.dump(meta, open(os.path.join(d, 'meta.json'), 'w'), indent=1)
    for p, c in checks.items():
        print(sid, p, c['verdict'], 'suite:', res.get('suite'), '|', '; '.join(
            '%s %s %s' % (x.get('kind'), x.get('key'), [b[0] for b in x.get('broken', [])]) for x in c['detail'])[:400])
    if not checks:
        print(sid, 'NOT RUN', {k: res.get(k) for k in ('patch_applies', 'patch_error', 'suite')})
