#!/venv/bin/python
"""Owner tool: confirm a seeded change and run the checks against it, in isolation.

usage: tools/try_seeded.py <ID e.g. C18a> <patch.diff> <demo.py> [--props C18,C03] [--tier quick] [--keep]

1. fresh scratch worktree of /repo HEAD under /tmp; the demonstration must PASS there (exit 0);
2. apply the patch; the unedited suite must still pass (164 passed, 3 baseline failures);
   the demonstration must now FAIL (exit 1);
3. copy /verif (with its build directory) to /tmp/verif-seed-<ID> and run the named checks there with
   TXDBUS_REPO=<worktree> - so neither /repo nor /verif's generated tables are disturbed;
4. print a JSON summary; remove worktree and copy.
"""
import json
import os
import re
import shutil
import subprocess
import sys

args = sys.argv[1:]
sid, patch, demo = args[0], os.path.abspath(args[1]), os.path.abspath(args[2])
props = None
tier = 'quick'
keep = '--keep' in args
if '--props' in args:
    props = args[args.index('--props') + 1].split(',')
if '--tier' in args:
    tier = args[args.index('--tier') + 1]
if props is None:
    props = [re.match(r'(C\d+)', sid).group(1)]

wt = '/tmp/seedtest-%s-%d' % (sid, os.getpid())
vcopy = '/tmp/verif-seed-%s-%d' % (sid, os.getpid())


def sh(cmd, cwd=None, env=None, timeout=3600):
    p = subprocess.run(cmd, shell=isinstance(cmd, str), cwd=cwd, env=env, stdout=subprocess.PIPE,
                       stderr=subprocess.STDOUT, timeout=timeout)
    return p.returncode, p.stdout.decode('utf-8', 'replace')


res = {'id': sid, 'props': props}
subprocess.run(['git', '-C', '/repo', 'worktree', 'remove', '--force', wt], capture_output=True)
rc, out = sh(['git', '-C', '/repo', 'worktree', 'add', '--detach', wt, 'HEAD'])
assert rc == 0, out
try:
    shutil.copy(demo, os.path.join(wt, os.path.basename(demo)))
    rc, out = sh(['/venv/bin/python', os.path.basename(demo)], cwd=wt, timeout=600)
    res['demo_unchanged_rc'] = rc
    res['demo_unchanged_tail'] = out.strip().split('\n')[-1][:300]
    rc, out = sh(['git', 'apply', patch], cwd=wt)
    res['patch_applies'] = rc == 0
    if rc != 0:
        res['patch_error'] = out[-500:]
    else:
        rc, out = sh('/venv/bin/python -m pytest -q -p no:cacheprovider 2>&1 | tail -1', cwd=wt)
        res['suite'] = out.strip()
        res['suite_ok'] = '164 passed' in out and bool(re.search(r'\b3 failed', out))
        rc, out = sh(['/venv/bin/python', os.path.basename(demo)], cwd=wt, timeout=600)
        res['demo_changed_rc'] = rc
        res['demo_changed_tail'] = out.strip().split('\n')[-1][:300]
        os.remove(os.path.join(wt, os.path.basename(demo)))
        # isolated copy of /verif
        if os.path.exists(vcopy):
            shutil.rmtree(vcopy)
        sh(['rsync', '-a', '--exclude', '.git', '--exclude', 'replays', os.environ.get('VERIF_SRC', '/verif').rstrip('/') + '/', vcopy + '/'])
        res['checks'] = {}
        for p in props:
            env = dict(os.environ, TXDBUS_REPO=wt, VERIF_SEED=os.environ.get('VERIF_SEED', '0'))
            rc, out = sh(['/venv/bin/python', 'check.py', p, '--tier', tier], cwd=vcopy, env=env, timeout=7200)
            lines = [l for l in out.split('\n') if l.strip() and 'WARNING' not in l]
            viol = [l for l in lines if l.startswith('VIOLATION') or l.startswith('KNOWN-FINDING')]
            detail = []
            for v in viol:
                m = re.search(r'replay=(\S+)', v)
                if m and os.path.exists(os.path.join(vcopy, m.group(1))):
                    d = json.load(open(os.path.join(vcopy, m.group(1))))
                    detail.append({'kind': d.get('kind'), 'key': d.get('key'), 'what': str(d.get('what'))[:300],
                                   'broken': [b['obligation'] for b in d.get('broken_obligations', [])][:8]})
            res['checks'][p] = {'rc': rc, 'verdict': viol, 'detail': detail, 'summary': lines[-1][:300] if lines else ''}
finally:
    if not keep:
        subprocess.run(['git', '-C', '/repo', 'worktree', 'remove', '--force', wt], capture_output=True)
        shutil.rmtree(vcopy, ignore_errors=True)
print(json.dumps(res, indent=1))
