#!/bin/bash
# MANIFEST.setup_cmd: regenerate the tables from /repo and prebuild every Lean target, offline.
# The root build (`lake build` = all 20 property modules together + all drivers) is tried first; if it fails
# (one property's module broken, or two properties' modules no longer importable together) every property's own
# targets are built separately, so that one broken property never keeps the other nineteen from being prebuilt.
# Each check rebuilds and audits its own targets anyway (vlib/pipeline.py S1/S2) and reports a broken build as a
# broken obligation of THAT property; this script therefore only fails when the tables cannot be extracted at all
# or when not a single property builds.
cd "$(dirname "$0")/.." || exit 2
/venv/bin/python tools/extract_tables.py || echo "setup: table extraction reported a problem (the checks will name it)" >&2
cd lean || exit 2
if lake build; then
  echo "setup: root build ok"
  exit 0
fi
echo "setup: ROOT BUILD FAILED - building each property's targets separately" >&2
ok=0
for i in $(seq -w 1 20); do
  if lake build TxdbusModel.Properties.C$i drv_c$i; then ok=$((ok+1)); else echo "setup: C$i does not build" >&2; fi
done
echo "setup: $ok of 20 properties build" >&2
[ "$ok" -gt 0 ]
