#!/venv/bin/python
"""Apply a proposed repair fixes/Cxx-NN-slug.patch to /repo as one unguarded "fix:" commit.
The patch file starts with comment lines `# subject: fix: ...` and `# body: ...` followed by a git diff.
Runs the unedited test suite before committing (164 passed expected).  Owner use only.
Usage: tools/apply_fix.py fixes/C18-01-x.patch [--dry]"""
import re
import subprocess
import sys

path = sys.argv[1]
dry = '--dry' in sys.argv
txt = open(path).read()
subj = None
body = []
for line in txt.split('\n'):
    if line.startswith('# subject:'):
        subj = line[len('# subject:'):].strip()
    elif line.startswith('# body:'):
        body.append(line[len('# body:'):].strip())
    elif line.startswith('#'):
        if subj and line.strip('# ').strip():
            body.append(line.lstrip('#').strip())
i = txt.find('diff --git')
diff = txt[i:]
assert subj and subj.startswith('fix:'), 'no fix: subject'
if not diff.endswith('\n'):
    diff += '\n'
r = subprocess.run(['git', '-C', '/repo', 'apply', '--check', '-3', '-'], input=diff.encode(), capture_output=True)
if r.returncode != 0:
    r = subprocess.run(['git', '-C', '/repo', 'apply', '--check', '-'], input=diff.encode(), capture_output=True)
    print('apply --check failed:', r.stderr.decode())
    if r.returncode != 0:
        sys.exit(1)
if dry:
    print('OK (dry):', subj)
    sys.exit(0)
subprocess.run(['git', '-C', '/repo', 'apply', '-3', '-'], input=diff.encode(), check=True)
t = subprocess.run('cd /repo && /venv/bin/python -m pytest -q -p no:cacheprovider 2>&1 | tail -1', shell=True, capture_output=True)
res = t.stdout.decode().strip()
print(res)
if '164 passed' not in res or not re.search(r'\b3 failed', res):
    print('SUITE CHANGED - not committing; inspect /repo working tree')
    sys.exit(1)
msg = subj + '\n\n' + '\n'.join(body) + '\n'
subprocess.run(['git', '-C', '/repo', 'commit', '-qam', msg], check=True)
print(subprocess.run(['git', '-C', '/repo', 'log', '--oneline', '-1'], capture_output=True).stdout.decode())
