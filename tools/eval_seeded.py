#!/venv/bin/python
"""Owner tool: confirm and file the seeded changes an author left in a scratch worktree.
usage: tools/eval_seeded.py Cxx --src /tmp/mut4-Cxx [--suffixes g,h,i]
For each suffix: tools/try_seeded.py (demo on unchanged tree, patch, suite, demo on changed tree, quick check in
isolation); filed under seeded/<ID>/ with tools/save_seeded.py when the change is confirmed (demo passes unchanged,
fails changed; suite still has 164 passed - a flaky extra cookie failure under load is re-run once)."""
import json, os, subprocess, sys
args = sys.argv[1:]
pid = args[0]
src = args[args.index('--src') + 1]
suffixes = (args[args.index('--suffixes') + 1] if '--suffixes' in args else 'g,h,i').split(',')
for s in suffixes:
    sid = pid + s
    patch, demo, ameta = [os.path.join(src, f % sid) for f in ('patch_%s.diff', 'demo_%s.py', 'meta_%s.json')]
    if not (os.path.exists(patch) and os.path.exists(demo)):
        print(sid, 'MISSING files')
        continue
    res = None
    for attempt in range(2):
        r = subprocess.run(['/venv/bin/python', '/verif/tools/try_seeded.py', sid, patch, demo], capture_output=True)
        out = r.stdout.decode()
        try:
            res = json.loads(out[out.index('{'):])
        except Exception:
            print(sid, 'TOOL ERROR', out[-300:], r.stderr.decode()[-300:])
            res = None
            break
        if res.get('suite_ok') or not res.get('patch_applies'):
            break
    if res is None:
        continue
    ok = res.get('demo_unchanged_rc') == 0 and res.get('patch_applies') and res.get('demo_changed_rc') == 1 and res.get('suite_ok')
    if not ok:
        print(sid, 'NOT CONFIRMED', {k: res.get(k) for k in ('demo_unchanged_rc', 'demo_unchanged_tail', 'patch_applies', 'suite', 'demo_changed_rc', 'demo_changed_tail')})
        json.dump(res, open('/tmp/seedres_%s.json' % sid, 'w'), indent=1)
        continue
    rf = '/tmp/seedres_%s.json' % sid
    json.dump(res, open(rf, 'w'), indent=1)
    subprocess.run(['/venv/bin/python', '/verif/tools/save_seeded.py', sid, patch, demo, ameta, rf], capture_output=True)
    for p, c in res['checks'].items():
        keys = [d.get('key') for d in c['detail'] if d.get('kind') == 'failing-input']
        nf = [d.get('broken') for d in c['detail'] if d.get('kind') == 'no-failing-input-found']
        print(sid, p, 'rc', c['rc'], 'CAUGHT' if keys else ('DISAGREE-ONLY %s' % nf if c['rc'] else 'MISSED'), keys)
