#!/venv/bin/python
"""Owner tool: regenerate DESIGN.md sections 13 onwards (findings, seeded changes, reviews, per-property
status) from known_findings.json, seeded/*/meta.json, notes/ and the Properties files.  Everything before the
marker line `## 13.` is left untouched."""
import glob
import json
import os
import re
import subprocess

V = '/verif'
design = open(os.path.join(V, 'DESIGN.md')).read()
i = design.find('\n## 13. ')
head = design if i < 0 else design[:i]
head = head.rstrip('\n') + '\n'

kf = json.load(open(os.path.join(V, 'known_findings.json')))['findings']
out = []
w = out.append

# ---------------------------------------------------------------- 13 findings
w('\n\n## 13. Findings on the original tree and what became of them\n')
w('Every check was first run on the tree as given (commit `4c62642`, later on the partly repaired tree).  '
  'Each violation it reported was reproduced on the real code and judged against the *property statement*: '
  'a genuine defect was repaired by one minimal unguarded `fix:` commit in `/repo` (the unedited suite still passes: '
  '164 passed, the same 3 baseline failures) and recorded as `fixed` in `known_findings.json`; a `fixed` entry '
  'suppresses nothing - its exemplar is in `corpus/<id>/` and runs first, and the check reports the violation again '
  'under the same key if the repair is reverted (verified per property, see `notes/Cxx.md`, section self-test).  '
  'Alarms that turned out to be mistakes of a model, harness or oracle were corrected in the machinery and are '
  'described in the notes (e.g. C06: the simulated client looked the cookie id up in every user\'s keyring; C11: '
  'reply bodies rendered without the sender\'s variant inference; C15: model drift after the C16 repair; C06, found late by a thorough run with a new seed: the simulated client switched keyrings on an AUTH line the bus had answered with ERROR, so its "right" cookie response was not right).\n')
nfix = sum(1 for e in kf if e['status'] == 'fixed')
nkn = sum(1 for e in kf if e['status'] == 'known')
commits = sorted({e.get('commit') for e in kf if e.get('commit')})
w('%d keys are listed as fixed (by %d commits; `fixes/APPLIED.md` lists all %s repair commits in order, '
  '`fixes/*.patch` keeps each patch as reviewed), %d as known.\n' % (
      nfix, len(commits),
      subprocess.run(['git', '-C', '/repo', 'rev-list', '--count', '4c62642..HEAD'], capture_output=True).stdout.decode().strip(),
      nkn))
rf = os.path.join(V, 'notes', 'revert_fixes.json')
if os.path.exists(rf):
    rr = json.load(open(rf))
    clean = [r for r in rr if 'checks' in r]
    back = [r for r in clean if r['verdict'] == 'violation returns under the listed key']
    other = [r for r in clean if r['verdict'] != 'violation returns under the listed key']
    w('\nThat a `fixed` entry suppresses nothing is checked mechanically by `tools/revert_fixes.py`: each repair commit is '
      'reverted alone in a scratch worktree of HEAD and the quick check of every property that lists a `fixed` key for it is '
      'run against that tree.  Of the %d repair commits %d revert cleanly on their own (the others are built upon by later '
      'repairs); for %d of those the violation comes back with a concrete failing input under the listed key%s  '
      '(`notes/revert_fixes.json`).\n' % (len(rr), len(clean), len(back),
        '.' if not other else '; not so for: ' + ', '.join('%s (%s)' % (r['commit'], r['verdict']) for r in other) + '.'))
w('\n**Known finding (recorded, not repaired).**\n')
for e in kf:
    if e['status'] == 'known':
        w('* %s `%s`: %s  The check prints `KNOWN-FINDING: property=%s ...` for it on every run and exits 0; '
          'any other key is still reported.\n' % (e['property'], e['key'], e['what'], e['property']))
w('\n| property | key | commit | what failed |\n|---|---|---|---|\n')
for e in sorted(kf, key=lambda e: (e['property'], e.get('commit', ''))):
    if e['status'] != 'fixed':
        continue
    what = e['what']
    pre = 'fixed: property=%s %s ' % (e['property'], e.get('commit', ''))
    if what.startswith(pre):
        what = what[len(pre):]
    w('| %s | `%s` | %s | %s |\n' % (e['property'], e['key'], e.get('commit', ''), what.replace('|', '\\|')))
w('\nObserved but not flagged (the statements do not make them wrong; details in the notes): no error reply for an '
  'unknown destination, GetId answering an error, RemoveMatch unimplemented on the bus, RequestName granting '
  '`org.freedesktop.DBus`, NameOwnerChanged not broadcast on release, a replaced owner dropped rather than requeued, '
  '`marshal(\'ss\', [\'ab\'])` silently encoding one value (zip truncation), `_marshal` always encoding the body '
  'little-endian whatever `endian` says, signature strings never validated, `parseMessage` not checking version / '
  'required fields, nonce-tcp never sending the nonce, calls issued on a lost connection never completing.\n')

# ---------------------------------------------------------------- 14 seeded
w('\n\n## 14. Seeded changes: which checks catch which changes\n')
w('Fresh sub-agents were given only the text of one property and their own scratch worktree of `/repo` (nothing '
  'from `/verif`) and asked for a realistic change that breaks the property while the library still imports and the '
  'existing suite still passes, with a stand-alone demonstration.  Each change was confirmed by the owner with '
  '`tools/try_seeded.py`: fresh worktree of `/repo` HEAD, demonstration passes on the unchanged tree, patch applies, '
  'unedited suite passes, demonstration fails; then the property\'s quick check was run from an isolated copy of '
  '`/verif` with `TXDBUS_REPO=<worktree>` (neither `/repo` nor the generated tables of `/verif` are disturbed).  '
  'Every kept change is in `seeded/<id>/` (`patch.diff`, `demo.py`, `meta.json` with what it needs to manifest, what '
  'was run and the verdict).  Where a change was missed, or seen only as a model/implementation disagreement '
  '(`no-failing-input-found`), the check was strengthened and the change run again; `meta.json` keeps the first '
  'verdict under `checks_first_run`.\n')
rows = []
caught = missed = noinput = strengthened = 0
for d in sorted(glob.glob(os.path.join(V, 'seeded/*/meta.json'))):
    m = json.load(open(d))
    summ = (m.get('summary') or '').replace('\n', ' ').replace('|', '\\|')
    summ = re.sub(r'\s+', ' ', summ)
    if len(summ) > 230:
        summ = summ[:227] + '...'
    for p, c in m['checks'].items():
        keys = [f['key'] for f in c['failing_inputs'] if f.get('kind') == 'failing-input']
        if keys:
            how = 'failing input: ' + ', '.join('`%s`' % k for k in keys[:3]) + (' ...' if len(keys) > 3 else '')
            caught += 1
        elif c['exit']:
            how = 'only `no-failing-input-found` (a correspondence stream / table obligation breaks)'
            noinput += 1
        else:
            how = '**missed**'
            missed += 1
        if m.get('checks_first_run'):
            how += ' (missed at first; check strengthened)'
            strengthened += 1
        rows.append('| %s | %s | %s | %s |\n' % (m['id'], p, summ, how))
w('\n%d seeded changes are filed: %d are reported with a concrete failing input, %d only as `no-failing-input-found`, '
  '%d are missed; %d of the caught ones were caught only after the check was strengthened.\n' % (
      len(rows), caught, noinput, missed, strengthened))
w('\n| id | check | what the change does | verdict of the quick check |\n|---|---|---|---|\n')
out.extend(rows)
w('\nBesides these, every builder ran its own self-test (3-13 property-breaking edits that pass the suite and 2-5 '
  'harmless refactorings per property; tables in `notes/Cxx.md`): all breaking edits were reported, harmless '
  'refactorings stayed quiet except where they change a source shape that a translator in `tools/tables/` insists on, '
  'which ends - by design, section 2.3 - in `VIOLATION ... no-failing-input-found` naming the table obligation.\n')

# ---------------------------------------------------------------- 14b harmless
w('\n\n## 14b. Harmless changes: do the checks stay quiet on code for which the property holds?\n')
w('A second set of fresh sub-agents (brief: `notes/HARMLESS_BRIEF.md`), again given only the property text and a scratch '
  'worktree, wrote three *behaviour-preserving* changes per property to the code the property is anchored in: `h1` a local '
  'clean-up, `h2` a structural refactoring (functions split or merged, internal representation changed), `h3` a change of '
  'behaviour outside the property (wording of errors and logs, extra attributes).  Each author checked its patches with a '
  'before/after transcript of its own; the owner ran every patch with `tools/try_harmless.py` (fresh worktree, unedited '
  'suite, quick check from an isolated copy of `/verif`).  The patches and verdicts are in `harmless/<id>/`.  A verdict '
  '`alarm` on such a patch is always of the kind `no-failing-input-found` (a translator did not recognise the new source '
  'shape, or a correspondence stream compared something the property does not constrain); the specification allows that '
  'outcome for a harmless rewrite, but each one costs the user an investigation, so the translators were then reworked '
  '(`notes/ROBUSTNESS_BRIEF.md`): a table is regenerated by recognising the source shape *or* by probing the code over the '
  'table\'s finite domain (both must agree where both work), purely structural guards became advisories that widen the '
  'correspondence run, and correspondence streams compare what the statement constrains (error class and name, not locally '
  'generated wording; behaviour of a rule, not its attribute layout).  A second batch by new authors '
  '(`notes/HARMLESS_BRIEF_2.md`: `h4` rename / move of private helpers, `h5` changed internal representation or control '
  'flow, `h6` performance and robustness touches) then showed a second cause: harnesses and translators reached into '
  'private names (`message._hcode`, `conn._cbCvtReply`, `marshal.invalid_obj_path_re`, ...) that a maintainer may rename; '
  'one such rename even made an oracle report "failing inputs" through the harness\'s own `AttributeError`.  The rule since '
  '(addendum of `notes/ROBUSTNESS_BRIEF.md`): names pinned by the unedited test suite may be used; every other internal is '
  'found through public behaviour by a locator (`harness/c03_probe.py`, `c08_locate.py`, `c09_locate.py`, `c10_locate.py`, '
  '...), the private name being only the fast path; a fault of the harness\'s own reach is a note and a skipped scenario, '
  'never a violation; only when no stream of a property can run is the obligation broken.  `meta.json` keeps the first '
  'verdict under `checks_first_run`.\n')
hrows = []
hq = ha = hfirst = 0
for d in sorted(glob.glob(os.path.join(V, 'harmless/*/meta.json'))):
    m = json.load(open(d))
    summ = re.sub(r'\s+', ' ', (m.get('summary') or '').replace('|', '\\|'))
    if len(summ) > 200:
        summ = summ[:197] + '...'
    for p, c in m.get('checks', {}).items():
        first = (m.get('checks_first_run') or {}).get(p)
        v = c['verdict']
        if v == 'quiet':
            hq += 1
        else:
            ha += 1
            obs = sorted({b[0] for x in c.get('detail', []) for b in x.get('broken', [])})
            v = '**alarm** (`no-failing-input-found`: %s)' % ', '.join(obs)
        if first and first['verdict'] != 'quiet':
            hfirst += 1
            obs = sorted({b[0] for x in first.get('detail', []) for b in x.get('broken', [])})
            v += ' (first run: alarm on %s; machinery reworked)' % ', '.join(obs)
        hrows.append('| %s | %s | %s | %s |\n' % (m['id'], p, summ, v))
w('\n%d runs of harmless patches are filed: %d quiet, %d alarms; %d of the quiet ones alarmed before the rework.\n' % (len(hrows), hq, ha, hfirst))
# cross matrix
cq = ca = cfirst = 0
cal = []
for d in sorted(glob.glob(os.path.join(V, 'harmless/*/meta.json'))):
    m = json.load(open(d))
    for p, c in (m.get('cross_checks') or {}).items():
        if c['verdict'] == 'quiet':
            cq += 1
            if c.get('first_run'):
                cfirst += 1
                obs = sorted({b[0] for x in c['first_run'].get('detail', []) for b in x.get('broken', [])})
                cal.append('%s vs. %s: quiet now; first run alarmed on %s' % (m['id'], p, ', '.join(obs)))
        else:
            ca += 1
            obs = sorted({b[0] for x in c.get('detail', []) for b in x.get('broken', [])})
            cal.append('%s vs. %s: **alarm** (%s)' % (m['id'], p, ', '.join(obs)))
w('\nCross matrix (`tools/cross_harmless.py`): every patch was also run against the quick checks of the *other* properties '
  'anchored in the files it touches (a refactoring of `marshal.py` written for C01 must not alarm C02, C03, C05, C17, C18, '
  'C19 or C20 either): %d runs, %d quiet, %d alarms%s\n' % (cq + ca, cq, ca, ('; ' + '; '.join(cal) + '.') if cal else '.'))
w('\n| id | check | what the change does | verdict of the quick check |\n|---|---|---|---|\n')
out.extend(hrows)

# ---------------------------------------------------------------- 15 reviews
w('\n\n## 15. Independent reviews\n')
w('After the checks were built, a fresh reviewer per property (brief: `notes/REVIEW_BRIEF.md`) compared the theorems '
  'with the property statement (missing clauses, hypotheses that cut the quantifier, specs defined through the code '
  'model, vacuity), the Lean model with the code line by line, the oracle with the statement (false-alarm risks), and '
  'the generators with the quantifier (blind spots, with candidate changes that would probably be missed).  The '
  'reports are in `notes/review/Cxx.md`; what was done about each finding is in the section "review findings and what '
  'was done" of `notes/Cxx.md`.  Oracle readings stricter than the statement were relaxed first: an alarm on code for '
  'which the property holds is the worst outcome.\n')
revs = sorted(os.path.basename(f)[:-3] for f in glob.glob(os.path.join(V, 'notes/review/C*.md')))
w('Reviews present: %s.\n' % ', '.join(revs))

# ---------------------------------------------------------------- 16 status table
w('\n\n## 16. Per-property status (generated)\n')
w('\n| property | theorems in `Properties/` (`_partial`) | Lean lines (models+proofs it imports) | correspondence streams | notes |\n|---|---|---|---|---|\n')
import sys
sys.path.insert(0, V)
from vlib import pipeline
for n in range(1, 21):
    pid = 'C%02d' % n
    pm = 'TxdbusModel.Properties.' + pid
    f = pipeline.module_file(pm)
    thms = pipeline.declared_theorems(pm) if os.path.exists(f) else []
    part = [t for t in thms if 'partial' in t]
    mods = pipeline.import_closure(pm)
    lines = sum(len(open(pipeline.module_file(m)).read().split('\n')) for m in mods)
    streams = '?'
    hp = os.path.join(V, 'harness', pid.lower() + '.py')
    if os.path.exists(hp):
        mm = re.search(r'^STREAMS\s*=\s*\[(.*?)\]', open(hp).read(), re.S | re.M)
        if mm:
            streams = str(len(re.findall(r"'[^']+'|\"[^\"]+\"", mm.group(1))))
    w('| %s | %d (%s) | %d | %s | `notes/%s.md` |\n' % (pid, len(thms), ', '.join(part) if part else 'none', lines, streams, pid))
w('\nAll 20 properties are claimed at level `proof` in MANIFEST.json; `not_applicable` is empty.  A theorem named '
  '`_partial` proves part of a clause; the full statement and what is missing are written next to it and repeated in '
  'the notes.\n')

open(os.path.join(V, 'DESIGN.md'), 'w').write(head + ''.join(out))
print('DESIGN.md regenerated from section 13: %d seeded rows, %d findings' % (len(rows), len(kf)))
