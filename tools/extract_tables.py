#!/venv/bin/python
"""Translator (DESIGN 2.2a): regenerate lean/TxdbusModel/Gen/*.lean from the working tree of
the repository.  Each tools/tables/<name>.py provides

    MODULE = 'TxdbusModel.Gen.<Name>'      # Lean module it writes
    def emit(repo) -> str                   # full Lean source text, deterministic
    ADVISORIES = []                         # optional; emit() resets and fills it: "shape not recognised, table
                                            # re-derived by probing ..." - not an error, but widens the check

A file is only rewritten when its content changes (so lake does not rebuild needlessly).
Usage: /venv/bin/python tools/extract_tables.py [--repo /repo]
"""
import importlib
import os
import sys
import traceback

HERE = os.path.dirname(os.path.abspath(__file__))
VERIF = os.path.dirname(HERE)
LEAN = os.path.join(VERIF, 'lean')


def run(repo):
    sys.path.insert(0, HERE)
    sys.path.insert(0, VERIF)
    from vlib import ctx as ctxmod
    ctxmod.use_repo(repo)
    results, errors = [], []
    tdir = os.path.join(HERE, 'tables')
    for fn in sorted(os.listdir(tdir)):
        if not fn.endswith('.py') or fn.startswith('_'):
            continue
        name = fn[:-3]
        module = None
        try:
            mod = importlib.import_module('tables.' + name)
            mod = importlib.reload(mod)
            module = mod.MODULE
            text = mod.emit(repo)
            path = os.path.join(LEAN, *module.split('.')) + '.lean'
            os.makedirs(os.path.dirname(path), exist_ok=True)
            old = open(path, encoding='utf-8').read() if os.path.exists(path) else None
            changed = old != text
            if changed:
                with open(path, 'w', encoding='utf-8') as f:
                    f.write(text)
            # a translator that could not recognise a source shape but re-derived the table by probing the code
            # (or tripped a purely structural guard) says so here: the pipeline then widens the correspondence
            # run instead of reporting a broken table obligation
            adv = [str(a) for a in getattr(mod, 'ADVISORIES', [])]
            results.append({'module': module, 'changed_this_run': changed, 'advisories': adv})
        except Exception as e:
            errors.append({'module': module, 'translator': name,
                           'error': '%r\n%s' % (e, traceback.format_exc()[-1500:])})
    return results, errors


if __name__ == '__main__':
    repo = '/repo'
    if '--repo' in sys.argv:
        repo = sys.argv[sys.argv.index('--repo') + 1]
    elif os.environ.get('TXDBUS_REPO'):
        repo = os.environ['TXDBUS_REPO']
    res, errs = run(repo)
    for r in res:
        print('table', r['module'], 'changed' if r['changed_this_run'] else 'unchanged')
        for a in r.get('advisories', []):
            print('  advisory:', a)
    for e in errs:
        print('ERROR', e['translator'], e['error'])
    sys.exit(1 if errs else 0)
