"""Translator for C20: the rules of descriptor handling that Proto/Fds.lean mirrors by hand.

Each rule is a Bool in lean/TxdbusModel/Gen/FdsRules.lean.  It is `true` when the source has exactly
the shape the model was written from (AST), and otherwise - a refactoring this translator does not
know - when the running code still BEHAVES like the rule on a few crafted inputs (behavioural
fallback).  `Properties/C20.lean` proves `model_rules_match_source` by `decide`: a change of /repo that
breaks a rule breaks that theorem.

  indexBeforeAppend        marshal_unix_fd: index = len(oobFDs) taken BEFORE oobFDs.append(var)
  headerCountIsLen         _marshal: `if oobFDs:` -> header field unix_fds = len(oobFDs), absent otherwise
  unixFdsHeaderCode        the code of that header field as _marshal emits it
  sendEachThenWrite        sendMessage: one sendFileDescriptor per entry of msg.oobFDs, in order, then write
  consumeDeclared          rawDBusMessageReceived: unix_fds present -> queue = queue[unix_fds:], nothing else
  resolveByIndex           unmarshal_unix_fd: oobFDs[index], IndexError -> None
  queueAlwaysAppends       fileDescriptorReceived: unconditional append
  callRemoteFreshList      callRemote: a new list for every call
"""
import ast
import inspect
import struct
import textwrap

MODULE = 'TxdbusModel.Gen.FdsRules'


class TranslatorError(Exception):
    pass


def _fn(obj):
    return ast.parse(textwrap.dedent(inspect.getsource(obj))).body[0]


def _dump(n):
    return ast.dump(n)


def _src_is(obj, stmts):
    """The function body (docstring and comments aside) unparses to exactly these statements."""
    try:
        body = [b for b in _fn(obj).body
                if not (isinstance(b, ast.Expr) and isinstance(b.value, ast.Constant) and isinstance(b.value.value, str))]
        return [ast.unparse(b) for b in body] == stmts
    except Exception:
        return False


class _Rec:
    def __init__(self):
        self.calls = []
        self.disconnecting = False

    def sendFileDescriptor(self, fd):
        self.calls.append(('f', fd))

    def write(self, data):
        self.calls.append(('W', bytes(data)))

    def writeSequence(self, seq):
        self.write(b''.join(seq))

    def loseConnection(self):
        self.disconnecting = True


def rules(marshal, message, protocol, client):
    r, how = {}, {}

    def put(name, ast_ok, probe):
        if ast_ok:
            r[name], how[name] = True, 'AST'
        else:
            try:
                r[name] = bool(probe())
            except Exception as e:          # the probe itself fails: the rule does not hold
                r[name] = False
                how[name] = 'probe raised %s' % type(e).__name__
                return
            how[name] = 'probed'

    # marshal_unix_fd
    def p_index():
        oob = [5, 6]
        n, chunks = marshal.marshal_unix_fd('h', 9, 0, True, oob)
        return n == 4 and b''.join(chunks) == struct.pack('<I', 2) and oob == [5, 6, 9]
    put('indexBeforeAppend',
        _src_is(marshal.marshal_unix_fd, ['index = len(oobFDs)', 'oobFDs.append(var)',
                                          "return (4, [struct.pack(lendian and '<I' or '>I', index)])"]),
        p_index)

    # unmarshal_unix_fd
    def p_resolve():
        q = [7, 8]
        return (marshal.unmarshal_unix_fd('h', struct.pack('<I', 1), 0, True, q) == (4, 8)
                and marshal.unmarshal_unix_fd('h', struct.pack('<I', 5), 0, True, q) == (4, None)
                and marshal.unmarshal_unix_fd('h', struct.pack('>I', 0), 0, False, q) == (4, 7))
    put('resolveByIndex',
        _src_is(marshal.unmarshal_unix_fd,
                ["index = struct.unpack_from(lendian and '<I' or '>I', data, offset)[0]",
                 'try:\n    fd = oobFDs[index]\nexcept IndexError:\n    fd = None', 'return (4, fd)']),
        p_resolve)

    # _marshal: header rule (always measured: the AST of _marshal is long and owned by C03)
    def field9(m):
        return [v for c, v in m.headers if c == r.get('unixFdsHeaderCode', 9)]

    def p_header():
        a = message.MethodCallMessage('/a', 'M', signature='hh', body=[4, 4], oobFDs=[])
        b = message.MethodCallMessage('/a', 'M', signature='ah', body=[[]], oobFDs=[])
        c = message.MethodCallMessage('/a', 'M', signature='ahs', body=[[1, 2, 3], 'x'], oobFDs=[])
        codes = [cd for cd, v in a.headers]
        extra = [cd for cd in codes if cd not in [x for x, _ in b.headers]]
        if len(extra) != 1:
            return False
        r['unixFdsHeaderCode'] = extra[0]
        return (field9(a) == [2] and field9(b) == [] and field9(c) == [3]
                and list(a.oobFDs) == [4, 4] and list(c.oobFDs) == [1, 2, 3])
    put('headerCountIsLen', False, p_header)
    if 'unixFdsHeaderCode' not in r:
        raise TranslatorError('_marshal: no header field is added for a message with descriptors')

    # sendMessage
    def p_send():
        m = message.MethodCallMessage('/a', 'M', signature='hhh', body=[7, 7, 5], oobFDs=[])
        p = protocol.BasicDBusProtocol()
        p.transport = _Rec()
        p.sendMessage(m)
        n = message.MethodCallMessage('/a', 'M', signature='s', body=['x'], oobFDs=[])
        q = protocol.BasicDBusProtocol()
        q.transport = _Rec()
        q.sendMessage(n)

        def shape(calls, fds, raw):
            # every descriptor, in order, before the first byte; the bytes written (in one or several writes) are the message
            k = len(fds)
            return (calls[:k] == [('f', d) for d in fds] and len(calls) > k and all(c[0] == 'W' for c in calls[k:])
                    and b''.join(c[1] for c in calls[k:]) == raw)
        return shape(p.transport.calls, [7, 7, 5], m.rawMessage) and shape(q.transport.calls, [], n.rawMessage)
    put('sendEachThenWrite',
        _src_is(protocol.BasicDBusProtocol.sendMessage,
                ['assert isinstance(msg, message.DBusMessage)',
                 "if hasattr(msg, 'oobFDs') and msg.oobFDs:\n    for fd in msg.oobFDs:\n"
                 "        self.transport.sendFileDescriptor(fd)",
                 'self.transport.write(msg.rawMessage)']),
        p_send)

    # rawDBusMessageReceived: consumption
    def mk_recv():
        class P(protocol.BasicDBusProtocol):
            pass
        p = P()
        p.transport = _Rec()
        p._receivedFDs = []
        return p

    def handle_in_variant():
        body = b''.join(marshal.marshal('v', [marshal.UInt32(0)])[1]).replace(b'\x01u\x00', b'\x01h\x00')
        headers = [[5, marshal.UInt32(1)], [8, marshal.Signature('v')], [9, marshal.UInt32(1)]]
        from harness import c03_probe as _P          # message._headerFormat through public behaviour (fast path: the name)
        hdr = b''.join(marshal.marshal(_P.header_signature(message, marshal), [ord('l'), 2, 0, 1, len(body), 1, headers])[1])
        return hdr + b'\0' * (-len(hdr) % 8) + body

    def p_consume():
        p = mk_recv()
        p._receivedFDs = [1, 2, 3, 4]
        a = message.MethodCallMessage('/a', 'M', signature='hh', body=[0, 0], oobFDs=[])
        p.rawDBusMessageReceived(a.rawMessage)
        ok = list(p._receivedFDs) == [3, 4]
        p.rawDBusMessageReceived(handle_in_variant())
        ok = ok and list(p._receivedFDs) == [4]
        b = message.MethodCallMessage('/a', 'M', signature='s', body=['x'], oobFDs=[])
        p.rawDBusMessageReceived(b.rawMessage)
        return ok and list(p._receivedFDs) == [4]
    src = inspect.getsource(protocol.BasicDBusProtocol.rawDBusMessageReceived)
    tree = _fn(protocol.BasicDBusProtocol.rawDBusMessageReceived)
    ifs = [n for n in ast.walk(tree) if isinstance(n, ast.If) and 'unix_fds' in ast.unparse(n.test)]
    ast_ok = (len(ifs) == 1 and ast.unparse(ifs[0].test) == "hasattr(m, 'unix_fds')"
              and [ast.unparse(b) for b in ifs[0].body] == ['self._receivedFDs = self._receivedFDs[m.unix_fds:]']
              and not ifs[0].orelse
              and ast.unparse(tree.body[1] if isinstance(tree.body[0], ast.Expr) else tree.body[0])
              == 'm = message.parseMessage(rawMsg, self._receivedFDs)')
    put('consumeDeclared', ast_ok, p_consume)

    # fileDescriptorReceived
    def p_queue():
        p = mk_recv()
        for i in range(200):
            p.fileDescriptorReceived(i)
        q = mk_recv()
        q._authenticated = True
        q.fileDescriptorReceived(5)
        q.fileDescriptorReceived(5)
        return list(p._receivedFDs) == list(range(200)) and list(q._receivedFDs) == [5, 5]
    put('queueAlwaysAppends',
        _src_is(protocol.BasicDBusProtocol.fileDescriptorReceived, ['self._receivedFDs.append(fd)']),
        p_queue)

    # callRemote
    def p_fresh():
        c = client.DBusClientConnection()
        c._pendingCalls = {}
        c.transport = _Rec()
        sent = []
        orig = c.sendMessage
        c.sendMessage = lambda m: (sent.append(m), orig(m))[1]
        c.callRemote('/a', 'M', signature='h', body=[11], expectReply=False)
        c.callRemote('/a', 'M', signature='h', body=[12], expectReply=False)
        c.callRemote('/a', 'M', signature='s', body=['x'], expectReply=False)
        return (len(sent) == 3 and list(sent[0].oobFDs) == [11] and list(sent[1].oobFDs) == [12]
                and not sent[2].oobFDs and sent[0].oobFDs is not sent[1].oobFDs
                and [x[0] for x in c.transport.calls] == ['f', 'W', 'f', 'W', 'W'])
    kw = [k for n in ast.walk(_fn(client.DBusClientConnection.callRemote)) if isinstance(n, ast.Call)
          for k in n.keywords if k.arg == 'oobFDs']
    put('callRemoteFreshList',
        len(kw) == 1 and isinstance(kw[0].value, ast.List) and not kw[0].value.elts,
        p_fresh)
    return r, how


def emit(repo):
    from txdbus import marshal, message, protocol, client
    r, how = rules(marshal, message, protocol, client)
    out = ['/-',
           'GENERATED by tools/tables/c20_fds.py from txdbus/{marshal,message,protocol,client}.py of the repository',
           'under test: the descriptor-handling rules mirrored by Proto/Fds.lean.  A rule is `true` when the',
           'source has the shape the model was written from, or - for a shape the translator does not know -',
           'when the running code behaves like the rule on crafted inputs.  Do not edit.',
           '-/',
           'namespace Txdbus.Gen.FdsRules', '']
    docs = {
        'indexBeforeAppend': 'marshal_unix_fd: the index written is len(oobFDs) before the append',
        'resolveByIndex': 'unmarshal_unix_fd: oobFDs[index], IndexError -> None',
        'headerCountIsLen': '_marshal: header field unix_fds = len(oobFDs) iff the list is non-empty',
        'sendEachThenWrite': 'sendMessage: one sendFileDescriptor per entry of msg.oobFDs, in order, then write',
        'consumeDeclared': 'rawDBusMessageReceived: unix_fds present -> exactly that many queue entries removed',
        'queueAlwaysAppends': 'fileDescriptorReceived: unconditional append',
        'callRemoteFreshList': 'callRemote: a new out-of-band list for every call',
    }
    for k in ('indexBeforeAppend', 'resolveByIndex', 'headerCountIsLen', 'sendEachThenWrite', 'consumeDeclared',
              'queueAlwaysAppends', 'callRemoteFreshList'):
        out.append('/-- %s  (%s) -/' % (docs[k], how.get(k, '?')))
        out.append('def %s : Bool := %s' % (k, 'true' if r[k] else 'false'))
    out.append('/-- code of the header field `_marshal` adds for a message with descriptors -/')
    out.append('def unixFdsHeaderCode : Nat := %d' % r['unixFdsHeaderCode'])
    out += ['', 'end Txdbus.Gen.FdsRules']
    return '\n'.join(out) + '\n'
