"""Translator for C05: the tables that steer the decoder's control flow.

Read from the *runtime objects* of the working tree (so a refactoring that keeps behaviour keeps the table):

  marshal.pad                 type code -> alignment        (probed: len(pad[c](x)) for x in 0..63 must be the
                                                              padding to a multiple of one a in {1,2,4,8})
  marshal.unmarshallers       type code -> kind             ALWAYS by behaviour on probes (never by function identity): string /
                                                              signature / array / struct / variant each have a small family of
                                                              probes incl. lying lengths that pin width, byte order and
                                                              unsignedness of the length field; every other entry is
                                                              probed as a fixed-size reader: the smallest buffer it accepts at
                                                              offset 0 (`need`), the byte count it reports (`adv`), and the class
                                                              of the value (0 int/bool, 1 float, 2 None for an empty fd list)
  message._headerFormat       the fixed header signature
  message._mtype              accepted message type codes
  message._hcode              header field code of the attribute 'signature'

Anything outside these shapes is a translator failure (a broken table obligation of C05).
"""
import resource
import signal
import struct

MODULE = 'TxdbusModel.Gen.C05Wire'


class TranslatorError(Exception):
    pass


def lchar(c):
    if not (isinstance(c, str) and len(c) == 1):
        raise TranslatorError('unexpected table key %r' % (c,))
    if 32 <= ord(c) < 127 and c not in "'\\":
        return "'%s'" % c
    if 0xD800 <= ord(c) <= 0xDFFF:
        raise TranslatorError('surrogate table key %r' % (c,))
    return '(Char.ofNat %d)' % ord(c)


def probe_align(f):
    found = None
    for a in (1, 2, 4, 8):
        if all(len(f(x)) == ((a - x % a) % a) for x in range(64)):
            found = a
            break
    if found is None:
        raise TranslatorError('a pad function is not "pad to a multiple of 1, 2, 4 or 8"')
    for x in range(64):
        if bytes(f(x)) != b'\0' * ((found - x % found) % found):
            raise TranslatorError('pad bytes are not NUL')
    return found


def probe_fixed(code, f):
    """(need, adv, cls) of a fixed-size reader."""
    need = None
    for n in range(0, 17):
        buf = bytes([1] + [0] * (n - 1)) if n else b''
        try:
            r = f(code, buf, 0, True, [])
        except Exception:           # struct.error today; a hardened reader may answer with its own exception class
            continue
        need = n
        break
    if need is None:
        raise TranslatorError('unmarshallers[%r] reads more than 16 bytes or fails for another reason' % code)
    advs = set()
    vals = []
    for pat in (b'\x00', b'\x01', b'\xff', b'\x80'):
        for le in (True, False):
            buf = pat * 32
            for off in (0, 3, 8):
                r = f(code, buf, off, le, [])
                if not (isinstance(r, tuple) and len(r) == 2 and isinstance(r[0], int)):
                    raise TranslatorError('unmarshallers[%r] does not return (nbytes, value)' % code)
                advs.add(r[0])
                vals.append(r[1])
            # one byte less than needed must be a struct.error, at an offset too
            try:
                f(code, buf[:3 + need - 1], 3, le, [])
            except Exception:
                pass
            else:
                raise TranslatorError('unmarshallers[%r]: no bounds error one byte short' % code)
    if len(advs) != 1:
        raise TranslatorError('unmarshallers[%r] is not fixed-size: %r' % (code, sorted(advs)))
    adv = advs.pop()
    if all(v is None for v in vals):
        cls = 2
    elif all(isinstance(v, float) for v in vals):
        cls = 1
    elif all(isinstance(v, int) for v in vals):      # bool is an int
        cls = 0
    else:
        raise TranslatorError('unmarshallers[%r]: values of mixed classes' % code)
    return need, adv, cls


def _is(f, args, expected):
    try:
        return f(*args) == expected
    except Exception:
        return False


def _raises(f, args, exc=Exception):
    """the call ends in an exception (WHICH class is not part of the table: struct.error today, possibly the library's
    own MarshallingError after a hardening)."""
    try:
        f(*args)
    except exc:
        return True
    except Exception:
        return False
    return False


def _byte_reads(f, args):
    """how often the call dispatches to unmarshallers['y'] (whatever it raises afterwards): tells "the loop / the nested
    decode was entered" apart from "it was skipped" without looking at exception classes."""
    from txdbus import marshal
    n = [0]
    orig = marshal.unmarshallers['y']

    def shim(*a):
        n[0] += 1
        return orig(*a)
    marshal.unmarshallers['y'] = shim
    try:
        try:
            f(*args)
        except Exception:
            pass
    finally:
        marshal.unmarshallers['y'] = orig
    return n[0]


def classify(code, f):
    """Kind of `unmarshallers[code]` BY BEHAVIOUR (always probed, whatever the function object is, so that a wrapper,
    a decorator or an own `def` with the same behaviour is accepted and a changed reader is not):
    string / signature / array / struct / variant, else None (-> probed as a fixed-size reader).
    Each family includes a lying-length probe that pins width, byte order and UNSIGNEDNESS of the length field."""
    if (_is(f, (code, b'\x03\x00\x00\x00abc\x00', 0, True, []), (8, 'abc'))
            and _is(f, (code, b'\x00\x00\x00\x02hi\x00', 0, False, []), (7, 'hi'))
            and _is(f, (code, b'zz\x01\x00\x00\x00q\x00', 2, True, []), (6, 'q'))
            and _is(f, (code, b'\xff\xff\xff\xffab', 0, True, []), (4 + 0xffffffff + 1, 'ab'))     # slice clamps, unsigned
            and _is(f, (code, b'\x80\x00\x00\x00ab', 0, False, []), (4 + 0x80000000 + 1, 'ab'))
            and _raises(f, (code, b'\x03\x00\x00', 0, True, []))):
        return 'string'
    if (_is(f, (code, b'\x03abc\x00', 0, True, []), (5, 'abc'))
            and _is(f, (code, b'z\x01q\x00', 1, False, []), (3, 'q'))
            and _is(f, (code, b'\xffab', 0, False, []), (1 + 255 + 1, 'ab'))                               # byte >= 128: unsigned
            and _is(f, (code, b'\x80ab', 0, True, []), (1 + 128 + 1, 'ab'))
            and _raises(f, (code, b'', 0, True, []))):
        return 'signature'
    if (_is(f, ('ay', b'\x02\x00\x00\x00\x07\x09', 0, True, []), (6, [7, 9]))
            and _is(f, ('ay', b'\x00\x00\x00\x01\x07', 0, False, []), (5, [7]))
            and _is(f, ('au', b'\x00\x00\x00\x00', 0, True, []), (4, []))
            and _is(f, ('ax', b'\x08\x00\x00\x00' + b'\x00' * 4 + b'\x05' + b'\x00' * 7, 0, True, []), (16, [5]))  # pad to the element
            and _raises(f, ('ay', b'\xff\xff\xff\xff\x07', 0, True, []))
            and _byte_reads(f, ('ay', b'\xff\xff\xff\xff\x07', 0, True, [])) == 2       # unsigned: 1 element, then the end of the data
            and _byte_reads(f, ('ay', b'\x00\x00\x00\x80\x07\x08', 0, True, [])) == 3
            and _raises(f, ('ay', b'\x02\x00\x00', 0, True, []))):
        return 'array'
    op, cl = (code, {'(': ')', '{': '}'}.get(code, ')'))
    if (_is(f, (op + cl, b'', 0, True, []), (0, []))
            and _is(f, (op + 'y' + cl, b'\x07', 0, True, []), (1, [7]))
            and _is(f, (op + 'yu' + cl, b'\x07\x00\x00\x00\x00\x00\x00\x09', 0, False, []), (8, [7, 9]))
            and _is(f, (op + 'y' + cl, b'zz\x07', 2, True, []), (1, [7]))):
        return 'struct'
    if (_is(f, ('v', b'\x01y\x00\x05', 0, True, []), (4, 5))
            and _is(f, ('v', b'\x01u\x00\x00\x00\x00\x00\x09', 0, False, []), (8, 9))                 # pad to the value
            and _is(f, ('v', b'\x02yy\x00\x05\x06', 0, True, []), (6, 5))                               # first value only
            and _raises(f, ('v', b'\x00\x00', 0, True, []))
            and _raises(f, ('v', b'\x80' + b'y' * 10, 0, True, []))
            and _byte_reads(f, ('v', b'\x80' + b'y' * 10, 0, True, [])) == 1):                              # byte >= 128: unsigned
        return 'variant'
    return None


class _ProbeAbort(BaseException):
    pass


def emit(repo):
    """The probes call functions of the tree under test on hostile arguments: run them under an address-space cap and
    a wall-clock alarm, so that a reader that loops or allocates by a declared length is a translator error."""
    def on_alarm(signum, frame):
        raise _ProbeAbort()
    old_handler = signal.signal(signal.SIGALRM, on_alarm)
    soft, hard = resource.getrlimit(resource.RLIMIT_AS)
    with open('/proc/self/statm') as fh:
        cap = int(fh.read().split()[0]) * resource.getpagesize() + (512 << 20)
    if hard != resource.RLIM_INFINITY:
        cap = min(cap, hard)
    resource.setrlimit(resource.RLIMIT_AS, (cap, hard))
    signal.setitimer(signal.ITIMER_REAL, 30.0)
    try:
        return _emit(repo)
    except _ProbeAbort:
        raise TranslatorError('a probe of marshal.pad / marshal.unmarshallers did not return within 30 s')
    except MemoryError:
        raise TranslatorError('a probe of marshal.unmarshallers exhausted memory (allocation by a declared length?)')
    finally:
        signal.setitimer(signal.ITIMER_REAL, 0)
        signal.signal(signal.SIGALRM, old_handler)
        resource.setrlimit(resource.RLIMIT_AS, (soft, hard))


def _emit(repo):
    from txdbus import marshal, message
    out = []
    w = out.append
    w('/-! GENERATED by tools/tables/c05_wire.py from txdbus/marshal.py, message.py - do not edit. -/')
    w('namespace Txdbus.Gen.C05Wire')
    w('')
    w('/-- What `unmarshallers[code]` is.  `fixed need adv cls`: reads `need` bytes with `struct.unpack_from`,')
    w('reports `adv` bytes; `cls` 0 = int/bool value, 1 = float, 2 = `None` (descriptor index into an empty list). -/')
    w('inductive UKind where')
    w('  | fixed (need adv cls : Nat) | string | signature | array | struct | variant')
    w('  deriving DecidableEq, Repr, Inhabited')
    w('')
    # pad
    items = []
    for k, f in marshal.pad.items():
        if k == 'header':
            if probe_align(f) != 8:
                raise TranslatorError("pad['header'] is not 8")
            continue
        if not (isinstance(k, str) and len(k) == 1):
            continue          # `tcode = ct[0]` is one character: no other key can be selected
        items.append('(%s, %d)' % (lchar(k), probe_align(f)))
    w("/-- `marshal.pad` (without the 'header' entry, which no one-character type code can select): code -> alignment. -/")
    w('def alignTable : List (Char × Nat) :=')
    w('  [' + ', '.join(items) + ']')
    w('')
    kinds = []
    for k, f in marshal.unmarshallers.items():
        try:
            name = classify(k, f)
            if name is not None:
                kind = '.' + name
            else:
                need, adv, cls = probe_fixed(k, f)
                kind = '.fixed %d %d %d' % (need, adv, cls)
        except TranslatorError:
            raise
        except Exception as e:
            raise TranslatorError('unmarshallers[%r] (%s): probing raised %r' % (k, getattr(f, '__name__', f), e))
        kinds.append('(%s, %s)' % (lchar(k), kind))
    w('/-- `marshal.unmarshallers`: code -> kind of reader. -/')
    w('def kindTable : List (Char × UKind) :=')
    w('  [' + ', '.join(kinds) + ']')
    w('')
    # message._headerFormat / _mtype / _hcode through public behaviour (harness/c03_probe.py; private names = fast path)
    from harness import c03_probe as _P
    try:
        hf = _P.header_signature(message, marshal)
        _mt = _P.class_by_type(message, marshal, hf)
        _hc = _P.field_by_code(message, marshal, hf)
    except _P.ProbeError as e:
        raise TranslatorError(str(e))
    w('/-- `message._headerFormat`. -/')
    w('def headerFormat : List Char := [' + ', '.join(lchar(c) for c in hf) + ']')
    w('')
    mt = sorted(_mt)
    if not all(isinstance(k, int) and 0 <= k < 256 for k in mt):
        raise TranslatorError('_mtype keys are not byte values')
    w('/-- keys of `message._mtype`. -/')
    w('def mtypeKeys : List Nat := [' + ', '.join(str(k) for k in mt) + ']')
    w('')
    sigcodes = [k for k, v in _hc.items() if v == 'signature']
    if len(sigcodes) != 1:
        raise TranslatorError("_hcode does not map exactly one code to 'signature'")
    others = sorted(v for k, v in _hc.items() if v != 'signature')
    clash = [v for v in others if v in ('rawHeader', 'rawPadding', 'rawBody', 'serial', 'expectReply', 'autoStart', 'body')]
    if clash:
        raise TranslatorError('_hcode names an attribute that parseMessage itself uses: %r' % clash)
    w("/-- the header field code that `message._hcode` maps to the attribute 'signature'. -/")
    w('def signatureCode : Nat := %d' % sigcodes[0])
    w('')
    w('end Txdbus.Gen.C05Wire')
    return '\n'.join(out) + '\n'
