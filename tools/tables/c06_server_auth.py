"""Translator for C06: the tables of the bus side of authentication.

Every entry has two routes where possible - (1) a named attribute / a syntactic shape of the source, (2) the
behaviour of the real code, probed on a real BusProtocol + BusAuthenticator over a StringTransport.  Where both work
they must agree (disagreement = TranslatorError); an entry found only by probing adds a sentence to ADVISORIES (the
pipeline then widens the correspondence streams); an entry found by neither is a TranslatorError.  Nothing is ever
taken from an expected value.

  * MAX_AUTH_LENGTH        attribute of BasicDBusProtocol | probe: bisect the longest complete line still handed to
                           the authenticator (`\\0` + n bytes + delimiter: closed or not)
  * remainder slack K      AST: `len(self._buffer) > (self.MAX_AUTH_LENGTH + len(self.authDelimiter) - K)` and
                           `len(line) > self.MAX_AUTH_LENGTH`, in whichever method of the class they live (only
                           comparisons mentioning MAX_AUTH_LENGTH are looked at) | probe: bisect the longest
                           unterminated remainder that does not close; K = line limit + len(delimiter) - that
  * MAX_REJECTS_ALLOWED    attribute of BusAuthenticator | probe: number of ERROR lines answered REJECTED before the close
  * authDelimiter          attribute (runtime object)
  * authenticators         runtime dict: names in order, class of each (must be one of the three known classes)
  * reject_msg             the constructed object's attribute, cross-checked with the reply to `AUTH`
  * commands               `_auth_<NAME>` methods | probe: candidate words not answered like an unknown command
  * reply words            provoked from the real authenticator (unknown command, DATA out of turn, AUTH, AUTH
                           ANONYMOUS, AUTH EXTERNAL with credentials); cross-check: bytes literal of the class source
  * state names            string constants assigned to `self.state` anywhere in the class (sorted)
  * cookie expiry          AST `abs(timefunc() - int(k_time)) < N` | probe: first age `_get_cookies` drops
  * urandom sizes          AST `os.urandom(N)` in _create_cookie / _step_one | probe: arguments os.urandom receives
"""
import ast
import inspect
import os
import textwrap

MODULE = 'TxdbusModel.Gen.ServerAuth'

# Filled by emit(): table entries whose source shape was not recognised and that were derived by probing the real
# code instead.  The pipeline then widens the correspondence streams instead of reporting a broken obligation.
ADVISORIES = []


class TranslatorError(Exception):
    pass


def _bytes_list(b):
    return '[' + ', '.join(str(x) for x in b) + ']'


def _class_functions(cls):
    """AST of every function defined in the class body (the framing may be split over several methods)."""
    src = textwrap.dedent(inspect.getsource(cls))
    tree = ast.parse(src)
    return [n for n in ast.walk(tree) if isinstance(n, (ast.FunctionDef, ast.AsyncFunctionDef))]


def _mentions(node, attr):
    return any(isinstance(n, ast.Attribute) and n.attr == attr for n in ast.walk(node))


def _limits_by_ast(cls):
    """Route 1 (syntactic): the two length checks of the line framing, wherever in the class they live.
    Returns (slack K, line check recognised) or None when the shapes are not the known ones.  Only comparisons
    that mention MAX_AUTH_LENGTH are looked at (the binary branch may compare len(self._buffer) as it likes)."""
    slack, line_checks, odd = [], 0, 0
    for fn in _class_functions(cls):
        for node in ast.walk(fn):
            if not (isinstance(node, ast.Compare) and _mentions(node, 'MAX_AUTH_LENGTH')):
                continue
            left = node.left
            is_len = (isinstance(left, ast.Call) and isinstance(left.func, ast.Name) and left.func.id == 'len'
                      and len(left.args) == 1)
            if not is_len or len(node.ops) != 1:
                odd += 1
                continue
            arg, c = left.args[0], node.comparators[0]
            if isinstance(arg, ast.Attribute) and arg.attr == '_buffer':
                ok = (isinstance(node.ops[0], ast.Gt)
                      and isinstance(c, ast.BinOp) and isinstance(c.op, ast.Sub)
                      and isinstance(c.left, ast.BinOp) and isinstance(c.left.op, ast.Add)
                      and isinstance(c.left.left, ast.Attribute) and c.left.left.attr == 'MAX_AUTH_LENGTH'
                      and isinstance(c.left.right, ast.Call) and isinstance(c.left.right.func, ast.Name)
                      and c.left.right.func.id == 'len'
                      and isinstance(c.left.right.args[0], ast.Attribute)
                      and c.left.right.args[0].attr == 'authDelimiter'
                      and isinstance(c.right, ast.Constant) and isinstance(c.right.value, int))
                if ok:
                    slack.append(c.right.value)
                else:
                    odd += 1
            elif isinstance(arg, ast.Name):
                if isinstance(node.ops[0], ast.Gt) and isinstance(c, ast.Attribute) and c.attr == 'MAX_AUTH_LENGTH':
                    line_checks += 1
                else:
                    odd += 1
            else:
                odd += 1
    if odd == 0 and len(slack) == 1 and line_checks == 1:
        return slack[0]
    return None


# ----------------------------------------------------------------------------- route 2: probing the real code
class _Factory:
    class bus:
        uuid = b'0123456789abcdef'

        @staticmethod
        def clientDisconnected(p):
            pass


def _session(creds=None):
    """A real BusProtocol with the real BusAuthenticator on a StringTransport.  Whether or not the protocol
    reads SO_PEERCRED on this platform (a private module switch decides), it ends up with `creds`: the fake socket
    answers with them and `_unix_creds` (pinned by the test suite) is preset to them."""
    import struct
    from twisted.internet.testing import StringTransport
    from txdbus import bus
    p = bus.BusProtocol()
    p.factory = _Factory
    t = StringTransport()

    class Sock:
        def getsockopt(self, *a):
            return struct.pack('3i', *(creds if creds is not None else (0, -1, -1)))
    t.socket = Sock()
    p.makeConnection(t)
    p._unix_creds = creds
    return p, t


def _feed(p, t, data):
    try:
        p.dataReceived(data)
        return None
    except Exception as e:       # an escaping exception is "connection lost by the reactor"
        return e


def _boundary(closes, hi=1 << 22):
    """Largest n with not closes(n), for a monotone predicate (checked at both ends and around the result)."""
    if closes(0) or not closes(hi):
        return None
    lo = 0
    while hi - lo > 1:
        mid = (lo + hi) // 2
        if closes(mid):
            hi = mid
        else:
            lo = mid
    for k in (lo - 1, lo, lo + 1, lo + 2):
        if k >= 0 and closes(k) != (k > lo):
            return None
    return lo


def _probe_limits(delim):
    """Route 2: the longest complete line that is still handed to the authenticator, the longest unterminated
    remainder that does not close the connection, and the number of rejections answered before the close."""
    def closes_line(n):
        p, t = _session()
        _feed(p, t, b'\0' + b'X' * n + delim)
        return bool(t.disconnecting)

    def closes_rest(n):
        p, t = _session()
        _feed(p, t, b'\0' + b'X' * n)
        return bool(t.disconnecting)
    line = _boundary(closes_line)
    rest = _boundary(closes_rest)
    p, t = _session()
    _feed(p, t, b'\0')
    rejects = None
    for k in range(1, 1000):
        before = len(t.value())
        _feed(p, t, b'ERROR' + delim)
        if t.disconnecting:
            rejects = k - 1 if len(t.value()) == before else None
            break
    return line, rest, rejects


def _probe_words(B, names, delim):
    """Route 2 for the reply words: provoke each reply and cut the fixed part off."""
    def reply(lines, creds=None):
        p, t = _session(creds)
        err = _feed(p, t, b'\0' + b''.join(l + delim for l in lines))
        out = t.value().split(delim)
        return None if err is not None else (out[-2] if len(out) >= 2 else b'')
    w = {}
    r_unknown = reply([b'NO_SUCH_COMMAND_xq'])
    r_error = reply([b'DATA'])
    if r_error and r_unknown and r_unknown.startswith(r_error + b' '):
        w['wError'] = r_error
        w['wErrorSp'] = r_error + b' '
        w['wUnknown'] = r_unknown[len(r_error) + 1:]
    r_rej = reply([b'AUTH'])
    tail = b' '.join(names)
    if r_rej and r_rej.endswith(tail) and r_rej[:len(r_rej) - len(tail)].endswith(b' '):
        w['wRejected'] = r_rej[:len(r_rej) - len(tail)]
        w['rejectReply'] = r_rej
    guid = _Factory.bus.uuid
    if b'ANONYMOUS' in names:
        r_ok = reply([b'AUTH ANONYMOUS'])
        if r_ok and r_ok.endswith(guid) and len(r_ok) > len(guid):
            w['wOk'] = r_ok[:-len(guid)]
    if b'EXTERNAL' in names:
        r_data = reply([b'AUTH EXTERNAL'], creds=(os.getpid(), os.getuid(), os.getgid()))
        if r_data and b' ' in r_data and not r_data.startswith(w.get('wRejected', b'\xff')):
            w['wData'] = r_data[:r_data.index(b' ') + 1]
    return w


def _probe_commands(B, delim, unknown_reply):
    """Route 2 for the command table: a word is a command when the authenticator does not answer it like an
    unknown command (in WaitingForAuth).  Candidates: the six words of the specification's grammar and every
    upper-case identifier-like word occurring in the class source (method-name suffixes, literals)."""
    import re
    cands = {'AUTH', 'BEGIN', 'CANCEL', 'DATA', 'ERROR', 'NEGOTIATE_UNIX_FD', 'OK', 'REJECTED', 'AGREE_UNIX_FD'}
    try:
        for w in re.findall(r'[A-Z][A-Z0-9_]{1,40}', inspect.getsource(B)):
            cands.add(w)
            for k in range(1, len(w)):
                if w[k - 1] == '_':
                    cands.add(w[k:])
    except (OSError, TypeError):
        pass
    out = []
    for w in sorted(cands):
        p, t = _session()
        err = _feed(p, t, b'\0' + w.encode('ascii') + delim)
        sent = t.value().split(delim)
        r = sent[-2] if len(sent) >= 2 else b''
        if err is not None or t.disconnecting or r != unknown_reply:
            out.append(w)
    return out


def _probe_cookie(C):
    """Route 2 for the cookie constants, through the mechanism's public `step()` in a scratch HOME (fake passwd
    entry): expiry = the first age among pre-written entries that the keyring file no longer holds after a
    challenge was made; urandom sizes = the arguments `os.urandom` receives while cookie and challenge are made."""
    import pwd
    import shutil
    import sys
    import tempfile
    import time
    import types
    tmp = tempfile.mkdtemp(prefix='c06-tr-')
    res = {}
    old_urandom = os.urandom
    ent = types.SimpleNamespace(pw_name='probe', pw_uid=os.getuid(), pw_gid=os.getgid(), pw_dir=tmp,
                                pw_passwd='x', pw_gecos='', pw_shell='/bin/sh')

    def getpwnam(name):
        if name == 'probe':
            return ent
        raise KeyError(name)

    def getpwuid(uid):
        if uid == ent.pw_uid:
            return ent
        raise KeyError(uid)
    old_pw = (pwd.getpwnam, pwd.getpwuid, sys.modules.get('pwd'))
    fake = types.ModuleType('pwd')
    fake.getpwnam, fake.getpwuid = getpwnam, getpwuid
    sizes = []

    def urandom(n):
        sizes.append(n)
        return old_urandom(n)
    try:
        pwd.getpwnam, pwd.getpwuid = getpwnam, getpwuid
        sys.modules['pwd'] = fake
        os.urandom = urandom
        # 1. a first challenge tells the name of the cookie file and the urandom sizes
        r = C().step('probe')
        kd = os.path.join(tmp, '.dbus-keyrings')
        files = [f for f in os.listdir(kd) if not f.endswith('.lock')] if os.path.isdir(kd) else []
        if r[0] == 'CONTINUE' and len(sizes) == 2 and len(files) == 1:
            res['cookieBytes'], res['challengeBytes'] = sizes
            # 2. entries of ages 0..199 s; after the next challenge the file holds the unexpired ones + the new one
            path = os.path.join(kd, files[0])
            for attempt in range(6):
                base = int(time.time())
                with open(path, 'wb') as f:
                    for k in range(0, 200):
                        f.write(b'%d %d %s\n' % (k + 1, base - k, b'00'))
                r2 = C().step('probe')
                if int(time.time()) != base:
                    continue                      # the clock ticked during the probe: ages are off by one, again
                if r2[0] == 'CONTINUE':
                    with open(path, 'rb') as f:
                        rows = [ln.split() for ln in f.read().split(b'\n') if ln.strip()]
                    # the last row is the new session's cookie; the others are pre-written rows that survived,
                    # recognised by cookie b'00'; their age is base - <time field>
                    kept = {base - int(r_[1]) for r_ in rows if len(r_) == 3 and r_[2] == b'00'}
                    drops = [k for k in range(0, 200) if k not in kept]
                    if (drops and all(k in kept for k in range(0, drops[0]))
                            and not any(k in kept for k in range(drops[0], 200))):
                        res['expiry'] = drops[0]
                break
    except Exception:
        pass
    finally:
        os.urandom = old_urandom
        pwd.getpwnam, pwd.getpwuid = old_pw[0], old_pw[1]
        if old_pw[2] is not None:
            sys.modules['pwd'] = old_pw[2]
        shutil.rmtree(tmp, ignore_errors=True)
    return res


def _both(name, by_ast, by_probe, what):
    """Two routes to one table entry: they must agree; found only by probing -> advisory; by neither -> error."""
    if by_ast is not None and by_probe is not None:
        if by_ast != by_probe:
            raise TranslatorError('%s: the source says %r, the behaviour of the real code %r' % (name, by_ast, by_probe))
        return by_ast
    if by_ast is not None:
        return by_ast
    if by_probe is not None:
        ADVISORIES.append('%s: %s; the value %r was derived by probing the real code' % (name, what, by_probe))
        return by_probe
    raise TranslatorError('%s: %s and the behavioural probe is inconclusive' % (name, what))


def _bytes_literals(fn):
    src = textwrap.dedent(inspect.getsource(fn))
    out = []
    for node in ast.walk(ast.parse(src)):
        if isinstance(node, ast.Constant) and isinstance(node.value, bytes):
            out.append(node.value)
    return out


def _state_names(cls):
    """String constants assigned to the state attribute of the class.  The attribute is `self.state` (named in
    the property's anchors, not pinned by any test); when no such assignments exist it is the attribute of `self`
    that is assigned the most distinct string constants (a renamed state variable), with an advisory."""
    src = textwrap.dedent(inspect.getsource(cls))
    by_attr = {}
    for node in ast.walk(ast.parse(src)):
        if isinstance(node, ast.Assign) and len(node.targets) == 1:
            t = node.targets[0]
            if (isinstance(t, ast.Attribute) and isinstance(t.value, ast.Name) and t.value.id == 'self'
                    and isinstance(node.value, ast.Constant) and isinstance(node.value.value, str)):
                by_attr.setdefault(t.attr, [])
                if node.value.value not in by_attr[t.attr]:
                    by_attr[t.attr].append(node.value.value)
    if by_attr.get('state'):
        return by_attr['state']
    best = sorted(by_attr.items(), key=lambda kv: (-len(kv[1]), kv[0]))
    if best and len(best[0][1]) >= 2:
        ADVISORIES.append('BusAuthenticator no longer assigns string constants to `self.state`; the state names %r are '
                          'those assigned to `self.%s`' % (sorted(best[0][1]), best[0][0]))
        return best[0][1]
    raise TranslatorError('no attribute of BusAuthenticator is assigned state names')


def _cookie_constants_by_ast(C):
    """Route 1: `abs(timefunc() - int(k_time)) < N` in _get_cookies; `os.urandom(N)` in _create_cookie and
    _step_one.  Each entry is None when its shape is not the known one."""
    def urandom_args(fn):
        out = []
        for node in ast.walk(ast.parse(textwrap.dedent(inspect.getsource(fn)))):
            if (isinstance(node, ast.Call) and isinstance(node.func, ast.Attribute) and node.func.attr == 'urandom'
                    and len(node.args) == 1 and isinstance(node.args[0], ast.Constant)
                    and isinstance(node.args[0].value, int)):
                out.append(node.args[0].value)
        return out
    exp = []
    try:
        for node in ast.walk(ast.parse(textwrap.dedent(inspect.getsource(C._get_cookies)))):
            if (isinstance(node, ast.Compare) and len(node.ops) == 1 and isinstance(node.left, ast.Call)
                    and isinstance(node.left.func, ast.Name) and node.left.func.id == 'abs'):
                if (isinstance(node.ops[0], ast.Lt) and isinstance(node.comparators[0], ast.Constant)
                        and isinstance(node.comparators[0].value, int)):
                    exp.append(node.comparators[0].value)
                else:
                    exp.append(None)
        a, b = urandom_args(C._create_cookie), urandom_args(C._step_one)
    except (AttributeError, OSError, TypeError):
        return None, None, None
    return (exp[0] if len(exp) == 1 else None, a[0] if len(a) == 1 else None, b[0] if len(b) == 1 else None)


def tables():
    from txdbus import authentication, protocol
    P = protocol.BasicDBusProtocol
    B = authentication.BusAuthenticator
    t = {}
    if not isinstance(P.authDelimiter, bytes) or not P.authDelimiter:
        raise TranslatorError('authDelimiter is not a non-empty bytes object')
    delim = bytes(P.authDelimiter)
    t['authDelimiter'] = delim

    # --- limits: named attributes / AST shapes, and the behaviour of the real protocol
    def nat(owner, attr):
        v = getattr(owner, attr, None)
        return v if (isinstance(v, int) and not isinstance(v, bool) and v >= 0) else None
    p_line, p_rest, p_rejects = _probe_limits(delim)
    t['MAX_AUTH_LENGTH'] = _both('MAX_AUTH_LENGTH', nat(P, 'MAX_AUTH_LENGTH'), p_line,
                                 'BasicDBusProtocol.MAX_AUTH_LENGTH is not a natural-number attribute any more')
    t['MAX_REJECTS_ALLOWED'] = _both('MAX_REJECTS_ALLOWED', nat(B, 'MAX_REJECTS_ALLOWED'), p_rejects,
                                     'BusAuthenticator.MAX_REJECTS_ALLOWED is not a natural-number attribute any more')
    p_slack = None
    if p_line is not None and p_rest is not None and p_line + len(delim) >= p_rest:
        p_slack = p_line + len(delim) - p_rest
    t['remainderSlack'] = _both('remainderSlack', _limits_by_ast(P), p_slack,
                                'the two length checks of the line framing do not have the known shape '
                                '(`len(line) > self.MAX_AUTH_LENGTH`, `len(self._buffer) > (self.MAX_AUTH_LENGTH + '
                                'len(self.authDelimiter) - K)`)')

    # --- cookie constants
    C = authentication.BusCookieAuthenticator
    a_exp, a_cb, a_chb = _cookie_constants_by_ast(C)
    pc = _probe_cookie(C)
    t['cookieExpiry'] = _both('cookieExpiry', a_exp, pc.get('expiry'),
                              '_get_cookies does not test `abs(timefunc() - int(k_time)) < <literal>`')
    t['cookieRandomBytes'] = _both('cookieRandomBytes', a_cb, pc.get('cookieBytes'),
                                   '_create_cookie does not call os.urandom(<literal>) exactly once')
    t['challengeRandomBytes'] = _both('challengeRandomBytes', a_chb, pc.get('challengeBytes'),
                                      '_step_one does not call os.urandom(<literal>) exactly once')

    known = {authentication.BusExternalAuthenticator: 'external',
             authentication.BusCookieAuthenticator: 'cookie',
             authentication.BusAnonymousAuthenticator: 'anonymous'}
    mechs = []
    for name, cls in B.authenticators.items():
        if not isinstance(name, bytes):
            raise TranslatorError('mechanism name is not bytes: %r' % (name,))
        if cls not in known:
            raise TranslatorError('unknown mechanism class for %r: %r' % (name, cls))
        mechs.append((name, known[cls]))
    t['mechs'] = mechs

    by_dir = sorted(a[len('_auth_'):] for a in dir(B) if a.startswith('_auth_') and callable(getattr(B, a)))

    # --- reply words: provoked from the real authenticator; the literals of the class source are the cross-check
    try:
        lits = set(_bytes_literals(B))
    except (OSError, TypeError):
        lits = set()
    probed = _probe_words(B, [n for n, _ in mechs], delim)
    for k in ('wRejected', 'wErrorSp', 'wError', 'wOk', 'wData', 'wUnknown'):
        v = probed.get(k)
        if v is None:
            raise TranslatorError('reply word %s: the reply could not be provoked from the real authenticator' % k)
        if v not in lits:
            ADVISORIES.append('reply word %s = %r is not a bytes literal of class BusAuthenticator any more; it was '
                              'read off the reply of the real authenticator' % (k, v))
        t[k] = v
    by_probe = _probe_commands(B, delim, t['wErrorSp'] + t['wUnknown'])
    t['commands'] = _both('commands', by_dir or None, by_probe or None,
                          'BusAuthenticator has no `_auth_<NAME>` methods any more')
    t['states'] = sorted(_state_names(B))
    # reject_msg as actually computed by the constructor, and as actually sent
    by_attr = getattr(B(b''), 'reject_msg', None)
    t['rejectMsg'] = _both('rejectMsg', by_attr if isinstance(by_attr, bytes) else None, probed.get('rejectReply'),
                           'BusAuthenticator instances have no bytes attribute `reject_msg` any more')
    return t


def emit(repo):
    del ADVISORIES[:]
    t = tables()
    o = []
    o.append('/-')
    o.append('GENERATED by tools/tables/c06_server_auth.py from txdbus/authentication.py (BusAuthenticator)')
    o.append('and txdbus/protocol.py (BasicDBusProtocol) of the repository under test.')
    o.append('Do not edit: regenerated on every run.')
    o.append('-/')
    o.append('namespace Txdbus.Gen.ServerAuth')
    o.append('')
    o.append('/-- `BasicDBusProtocol.MAX_AUTH_LENGTH` -/')
    o.append('def maxAuthLength : Nat := %d' % t['MAX_AUTH_LENGTH'])
    o.append('/-- `BasicDBusProtocol.authDelimiter` -/')
    o.append('def authDelimiter : List UInt8 := %s' % _bytes_list(t['authDelimiter']))
    o.append('/-- `K` in `len(self._buffer) > MAX_AUTH_LENGTH + len(authDelimiter) - K` -/')
    o.append('def remainderSlack : Nat := %d' % t['remainderSlack'])
    o.append('/-- `BusAuthenticator.MAX_REJECTS_ALLOWED` -/')
    o.append('def maxRejects : Nat := %d' % t['MAX_REJECTS_ALLOWED'])
    o.append('/-- `abs(timefunc() - int(k_time)) < N` in `BusCookieAuthenticator._get_cookies` -/')
    o.append('def cookieExpiry : Nat := %d' % t['cookieExpiry'])
    o.append('/-- `os.urandom(N)` in `_create_cookie` (the cookie) -/')
    o.append('def cookieRandomBytes : Nat := %d' % t['cookieRandomBytes'])
    o.append('/-- `os.urandom(N)` in `_step_one` (the challenge) -/')
    o.append('def challengeRandomBytes : Nat := %d' % t['challengeRandomBytes'])
    o.append('')
    o.append('/-- The mechanism classes this model knows. -/')
    o.append('inductive MechKind where')
    o.append('  | external | cookie | anonymous')
    o.append('  deriving DecidableEq, Repr')
    o.append('')
    o.append('/-- `BusAuthenticator.authenticators` in dictionary order: (name, class). -/')
    o.append('def mechTable : List (List UInt8 × MechKind) :=')
    rows = []
    for i, (n, k) in enumerate(t['mechs']):
        last = i == len(t['mechs']) - 1
        rows.append('%s(%s, .%s)%s  -- %s' % ('  [' if i == 0 else '   ', _bytes_list(n), k,
                                              ']' if last else ',', n.decode('ascii', 'replace')))
    if not rows:
        rows = ['  []']
    o.extend(rows)
    o.append('')
    o.append('/-- `self.reject_msg` as the constructor computes it. -/')
    o.append('def rejectMsg : List UInt8 := %s' % _bytes_list(t['rejectMsg']))
    o.append('')
    o.append('/-- Every `NAME` with a method `BusAuthenticator._auth_NAME` (sorted). -/')
    o.append('def commands : List String := [%s]' % ', '.join('"%s"' % c for c in t['commands']))
    o.append('')
    o.append('/-- Values assigned to `self.state` (sorted). -/')
    o.append('def stateNames : List String := [%s]' % ', '.join('"%s"' % c for c in t['states']))
    o.append('')
    for k, doc in (('wRejected', "b'REJECTED '"), ('wErrorSp', "b'ERROR '"), ('wError', "b'ERROR'"),
                   ('wOk', "b'OK '"), ('wData', "b'DATA '"), ('wUnknown', 'b\'"Unknown command"\'')):
        o.append('/-- the literal `%s` -/' % doc)
        o.append('def %s : List UInt8 := %s' % (k, _bytes_list(t[k])))
    o.append('')
    o.append('end Txdbus.Gen.ServerAuth')
    return '\n'.join(o) + '\n'
