"""Translator for C06: the tables of the bus side of authentication.

From the repository under test (runtime objects, plus two small AST shapes):

  * `BasicDBusProtocol.MAX_AUTH_LENGTH`, `authDelimiter`, and the slack `K` of the remainder check
    `len(self._buffer) > (self.MAX_AUTH_LENGTH + len(self.authDelimiter) - K)` in `dataReceived`
  * `BusAuthenticator.MAX_REJECTS_ALLOWED`
  * `BusAuthenticator.authenticators`: mechanism names in dictionary order and which of the three
    known mechanism classes each name maps to
  * the command table: every attribute `_auth_<NAME>` of `BusAuthenticator` (what
    `getattr(self, '_auth_' + cmd.decode(), None)` can find)
  * the reply words used by `reject`, `sendError`, `stepAuth` (read from the AST: the bytes
    literals `b'REJECTED '`, `b'ERROR '`, `b'ERROR'`, `b'OK '`, `b'DATA '`, `b'"Unknown command"'`)
  * the three state names assigned to `self.state`

Anything of an unexpected shape raises TranslatorError (a broken table obligation).
"""
import ast
import inspect
import textwrap

MODULE = 'TxdbusModel.Gen.ServerAuth'


class TranslatorError(Exception):
    pass


def _bytes_list(b):
    return '[' + ', '.join(str(x) for x in b) + ']'


def _remainder_slack(cls):
    src = textwrap.dedent(inspect.getsource(cls.dataReceived))
    fn = ast.parse(src).body[0]
    # only the line-mode branch (`else:` of `if self._authenticated:`) belongs to C06; the binary branch may
    # compare len(self._buffer) in any way it likes
    scope = [fn]
    for st in fn.body:
        if (isinstance(st, ast.If) and isinstance(st.test, ast.Attribute) and st.test.attr == '_authenticated'
                and st.orelse):
            scope = st.orelse
            break
    found = []
    line_checks = 0
    for node in (n for top in scope for n in ast.walk(top)):
        if (isinstance(node, ast.Compare) and isinstance(node.left, ast.Call)
                and isinstance(node.left.func, ast.Name) and node.left.func.id == 'len'
                and len(node.left.args) == 1):
            arg = node.left.args[0]
            if (isinstance(arg, ast.Attribute) and arg.attr == '_buffer'):
                c = node.comparators[0]
                ok = (len(node.ops) == 1 and isinstance(node.ops[0], ast.Gt)
                      and isinstance(c, ast.BinOp) and isinstance(c.op, ast.Sub)
                      and isinstance(c.left, ast.BinOp) and isinstance(c.left.op, ast.Add)
                      and isinstance(c.left.left, ast.Attribute) and c.left.left.attr == 'MAX_AUTH_LENGTH'
                      and isinstance(c.left.right, ast.Call) and isinstance(c.left.right.func, ast.Name)
                      and c.left.right.func.id == 'len'
                      and isinstance(c.left.right.args[0], ast.Attribute)
                      and c.left.right.args[0].attr == 'authDelimiter'
                      and isinstance(c.right, ast.Constant) and isinstance(c.right.value, int))
                if not ok:
                    raise TranslatorError('remainder length check has an unexpected shape: %s' % ast.dump(node))
                found.append(c.right.value)
            elif isinstance(arg, ast.Name) and arg.id == 'line':
                ok = (len(node.ops) == 1 and isinstance(node.ops[0], ast.Gt)
                      and isinstance(node.comparators[0], ast.Attribute)
                      and node.comparators[0].attr == 'MAX_AUTH_LENGTH')
                if not ok:
                    raise TranslatorError('line length check has an unexpected shape: %s' % ast.dump(node))
                line_checks += 1
    if len(found) != 1 or line_checks != 1:
        raise TranslatorError('dataReceived: expected one remainder check and one line check, found %r / %d'
                              % (found, line_checks))
    return found[0]


def _bytes_literals(fn):
    src = textwrap.dedent(inspect.getsource(fn))
    out = []
    for node in ast.walk(ast.parse(src)):
        if isinstance(node, ast.Constant) and isinstance(node.value, bytes):
            out.append(node.value)
    return out


def _state_names(cls):
    src = textwrap.dedent(inspect.getsource(cls))
    names = []
    for node in ast.walk(ast.parse(src)):
        if isinstance(node, ast.Assign) and len(node.targets) == 1:
            t = node.targets[0]
            if (isinstance(t, ast.Attribute) and t.attr == 'state' and isinstance(node.value, ast.Constant)
                    and isinstance(node.value.value, str)):
                if node.value.value not in names:
                    names.append(node.value.value)
    return names


def _cookie_constants(C):
    """`abs(timefunc() - int(k_time)) < N` in _get_cookies; `os.urandom(N)` in _create_cookie and _step_one."""
    def urandom_args(fn):
        out = []
        for node in ast.walk(ast.parse(textwrap.dedent(inspect.getsource(fn)))):
            if (isinstance(node, ast.Call) and isinstance(node.func, ast.Attribute) and node.func.attr == 'urandom'
                    and len(node.args) == 1 and isinstance(node.args[0], ast.Constant)
                    and isinstance(node.args[0].value, int)):
                out.append(node.args[0].value)
        return out
    exp = []
    for node in ast.walk(ast.parse(textwrap.dedent(inspect.getsource(C._get_cookies)))):
        if (isinstance(node, ast.Compare) and len(node.ops) == 1 and isinstance(node.left, ast.Call)
                and isinstance(node.left.func, ast.Name) and node.left.func.id == 'abs'):
            if not (isinstance(node.ops[0], ast.Lt) and isinstance(node.comparators[0], ast.Constant)
                    and isinstance(node.comparators[0].value, int)):
                raise TranslatorError('_get_cookies: expiry test has an unexpected shape: %s' % ast.dump(node))
            exp.append(node.comparators[0].value)
    a, b = urandom_args(C._create_cookie), urandom_args(C._step_one)
    if len(exp) != 1 or len(a) != 1 or len(b) != 1:
        raise TranslatorError('cookie constants: expiry %r, urandom in _create_cookie %r, in _step_one %r' % (exp, a, b))
    return exp[0], a[0], b[0]


def tables():
    from txdbus import authentication, protocol
    P = protocol.BasicDBusProtocol
    B = authentication.BusAuthenticator
    t = {}
    for owner, attr in ((P, 'MAX_AUTH_LENGTH'), (B, 'MAX_REJECTS_ALLOWED')):
        v = getattr(owner, attr)
        if not (isinstance(v, int) and not isinstance(v, bool) and v >= 0):
            raise TranslatorError('%s is not a natural number: %r' % (attr, v))
        t[attr] = v
    if not isinstance(P.authDelimiter, bytes):
        raise TranslatorError('authDelimiter is not bytes')
    t['authDelimiter'] = bytes(P.authDelimiter)
    t['remainderSlack'] = _remainder_slack(P)
    t['cookieExpiry'], t['cookieRandomBytes'], t['challengeRandomBytes'] = _cookie_constants(
        authentication.BusCookieAuthenticator)

    known = {authentication.BusExternalAuthenticator: 'external',
             authentication.BusCookieAuthenticator: 'cookie',
             authentication.BusAnonymousAuthenticator: 'anonymous'}
    mechs = []
    for name, cls in B.authenticators.items():
        if not isinstance(name, bytes):
            raise TranslatorError('mechanism name is not bytes: %r' % (name,))
        if cls not in known:
            raise TranslatorError('unknown mechanism class for %r: %r' % (name, cls))
        mechs.append((name, known[cls]))
    t['mechs'] = mechs

    cmds = sorted(a[len('_auth_'):] for a in dir(B) if a.startswith('_auth_') and callable(getattr(B, a)))
    t['commands'] = cmds

    # reply words
    def one(fn, lit):
        if lit not in _bytes_literals(fn):
            raise TranslatorError('%s: bytes literal %r not found' % (fn.__name__, lit))
        return lit
    t['wRejected'] = one(B.__init__, b'REJECTED ')
    t['wErrorSp'] = one(B.sendError, b'ERROR ')
    t['wError'] = one(B.sendError, b'ERROR')
    t['wOk'] = one(B.stepAuth, b'OK ')
    t['wData'] = one(B.stepAuth, b'DATA ')
    t['wUnknown'] = one(B.handleAuthMessage, b'"Unknown command"')
    t['states'] = sorted(_state_names(B))
    # reject_msg as actually computed by the constructor
    t['rejectMsg'] = B(b'').reject_msg
    return t


def emit(repo):
    t = tables()
    o = []
    o.append('/-')
    o.append('GENERATED by tools/tables/c06_server_auth.py from txdbus/authentication.py (BusAuthenticator)')
    o.append('and txdbus/protocol.py (BasicDBusProtocol) of the repository under test.')
    o.append('Do not edit: regenerated on every run.')
    o.append('-/')
    o.append('namespace Txdbus.Gen.ServerAuth')
    o.append('')
    o.append('/-- `BasicDBusProtocol.MAX_AUTH_LENGTH` -/')
    o.append('def maxAuthLength : Nat := %d' % t['MAX_AUTH_LENGTH'])
    o.append('/-- `BasicDBusProtocol.authDelimiter` -/')
    o.append('def authDelimiter : List UInt8 := %s' % _bytes_list(t['authDelimiter']))
    o.append('/-- `K` in `len(self._buffer) > MAX_AUTH_LENGTH + len(authDelimiter) - K` -/')
    o.append('def remainderSlack : Nat := %d' % t['remainderSlack'])
    o.append('/-- `BusAuthenticator.MAX_REJECTS_ALLOWED` -/')
    o.append('def maxRejects : Nat := %d' % t['MAX_REJECTS_ALLOWED'])
    o.append('/-- `abs(timefunc() - int(k_time)) < N` in `BusCookieAuthenticator._get_cookies` -/')
    o.append('def cookieExpiry : Nat := %d' % t['cookieExpiry'])
    o.append('/-- `os.urandom(N)` in `_create_cookie` (the cookie) -/')
    o.append('def cookieRandomBytes : Nat := %d' % t['cookieRandomBytes'])
    o.append('/-- `os.urandom(N)` in `_step_one` (the challenge) -/')
    o.append('def challengeRandomBytes : Nat := %d' % t['challengeRandomBytes'])
    o.append('')
    o.append('/-- The mechanism classes this model knows. -/')
    o.append('inductive MechKind where')
    o.append('  | external | cookie | anonymous')
    o.append('  deriving DecidableEq, Repr')
    o.append('')
    o.append('/-- `BusAuthenticator.authenticators` in dictionary order: (name, class). -/')
    o.append('def mechTable : List (List UInt8 × MechKind) :=')
    rows = []
    for i, (n, k) in enumerate(t['mechs']):
        last = i == len(t['mechs']) - 1
        rows.append('%s(%s, .%s)%s  -- %s' % ('  [' if i == 0 else '   ', _bytes_list(n), k,
                                              ']' if last else ',', n.decode('ascii', 'replace')))
    if not rows:
        rows = ['  []']
    o.extend(rows)
    o.append('')
    o.append('/-- `self.reject_msg` as the constructor computes it. -/')
    o.append('def rejectMsg : List UInt8 := %s' % _bytes_list(t['rejectMsg']))
    o.append('')
    o.append('/-- Every `NAME` with a method `BusAuthenticator._auth_NAME` (sorted). -/')
    o.append('def commands : List String := [%s]' % ', '.join('"%s"' % c for c in t['commands']))
    o.append('')
    o.append('/-- Values assigned to `self.state` (sorted). -/')
    o.append('def stateNames : List String := [%s]' % ', '.join('"%s"' % c for c in t['states']))
    o.append('')
    for k, doc in (('wRejected', "b'REJECTED '"), ('wErrorSp', "b'ERROR '"), ('wError', "b'ERROR'"),
                   ('wOk', "b'OK '"), ('wData', "b'DATA '"), ('wUnknown', 'b\'"Unknown command"\'')):
        o.append('/-- the literal `%s` -/' % doc)
        o.append('def %s : List UInt8 := %s' % (k, _bytes_list(t[k])))
    o.append('')
    o.append('end Txdbus.Gen.ServerAuth')
    return '\n'.join(o) + '\n'
