"""Translator for C15: the text constants of txdbus/introspection.py and txdbus/interface.py.

Writes lean/TxdbusModel/Gen/IntroStd.lean:

  * `introEvents`  - `introspection._intro` (the XML text of the three standard interfaces that
    `generateIntrospectionXML` appends to every exported object) parsed with xml.sax into the list of
    SAX events (start name attrs / end name), attributes in document order.  The model treats this
    list as data; the table lemma `std_events` (Proofs/Intro/Doc.lean) shows by evaluation that it is
    exactly what `_getXml` emits for three declared interfaces, so an edit of `_intro` re-checks or
    breaks the C15 theorems.
  * `annotationName` - the string literal that `IntrospectionHandler.start_annotation` compares
    `attrs['name']` with (read from the AST of introspection.py), and `annotationNameGen` - the
    annotation name inside the format string of `DBusInterface._getXml` (read from the AST of
    interface.py).  The model uses the first in the handler and the second in the generator.

  * `readableWords`, `writeableWords`, `emitsTrueWords` - the literal tuples of the `in (...)` tests of
    `start_property` / `start_annotation`.

Accepted forms of a string: literal, implicit concatenation, f-string, `+`, module-level str constant.
Anything else (no single comparison in start_annotation, no single annotation format, other membership
tests) raises TranslatorError.
"""
import ast
import os
import xml.sax
import xml.sax.handler
from io import StringIO

MODULE = 'TxdbusModel.Gen.IntroStd'


class TranslatorError(Exception):
    pass


class _Rec(xml.sax.handler.ContentHandler):
    def __init__(self):
        super().__init__()
        self.ev = []

    def startElement(self, name, attrs):
        self.ev.append((True, name, [(k, attrs[k]) for k in attrs.keys()]))

    def endElement(self, name):
        self.ev.append((False, name, []))


def _events(text):
    h = _Rec()
    p = xml.sax.make_parser()
    p.setFeature(xml.sax.handler.feature_validation, False)
    p.setFeature(xml.sax.handler.feature_external_ges, False)
    p.setContentHandler(h)
    p.parse(StringIO('<wrapper>' + text + '</wrapper>'))
    ev = h.ev
    if not ev or ev[0] != (True, 'wrapper', []) or ev[-1] != (False, 'wrapper', []):
        raise TranslatorError('unexpected shape of the parsed _intro text')
    return ev[1:-1]


def _lit(s):
    for ch in s:
        if ord(ch) < 32 or ord(ch) > 126 or ch in '"\\':
            raise TranslatorError('character %r outside the supported literal form' % ch)
    return '"%s".toList' % s


def _module_str(modname, name):
    """value of a module-level `str` constant of txdbus.<modname> (for literals hoisted into a constant)"""
    import importlib
    mod = importlib.import_module('txdbus.' + modname)
    v = getattr(mod, name, None)
    if not isinstance(v, str):
        raise TranslatorError('%s.%s is not a module-level str constant' % (modname, name))
    return v


def _str_of(node, modname):
    """a string-valued expression in the restricted forms: literal, module-level constant, f-string /
    implicit concatenation of those (a formatted value that is not such a constant becomes '%s')"""
    if isinstance(node, ast.Constant) and isinstance(node.value, str):
        return node.value
    if isinstance(node, ast.Name):
        return _module_str(modname, node.id)
    if isinstance(node, ast.JoinedStr):
        out = []
        for part in node.values:
            if isinstance(part, ast.Constant):
                out.append(str(part.value))
            elif isinstance(part, ast.FormattedValue) and isinstance(part.value, ast.Name):
                try:
                    out.append(_module_str(modname, part.value.id))
                except TranslatorError:
                    out.append('%s')
            else:
                out.append('%s')
        return ''.join(out)
    if isinstance(node, ast.BinOp) and isinstance(node.op, ast.Add):
        return _str_of(node.left, modname) + _str_of(node.right, modname)
    raise TranslatorError('unsupported string expression %s' % ast.dump(node)[:80])


def _func(repo, modname, fname):
    src = open(os.path.join(repo, 'txdbus', modname + '.py'), encoding='utf-8').read()
    for node in ast.walk(ast.parse(src)):
        if isinstance(node, ast.FunctionDef) and node.name == fname:
            return node
    raise TranslatorError('%s.py: no function %s' % (modname, fname))


def _handler_annotation_name(repo):
    found = []
    for sub in ast.walk(_func(repo, 'introspection', 'start_annotation')):
        if isinstance(sub, ast.Compare) and len(sub.ops) == 1 and isinstance(sub.ops[0], ast.Eq):
            for side in (sub.comparators[0], sub.left):
                try:
                    found.append(_str_of(side, 'introspection'))
                    break
                except TranslatorError:
                    continue
    if len(found) != 1:
        raise TranslatorError('start_annotation: expected exactly one `== <string>` comparison, found %r' % found)
    return found[0]


def _generator_annotation_name(repo):
    import re
    found = set()
    for sub in ast.walk(_func(repo, 'interface', '_getXml')):
        if isinstance(sub, (ast.Constant, ast.JoinedStr, ast.BinOp)):
            try:
                text = _str_of(sub, 'interface')
            except TranslatorError:
                continue
            for m in re.finditer(r'<annotation\s+name="([^"%]+)"\s+value="', text):
                found.add(m.group(1))
    if len(found) != 1:
        raise TranslatorError('_getXml: expected exactly one <annotation name="..." value=...> format, found %r'
                              % sorted(found))
    return found.pop()


def _membership_tuples(repo, fname):
    """the tuples of string literals on the right of `in` inside IntrospectionHandler.<fname>, in source order"""
    out = []
    f = _func(repo, 'introspection', fname)
    for sub in ast.walk(f):
        if (isinstance(sub, ast.Compare) and len(sub.ops) == 1 and isinstance(sub.ops[0], ast.In)
                and isinstance(sub.comparators[0], (ast.Tuple, ast.List, ast.Set))):
            elts = sub.comparators[0].elts
            out.append((sub.lineno, sub.col_offset, [_str_of(e, 'introspection') for e in elts]))
    return [t for _, _, t in sorted(out)]


def emit(repo):
    from txdbus import introspection
    ev = _events(introspection._intro)
    out = []
    out.append('/-')
    out.append('GENERATED by tools/tables/c15_intro.py from txdbus/introspection.py and txdbus/interface.py of the')
    out.append('repository under test.  Do not edit: regenerated on every run.')
    out.append('')
    out.append('`introEvents`: the SAX events (true = startElement with attributes in document order, false =')
    out.append('endElement) of `introspection._intro`, the text of the three standard interfaces.')
    out.append('-/')
    out.append('namespace Txdbus.Gen.IntroStd')
    out.append('')
    out.append('def introEvents : List (Bool × List Char × List (List Char × List Char)) := [')
    rows = []
    for st, name, attrs in ev:
        a = ', '.join('(%s, %s)' % (_lit(k), _lit(v)) for k, v in attrs)
        rows.append('  (%s, %s, [%s])' % ('true' if st else 'false', _lit(name), a))
    out.append(',\n'.join(rows))
    out.append(']')
    out.append('')
    out.append('/-- the literal `IntrospectionHandler.start_annotation` compares `attrs[\'name\']` with -/')
    out.append('def annotationName : List Char := %s' % _lit(_handler_annotation_name(repo)))
    out.append('')
    out.append('/-- the annotation name inside the format string of `DBusInterface._getXml` -/')
    out.append('def annotationNameGen : List Char := %s' % _lit(_generator_annotation_name(repo)))
    out.append('')
    tp = _membership_tuples(repo, 'start_property')
    if len(tp) != 2:
        raise TranslatorError('start_property: expected two `x in (<literals>)` tests (readable, writeable), found %r' % tp)
    ta = _membership_tuples(repo, 'start_annotation')
    if len(ta) != 1:
        raise TranslatorError('start_annotation: expected one `x in (<literals>)` test, found %r' % ta)
    for nm, doc, words in (('readableWords', '`readable = rw.lower() in (...)` of start_property', tp[0]),
                           ('writeableWords', '`writeable = rw.lower() in (...)` of start_property', tp[1]),
                           ('emitsTrueWords', '`self.member.emits = str(attrs[\'value\']) in (...)` of start_annotation', ta[0])):
        out.append('/-- %s -/' % doc)
        out.append('def %s : List (List Char) := [%s]' % (nm, ', '.join(_lit(w) for w in words)))
        out.append('')
    out.append('/-- names of the interfaces described by `_intro`: %s -/' % ', '.join(
        v for st, name, attrs in ev if st and name == 'interface' for k, v in attrs if k == 'name'))
    out.append('def introInterfaceCount : Nat := %d' % sum(1 for st, name, _ in ev if st and name == 'interface'))
    out.append('')
    out.append('end Txdbus.Gen.IntroStd')
    return '\n'.join(out) + '\n'
