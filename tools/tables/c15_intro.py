"""Translator for C15: the text constants of txdbus/introspection.py and txdbus/interface.py.

Writes lean/TxdbusModel/Gen/IntroStd.lean:

Every entry is derived by PROBING the code of the tree under test (generate XML for probe objects / drive the
handler with probe events and read the table off the result); the AST of the source is the cross-check where its
shape is recognised (disagreement = TranslatorError) and its absence is an ADVISORY, not an error.

  * `introEvents`  - the standard-interface blocks `generateIntrospectionXML` appends to every exported
    object: the document generated for an object without interfaces, parsed with xml.sax into the list of
    SAX events (start name attrs / end name), attributes in document order; cross-check: `_intro`.  The model treats this
    list as data; the table lemma `std_events` (Proofs/Intro/Doc.lean) shows by evaluation that it is
    exactly what `_getXml` emits for three declared interfaces, so an edit of `_intro` re-checks or
    breaks the C15 theorems.
  * `annotationName` - the string literal that `IntrospectionHandler.start_annotation` compares
    `attrs['name']` with (read from the AST of introspection.py), and `annotationNameGen` - the
    annotation name inside the format string of `DBusInterface._getXml` (read from the AST of
    interface.py).  The model uses the first in the handler and the second in the generator.

  * `readableWords`, `writeableWords`, `emitsTrueWords` - the literal tuples of the `in (...)` tests of
    `start_property` / `start_annotation` (AST), cross-checked / replaced by probing the handler over the words
    the generator can write.
  * `probeName/Methods/Signals/Properties`, `probeEvents` - a probe interface (methods with and without
    arguments, a signal, a property per access x change-notification mode) and the events of the XML the real
    code writes for it; the table lemma `probe_events` shows the model writes the same (templates).

Accepted forms of a string: literal, implicit concatenation, f-string, `+`, module-level str constant.
Anything else (no single comparison in start_annotation, no single annotation format, other membership
tests) raises TranslatorError.
"""
import ast
import os
import xml.sax
import xml.sax.handler
from io import StringIO

MODULE = 'TxdbusModel.Gen.IntroStd'


class TranslatorError(Exception):
    pass


class _Rec(xml.sax.handler.ContentHandler):
    def __init__(self):
        super().__init__()
        self.ev = []

    def startElement(self, name, attrs):
        self.ev.append((True, name, [(k, attrs[k]) for k in attrs.keys()]))

    def endElement(self, name):
        self.ev.append((False, name, []))


def _events(text):
    h = _Rec()
    p = xml.sax.make_parser()
    p.setFeature(xml.sax.handler.feature_validation, False)
    p.setFeature(xml.sax.handler.feature_external_ges, False)
    p.setContentHandler(h)
    p.parse(StringIO('<wrapper>' + text + '</wrapper>'))
    ev = h.ev
    if not ev or ev[0] != (True, 'wrapper', []) or ev[-1] != (False, 'wrapper', []):
        raise TranslatorError('unexpected shape of the parsed _intro text')
    return ev[1:-1]


def _lit(s):
    for ch in s:
        if ord(ch) < 32 or ord(ch) > 126 or ch in '"\\':
            raise TranslatorError('character %r outside the supported literal form' % ch)
    return '"%s".toList' % s


def _module_str(modname, name):
    """value of a module-level `str` constant of txdbus.<modname> (for literals hoisted into a constant)"""
    import importlib
    mod = importlib.import_module('txdbus.' + modname)
    v = getattr(mod, name, None)
    if not isinstance(v, str):
        raise TranslatorError('%s.%s is not a module-level str constant' % (modname, name))
    return v


def _str_of(node, modname):
    """a string-valued expression in the restricted forms: literal, module-level constant, f-string /
    implicit concatenation of those (a formatted value that is not such a constant becomes '%s')"""
    if isinstance(node, ast.Constant) and isinstance(node.value, str):
        return node.value
    if isinstance(node, ast.Name):
        return _module_str(modname, node.id)
    if isinstance(node, ast.JoinedStr):
        out = []
        for part in node.values:
            if isinstance(part, ast.Constant):
                out.append(str(part.value))
            elif isinstance(part, ast.FormattedValue) and isinstance(part.value, ast.Name):
                try:
                    out.append(_module_str(modname, part.value.id))
                except TranslatorError:
                    out.append('%s')
            else:
                out.append('%s')
        return ''.join(out)
    if isinstance(node, ast.BinOp) and isinstance(node.op, ast.Add):
        return _str_of(node.left, modname) + _str_of(node.right, modname)
    raise TranslatorError('unsupported string expression %s' % ast.dump(node)[:80])


def _func(repo, modname, fname):
    src = open(os.path.join(repo, 'txdbus', modname + '.py'), encoding='utf-8').read()
    for node in ast.walk(ast.parse(src)):
        if isinstance(node, ast.FunctionDef) and node.name == fname:
            return node
    raise TranslatorError('%s.py: no function %s' % (modname, fname))


def _handler_annotation_name(repo):
    found = []
    for sub in ast.walk(_func(repo, 'introspection', 'start_annotation')):
        if isinstance(sub, ast.Compare) and len(sub.ops) == 1 and isinstance(sub.ops[0], ast.Eq):
            for side in (sub.comparators[0], sub.left):
                try:
                    found.append(_str_of(side, 'introspection'))
                    break
                except TranslatorError:
                    continue
    if len(found) != 1:
        raise TranslatorError('start_annotation: expected exactly one `== <string>` comparison, found %r' % found)
    return found[0]


def _generator_annotation_name(repo):
    import re
    found = set()
    for sub in ast.walk(_func(repo, 'interface', '_getXml')):
        if isinstance(sub, (ast.Constant, ast.JoinedStr, ast.BinOp)):
            try:
                text = _str_of(sub, 'interface')
            except TranslatorError:
                continue
            for m in re.finditer(r'<annotation\s+name="([^"%]+)"\s+value="', text):
                found.add(m.group(1))
    if len(found) != 1:
        raise TranslatorError('_getXml: expected exactly one <annotation name="..." value=...> format, found %r'
                              % sorted(found))
    return found.pop()


def _membership_tuples(repo, fname):
    """the tuples of string literals on the right of `in` inside IntrospectionHandler.<fname>, in source order"""
    out = []
    f = _func(repo, 'introspection', fname)
    for sub in ast.walk(f):
        if (isinstance(sub, ast.Compare) and len(sub.ops) == 1 and isinstance(sub.ops[0], ast.In)
                and isinstance(sub.comparators[0], (ast.Tuple, ast.List, ast.Set))):
            elts = sub.comparators[0].elts
            out.append((sub.lineno, sub.col_offset, [_str_of(e, 'introspection') for e in elts]))
    return [t for _, _, t in sorted(out)]


# --------------------------------------------------------------------------- probing routes
ADVISORIES = []

ACCESS_WORDS = ['read', 'write', 'readwrite']
EMITS_WORDS = ['true', 'false', 'invalidates']
PROBE_NAME = 'org.probe.Iface'
# (name, sigIn, sigOut), (name, sig), (name, sig, readable, writeable, emitsOnChange code t/f/i)
PROBE_METHODS = [('M', 'i', 's'), ('N', '', '')]
PROBE_SIGNALS = [('S', 'i')]
PROBE_PROPS = [('P%d%d%s' % (r, w, e), 's', r, w, e) for r in (0, 1) for w in (0, 1) for e in 'tfi']


class _NoIfaces:
    def getInterfaces(self):
        return []


def _doc_events(text):
    """events of a complete document (DOCTYPE allowed, nothing fetched)"""
    h = _Rec()
    p = xml.sax.make_parser()
    p.setFeature(xml.sax.handler.feature_validation, False)
    p.setFeature(xml.sax.handler.feature_external_ges, False)
    p.setFeature(xml.sax.handler.feature_external_pes, False)
    p.setContentHandler(h)
    p.parse(StringIO(text))
    return h.ev


def _probe_std_events():
    """the standard-interface blocks, read off the document generated for an object without interfaces"""
    from txdbus import introspection
    text = introspection.generateIntrospectionXML('/probe', {'/probe': _NoIfaces()})
    if not isinstance(text, str):
        raise TranslatorError('generateIntrospectionXML returned %r for an exported object' % (text,))
    ev = _doc_events(text)
    if len(ev) < 2 or ev[0][:2] != (True, 'node') or ev[-1][:2] != (False, 'node'):
        raise TranslatorError('probe document is not a single <node> element')
    return ev[1:-1]


def _probe_interface():
    from txdbus import interface as I
    emits = {'t': True, 'f': False, 'i': 'invalidates'}
    members = [I.Method(n, a, r) for n, a, r in PROBE_METHODS]
    members += [I.Signal(n, a) for n, a in PROBE_SIGNALS]
    members += [I.Property(n, sg, bool(r), bool(w), emits[e]) for n, sg, r, w, e in PROBE_PROPS]
    return I.DBusInterface(PROBE_NAME, *members, noRegister=True)


def _probe_interface_events():
    """the <interface> element the real code writes for the probe interface (one method with an in and an
    out argument, one without arguments, one signal, one property per access x change-notification mode)"""
    return _events(_probe_interface().introspectionXml)


def _probe_generator_annotation_name(ev):
    names = {dict(attrs).get('name') for st, name, attrs in ev if st and name == 'annotation'}
    if len(names) != 1 or None in names:
        raise TranslatorError('probe interface: expected one annotation name on its properties, found %r' % sorted(map(str, names)))
    return names.pop()


def _handler_with_member(member):
    from txdbus import introspection
    h = introspection.IntrospectionHandler(True)
    h.member = member
    h.isMethod = False
    return h


def _probe_handler_annotation_name(candidate):
    """does IntrospectionHandler react to an <annotation> of this name (and to no other)?"""
    from txdbus import interface as I
    def reacts(name):
        h = _handler_with_member(I.Property('P', 'i'))
        before = h.member.emits
        h.startElement('annotation', {'name': name, 'value': 'false'})
        return h.member.emits != before
    if reacts(candidate) and not reacts(candidate + '.other') and not reacts('x' + candidate):
        return candidate
    raise TranslatorError('IntrospectionHandler does not react to the annotation name the generator writes (%r)' % candidate)


def _probe_emits_word(name, w):
    from txdbus import interface as I
    h = _handler_with_member(I.Property('P', 'i', emitsOnChange=False))
    h.startElement('annotation', {'name': name, 'value': w})
    return h.member.emits is True


def _probe_access(w):
    from txdbus import introspection
    h = introspection.IntrospectionHandler(True)
    h.startElement('property', {'name': 'P', 'type': 'i', 'access': w})
    return h.member.access


def _access_of(r, w):
    return 'write' if (w and not r) else ('readwrite' if (w and r) else 'read')


def _ast_or_none(f, *a):
    try:
        return f(*a)
    except (TranslatorError, OSError, SyntaxError):
        return None


def _ast_generator_annotation_names(repo):
    """AST route, any function of interface.py (the format may live in a helper of _getXml)"""
    import re
    src = open(os.path.join(repo, 'txdbus', 'interface.py'), encoding='utf-8').read()
    found = set()
    for sub in ast.walk(ast.parse(src)):
        if isinstance(sub, (ast.Constant, ast.JoinedStr, ast.BinOp)):
            try:
                text = _str_of(sub, 'interface')
            except TranslatorError:
                continue
            for m in re.finditer(r'<annotation\s+name="([^"%]+)"\s+value="', text):
                found.add(m.group(1))
    return found


def emit(repo):
    del ADVISORIES[:]
    from txdbus import introspection
    # ---- the standard-interface blocks: probed (document of an object without interfaces); the module
    #      constant `_intro`, when there is one, must say the same
    ev = _probe_std_events()
    intro = getattr(introspection, '_intro', None)
    if isinstance(intro, str):
        if _events(intro) != ev:
            raise TranslatorError('the standard blocks of a generated document differ from introspection._intro')
    else:
        ADVISORIES.append('introspection._intro is no longer a module-level string: the standard-interface blocks '
                          'were read off the document generated for an object without interfaces')
    # ---- the annotation name the generator writes: probed; the AST of interface.py must agree when it shows it
    pev = _probe_interface_events()
    ann_gen = _probe_generator_annotation_name(pev)
    ast_names = _ast_or_none(_ast_generator_annotation_names, repo)
    if ast_names:
        if ast_names != {ann_gen}:
            raise TranslatorError('annotation name: AST of interface.py says %r, the generated XML says %r'
                                  % (sorted(ast_names), ann_gen))
    else:
        ADVISORIES.append('no <annotation name=... value=...> format string recognised in interface.py: the annotation '
                          'name was read off the XML generated for a probe interface')
    # ---- the annotation name the handler looks for: AST; probed with the generator's name otherwise / as well
    ann_h = _ast_or_none(_handler_annotation_name, repo)
    if ann_h is None:
        ann_h = _probe_handler_annotation_name(ann_gen)
        ADVISORIES.append('start_annotation: comparison with the annotation name not recognised; probed the handler '
                          'with the name the generator writes')
    else:
        _probe_handler_annotation_name(ann_h)
    # ---- the word tuples of start_property / start_annotation: AST; probed over the words the generator can write
    tp = _ast_or_none(_membership_tuples, repo, 'start_property')
    probed_access = {w: _probe_access(w) for w in ACCESS_WORDS}
    if tp is not None and len(tp) == 2:
        readable, writeable = tp
        for w in ACCESS_WORDS:
            if _access_of(w in readable, w in writeable) != probed_access[w]:
                raise TranslatorError('start_property: tuples %r / %r disagree with the handler on access=%r (%r)'
                                      % (readable, writeable, w, probed_access[w]))
    else:
        readable = [w for w in ACCESS_WORDS if probed_access[w] in ('read', 'readwrite')]
        writeable = [w for w in ACCESS_WORDS if probed_access[w] in ('write', 'readwrite')]
        ADVISORIES.append('start_property: the two `in (...)` tests were not recognised; readable / writeable words '
                          'probed over %r' % (ACCESS_WORDS,))
    ta = _ast_or_none(_membership_tuples, repo, 'start_annotation')
    probed_emits = [w for w in EMITS_WORDS if _probe_emits_word(ann_h, w)]
    if ta is not None and len(ta) == 1:
        emits_true = ta[0]
        if [w for w in EMITS_WORDS if w in emits_true] != probed_emits:
            raise TranslatorError('start_annotation: tuple %r disagrees with the handler (%r)' % (emits_true, probed_emits))
    else:
        emits_true = probed_emits
        ADVISORIES.append('start_annotation: the `in (...)` test was not recognised; words probed over %r' % (EMITS_WORDS,))

    def rows_of(events):
        rows = []
        for st, name, attrs in events:
            a = ', '.join('(%s, %s)' % (_lit(k), _lit(v)) for k, v in attrs)
            rows.append('  (%s, %s, [%s])' % ('true' if st else 'false', _lit(name), a))
        return ',\n'.join(rows)

    out = []
    out.append('/-')
    out.append('GENERATED by tools/tables/c15_intro.py from txdbus/introspection.py and txdbus/interface.py of the')
    out.append('repository under test.  Do not edit: regenerated on every run.')
    out.append('')
    out.append('`introEvents`: the SAX events (true = startElement with attributes in document order, false =')
    out.append('endElement) of the standard-interface blocks `generateIntrospectionXML` appends for an exported object')
    out.append('(read off a generated document; equal to the events of `introspection._intro`).')
    out.append('`probe*`: a probe interface and the events of the `<interface>` element the real `_getXml` writes for it.')
    out.append('-/')
    out.append('namespace Txdbus.Gen.IntroStd')
    out.append('')
    out.append('def introEvents : List (Bool × List Char × List (List Char × List Char)) := [')
    out.append(rows_of(ev))
    out.append(']')
    out.append('')
    out.append('/-- the literal `IntrospectionHandler.start_annotation` compares `attrs[\'name\']` with -/')
    out.append('def annotationName : List Char := %s' % _lit(ann_h))
    out.append('')
    out.append('/-- the annotation name `DBusInterface._getXml` writes for every property -/')
    out.append('def annotationNameGen : List Char := %s' % _lit(ann_gen))
    out.append('')
    for nm, doc, words in (('readableWords', '`readable = rw.lower() in (...)` of start_property', readable),
                           ('writeableWords', '`writeable = rw.lower() in (...)` of start_property', writeable),
                           ('emitsTrueWords', '`self.member.emits = str(attrs[\'value\']) in (...)` of start_annotation', emits_true)):
        out.append('/-- %s -/' % doc)
        out.append('def %s : List (List Char) := [%s]' % (nm, ', '.join(_lit(w) for w in words)))
        out.append('')
    out.append('/-- names of the standard interfaces: %s -/' % ', '.join(
        v for st, name, attrs in ev if st and name == 'interface' for k, v in attrs if k == 'name'))
    out.append('def introInterfaceCount : Nat := %d' % sum(1 for st, name, _ in ev if st and name == 'interface'))
    out.append('')
    out.append('/-- the probe interface: name; methods (name, sigIn, sigOut); signals (name, sig); properties (name, type,')
    out.append('readable, writeable, emitsOnChange: 0 = True, 1 = False, 2 = \'invalidates\') -/')
    out.append('def probeName : List Char := %s' % _lit(PROBE_NAME))
    out.append('def probeMethods : List (List Char × List Char × List Char) := [%s]'
               % ', '.join('(%s, %s, %s)' % (_lit(n), _lit(a), _lit(r)) for n, a, r in PROBE_METHODS))
    out.append('def probeSignals : List (List Char × List Char) := [%s]'
               % ', '.join('(%s, %s)' % (_lit(n), _lit(a)) for n, a in PROBE_SIGNALS))
    out.append('def probeProperties : List (List Char × List Char × Bool × Bool × Nat) := [%s]'
               % ', '.join('(%s, %s, %s, %s, %d)' % (_lit(n), _lit(sg), 'true' if r else 'false', 'true' if w else 'false',
                                                     'tfi'.index(e)) for n, sg, r, w, e in PROBE_PROPS))
    out.append('')
    out.append('/-- what the real `_getXml` writes for the probe interface (templates: element and attribute names,')
    out.append('attribute order, one `<arg>` per complete type, member order) -/')
    out.append('def probeEvents : List (Bool × List Char × List (List Char × List Char)) := [')
    out.append(rows_of(pev))
    out.append(']')
    out.append('')
    out.append('end Txdbus.Gen.IntroStd')
    return '\n'.join(out) + '\n'
