"""Translator for C19: the tables inside `sigFromPy` and the wrapper classes of txdbus/marshal.py.

Writes lean/TxdbusModel/Gen/Wrappers.lean:

  * `wrapperClasses`  - every class of txdbus.marshal that carries a class attribute `dbusSignature`,
                        in source order: (class name, builtin base 'int' | 'str', signature character);
  * `variantClassMap` - the module dict `variantClassMap` as (type code, class name), in dict order;
  * `intRanges`, `intDefault` - the range tests of the plain-int branch of `sigFromPy`
        if lo <= pobj < hi: return 'c'  (elif ...)*  else: return 'd'
    read from the AST (the bounds must be integer constant expressions built from literals, unary minus
    and `**`);
  * `scalarBranches`  - the `isinstance(pobj, <builtin>)` / `return '<sig>'` branches that precede the
    list branch, in source order, with 'int' marking the range branch: the order of the class tests
    (bool before int) is what the model mirrors;
  * `emptyListSig`, `emptyDictSig`, `mixedListSig` - the three literal signatures returned for `[]`, `{}`
    and a heterogeneous list.

Anything outside this restricted shape raises TranslatorError (table obligation broken).
"""
import ast
import os

MODULE = 'TxdbusModel.Gen.Wrappers'


class TranslatorError(Exception):
    pass


def _const_int(node):
    if isinstance(node, ast.Constant) and isinstance(node.value, int) and not isinstance(node.value, bool):
        return node.value
    if isinstance(node, ast.UnaryOp) and isinstance(node.op, ast.USub):
        return -_const_int(node.operand)
    if isinstance(node, ast.BinOp) and isinstance(node.op, ast.Pow):
        b, e = _const_int(node.left), _const_int(node.right)
        if not 0 <= e <= 128:
            raise TranslatorError('exponent out of range')
        return b ** e
    raise TranslatorError('not an integer constant expression: ' + ast.dump(node))


def _ret_str(stmts, what):
    if len(stmts) == 1 and isinstance(stmts[0], ast.Return) and isinstance(stmts[0].value, ast.Constant) \
            and isinstance(stmts[0].value.value, str):
        return stmts[0].value.value
    raise TranslatorError('%s: expected a single `return "<literal>"`' % what)


def _isinstance_of(test):
    if (isinstance(test, ast.Call) and isinstance(test.func, ast.Name) and test.func.id == 'isinstance'
            and len(test.args) == 2 and isinstance(test.args[0], ast.Name) and test.args[0].id == 'pobj'
            and isinstance(test.args[1], ast.Name)):
        return test.args[1].id
    raise TranslatorError('expected isinstance(pobj, <name>): ' + ast.dump(test))


def _range_chain(stmts):
    """if lo <= pobj < hi: return 'c' elif ... else: return 'd'  ->  ([(lo, hi, c)], d)"""
    if len(stmts) != 1 or not isinstance(stmts[0], ast.If):
        raise TranslatorError('int branch: expected one if/elif/else chain')
    out = []
    node = stmts[0]
    while True:
        t = node.test
        if not (isinstance(t, ast.Compare) and len(t.ops) == 2 and isinstance(t.ops[0], ast.LtE)
                and isinstance(t.ops[1], ast.Lt) and isinstance(t.comparators[0], ast.Name)
                and t.comparators[0].id == 'pobj'):
            raise TranslatorError('int branch: expected `lo <= pobj < hi`: ' + ast.dump(t))
        lo, hi = _const_int(t.left), _const_int(t.comparators[1])
        c = _ret_str(node.body, 'int branch')
        if len(c) != 1:
            raise TranslatorError('int branch: signature is not one character')
        out.append((lo, hi, c))
        if len(node.orelse) == 1 and isinstance(node.orelse[0], ast.If):
            node = node.orelse[0]
            continue
        d = _ret_str(node.orelse, 'int branch default')
        if len(d) != 1:
            raise TranslatorError('int branch: default signature is not one character')
        return out, d


def sigfrompy_tables(repo):
    src = open(os.path.join(repo, 'txdbus', 'marshal.py'), encoding='utf-8').read()
    tree = ast.parse(src)
    fn = [n for n in tree.body if isinstance(n, ast.FunctionDef) and n.name == 'sigFromPy']
    if len(fn) != 1:
        raise TranslatorError('sigFromPy not found')
    body = [s for s in fn[0].body if not (isinstance(s, ast.Expr) and isinstance(s.value, ast.Constant))]
    # sig = getattr(pobj, 'dbusSignature', None); if sig is not None: return sig; elif ...
    a = body[0]
    if not (isinstance(a, ast.Assign) and isinstance(a.value, ast.Call) and isinstance(a.value.func, ast.Name)
            and a.value.func.id == 'getattr' and len(a.value.args) == 3
            and isinstance(a.value.args[1], ast.Constant) and a.value.args[1].value == 'dbusSignature'
            and isinstance(a.value.args[2], ast.Constant) and a.value.args[2].value is None):
        raise TranslatorError('sigFromPy: first statement is not the getattr(pobj, "dbusSignature", None)')
    if len(body) != 2 or not isinstance(body[1], ast.If):
        raise TranslatorError('sigFromPy: expected getattr + one if/elif chain')
    node = body[1]
    t = node.test
    if not (isinstance(t, ast.Compare) and isinstance(t.left, ast.Name) and t.left.id == 'sig'
            and len(t.ops) == 1 and isinstance(t.ops[0], ast.IsNot)
            and isinstance(t.comparators[0], ast.Constant) and t.comparators[0].value is None
            and len(node.body) == 1 and isinstance(node.body[0], ast.Return)
            and isinstance(node.body[0].value, ast.Name) and node.body[0].value.id == 'sig'):
        raise TranslatorError('sigFromPy: first branch is not `if sig is not None: return sig`')
    scalars, ranges, default = [], None, None
    containers = []
    node = node.orelse[0] if len(node.orelse) == 1 and isinstance(node.orelse[0], ast.If) else None
    while node is not None:
        cls = _isinstance_of(node.test)
        if cls == 'int':
            ranges, default = _range_chain(node.body)
            scalars.append(('int', 'int'))
        elif cls in ('list', 'tuple', 'dict'):
            containers.append((cls, node))
        else:
            if containers:
                raise TranslatorError('sigFromPy: scalar branch after a container branch')
            scalars.append((cls, _ret_str(node.body, cls + ' branch')))
        if len(node.orelse) == 1 and isinstance(node.orelse[0], ast.If):
            node = node.orelse[0]
        else:
            if not (len(node.orelse) == 1 and isinstance(node.orelse[0], ast.Raise)):
                raise TranslatorError('sigFromPy: chain does not end in `else: raise`')
            node = None
    if ranges is None:
        raise TranslatorError('sigFromPy: no int branch')
    if [c for c, _ in containers] != ['list', 'tuple', 'dict']:
        raise TranslatorError('sigFromPy: container branches are not list, tuple, dict')
    lst, dct = containers[0][1], containers[2][1]

    def empty_ret(n, lit):
        st = n.body[0]
        if not (isinstance(st, ast.If) and isinstance(st.test, ast.Compare) and isinstance(st.test.left, ast.Name)
                and st.test.left.id == 'pobj' and isinstance(st.test.ops[0], ast.Eq)
                and isinstance(st.test.comparators[0], lit) and not getattr(st.test.comparators[0], 'elts', [])
                and not getattr(st.test.comparators[0], 'keys', [])):
            raise TranslatorError('sigFromPy: container branch does not start with the emptiness test')
        return _ret_str(st.body, 'empty container')
    empty_list = empty_ret(lst, ast.List)
    empty_dict = empty_ret(dct, ast.Dict)
    last = lst.body[-1]
    if not (isinstance(last, ast.If) and isinstance(last.test, ast.Name) and last.test.id == 'same'):
        raise TranslatorError('sigFromPy: list branch does not end with `if same:`')
    mixed = _ret_str(last.orelse, 'heterogeneous list')
    return scalars, ranges, default, empty_list, empty_dict, mixed


def wrapper_classes(repo):
    from txdbus import marshal
    src = open(os.path.join(repo, 'txdbus', 'marshal.py'), encoding='utf-8').read()
    out = []
    for n in ast.parse(src).body:
        if isinstance(n, ast.ClassDef):
            k = getattr(marshal, n.name)
            sig = k.__dict__.get('dbusSignature')
            if sig is None:
                continue
            if not (isinstance(sig, str) and len(sig) == 1):
                raise TranslatorError('%s.dbusSignature is not one character' % n.name)
            if len(k.__bases__) != 1 or k.__bases__[0] not in (int, str):
                raise TranslatorError('%s: base is not int or str' % n.name)
            out.append((n.name, k.__bases__[0].__name__, sig))
    vmap = []
    for code, k in marshal.variantClassMap.items():
        if not (isinstance(code, str) and len(code) == 1):
            raise TranslatorError('variantClassMap key %r' % (code,))
        vmap.append((code, k.__name__))
    return out, vmap


def _ch(c):
    if not (32 < ord(c) < 127) or c in "'\\":
        raise TranslatorError('unexpected character %r' % c)
    return "'%s'" % c


def _str(s):
    if any(not (32 <= ord(c) < 127) or c in '"\\' for c in s):
        raise TranslatorError('unexpected string %r' % s)
    return '"%s"' % s


def emit(repo):
    classes, vmap = wrapper_classes(repo)
    scalars, ranges, default, empty_list, empty_dict, mixed = sigfrompy_tables(repo)
    L = ['/-',
         'GENERATED by tools/tables/c19_wrappers.py from txdbus/marshal.py of the repository under test.',
         'Do not edit: regenerated on every run.',
         '-/',
         'namespace Txdbus.Gen.Wrappers',
         '',
         '/-- Classes with a class attribute `dbusSignature`: (name, builtin base, signature). -/',
         'def wrapperClasses : List (String × String × Char) :=',
         '  [' + ', '.join('(%s, %s, %s)' % (_str(n), _str(b), _ch(s)) for n, b, s in classes) + ']',
         '',
         '/-- `variantClassMap`: (type code, class name) in dict order. -/',
         'def variantClassMap : List (Char × String) :=',
         '  [' + ', '.join('(%s, %s)' % (_ch(c), _str(n)) for c, n in vmap) + ']',
         '',
         '/-- Plain-int branch of `sigFromPy`: `if lo <= pobj < hi: return c` in order. -/',
         'def intRanges : List (Int × Int × Char) :=',
         '  [' + ', '.join('(%d, %d, %s)' % (lo, hi, _ch(c)) for lo, hi, c in ranges) + ']',
         '',
         'def intDefault : Char := ' + _ch(default),
         '',
         '/-- The `isinstance` branches before the container branches, in order: (class, returned',
         'signature), with "int" standing for the range branch above. -/',
         'def scalarBranches : List (String × String) :=',
         '  [' + ', '.join('(%s, %s)' % (_str(c), _str(s)) for c, s in scalars) + ']',
         '',
         'def emptyListSig : String := ' + _str(empty_list),
         'def emptyDictSig : String := ' + _str(empty_dict),
         'def mixedListSig : String := ' + _str(mixed),
         '',
         'end Txdbus.Gen.Wrappers']
    return '\n'.join(L) + '\n'
