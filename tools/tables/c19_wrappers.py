"""Translator for C19: the tables inside `sigFromPy` and the wrapper classes of txdbus/marshal.py,
extracted by PROBING THE BEHAVIOUR of the module under test (no dependence on how the source is written:
`elif` chains, early returns, named constants, `if not pobj` ... all give the same table).

Writes lean/TxdbusModel/Gen/Wrappers.lean:

  * `wrapperClasses`  - every class of txdbus.marshal that carries a class attribute `dbusSignature` and
                        derives from int or str, in source (definition) order:
                        (class name, builtin base 'int' | 'str', signature character);
  * `variantClassMap` - the module dict `variantClassMap` as (type code, class name), in dict order;
  * `intBelow`, `intBreaks` - the plain-int rule ON THE INTEGERS THAT HAVE A DBUS TYPE, [-2**63, 2**64), as a
        step function: the signature at -2**63, then (lower bound, signature) in ascending order.  Found by
        evaluating sigFromPy at +-2**k, +-2**k +- 1 inside that range and bisecting every gap in which the
        answer changes; checked on random integers.  (What sigFromPy does with an integer that no DBus type
        can hold - answer 't', raise - is deliberately not extracted.)  Every answer must be one character;
  * `probes` - (name, result) for a fixed list of named probe values covering every rule: scalar classes,
        the wrapper instances, `[]`, `{}`, `()`, homogeneous / heterogeneous / subclass-mixed lists and dicts,
        last-key / first-value selection, tuple and nested containers, values without a DBus type.
        The result is the signature, or `!` when sigFromPy raises (any exception).  Properties/C19.lean proves by `decide` that the
        code model gives exactly these answers on the same values (`probes_match_model`).

Raises TranslatorError (table obligation broken) only if the module cannot be probed at all (no sigFromPy,
an answer that is not a string, a non-character int signature).
"""
import random

MODULE = 'TxdbusModel.Gen.Wrappers'


class TranslatorError(Exception):
    pass


def _sig(m, v):
    try:
        r = m.sigFromPy(v)
    except Exception:
        return '!'          # which exception class is not part of the property
    if not isinstance(r, str):
        raise TranslatorError('sigFromPy(%r) returned %r' % (v, r))
    return r


def wrapper_classes(m):
    out = []
    for name, k in vars(m).items():
        if isinstance(k, type) and k.__module__ == m.__name__ and 'dbusSignature' in k.__dict__:
            sig = k.__dict__['dbusSignature']
            bases = [b for b in (int, str) if issubclass(k, b)]
            if not (isinstance(sig, str) and len(sig) == 1) or len(bases) != 1:
                raise TranslatorError('%s: dbusSignature %r / bases %r' % (name, sig, k.__bases__))
            out.append((name, bases[0].__name__, sig))
    vmap = []
    for code, k in getattr(m, 'variantClassMap', {}).items():
        if not (isinstance(code, str) and len(code) == 1 and isinstance(k, type)):
            raise TranslatorError('variantClassMap entry %r' % (code,))
        vmap.append((code, k.__name__))
    return out, vmap


LO, HI = -2 ** 63, 2 ** 64     # the integers that have a DBus type at all


def int_steps(m):
    def f(n):
        r = _sig(m, n)
        if len(r) != 1 or r.startswith('!'):
            raise TranslatorError('sigFromPy(%d) = %r is not one type code' % (n, r))
        return r
    pts = {0}
    for k in range(0, 71):
        for d in (-1, 0, 1):
            pts.add(2 ** k + d)
            pts.add(-(2 ** k) + d)
    pts = sorted(p for p in pts if LO <= p < HI)
    vals = [f(p) for p in pts]
    breaks = []
    for (p, a), (q, b) in zip(zip(pts, vals), zip(pts[1:], vals[1:])):
        if a != b:
            lo, hi = p, q          # f(lo) = a, f(hi) = b; find the least n in (lo, hi] with f(n) != a
            while hi - lo > 1:
                mid = (lo + hi) // 2
                if f(mid) == a:
                    lo = mid
                else:
                    hi = mid
            breaks.append((hi, f(hi)))
    below = vals[0]
    # sanity: the step function reproduces sigFromPy on random integers
    rng = random.Random(19)
    for _ in range(400):
        n = rng.randint(LO, HI - 1) >> rng.randrange(0, 64)
        want = below
        for lo, c in breaks:
            if n >= lo:
                want = c
        if f(n) != want:
            raise TranslatorError('int rule is not the step function found by probing (at %d)' % n)
    return below, breaks


def probe_values(m):
    """(name, value) - the names and their order are fixed: Properties/C19.lean lists the same values."""
    W = lambda n: getattr(m, n, None)

    def w(n, v):
        k = W(n)
        if k is None:
            raise TranslatorError('wrapper class %s missing' % n)
        return k(v)
    return [
        ('True', True), ('1.5', 1.5), ("'x'", 'x'), ('bytearray', bytearray(b'x')), ('None', None),
        ('Byte', w('Byte', 1)), ('Boolean', w('Boolean', 1)), ('Int16', w('Int16', 1)), ('UInt16', w('UInt16', 1)),
        ('Int32', w('Int32', 1)), ('UInt32', w('UInt32', 1)), ('Int64', w('Int64', 1)), ('UInt64', w('UInt64', 1)),
        ('Signature', w('Signature', 'i')), ('ObjectPath', w('ObjectPath', '/')),
        ('[]', []), ('{}', {}), ('()', ()),
        ('[1]', [1]), ('[1,2]', [1, 2]), ("[1,'a']", [1, 'a']), ('[1,True]', [1, True]), ('[True,1]', [True, 1]),
        ('[1,UInt64(1)]', [1, w('UInt64', 1)]), ('[UInt64(1),1]', [w('UInt64', 1), 1]),
        ("['a',ObjectPath]", ['a', w('ObjectPath', '/')]), ('[1,2**40]', [1, 2 ** 40]), ('[2**40,1]', [2 ** 40, 1]),
        ('[[]]', [[]]), ('[[],[1]]', [[], [1]]), ('[[1],[]]', [[1], []]), ('[None]', [None]), ('[1,None]', [1, None]),
        ("(1,'a')", (1, 'a')), ('((1,),[2])', ((1,), [2])), ('[()]', [()]), ('(None,)', (None,)),
        ("{'a':1}", {'a': 1}), ("{'a':1,'b':2}", {'a': 1, 'b': 2}), ("{'a':1,'b':'x'}", {'a': 1, 'b': 'x'}),
        ("{'a':2,'b':True}", {'a': 2, 'b': True}), ("{'a':True,'b':2}", {'a': True, 'b': 2}),
        ("{'a':1,'b':2**40}", {'a': 1, 'b': 2 ** 40}), ("{'a':2**40,'b':1}", {'a': 2 ** 40, 'b': 1}),
        ("{'k':'a',1:'b'}", {'k': 'a', 1: 'b'}), ("{1:'a','k':'b'}", {1: 'a', 'k': 'b'}),
        ('{(1,2):3}', {(1, 2): 3}), ('{1.5:[]}', {1.5: []}), ("{'a':{}}", {'a': {}}), ("{'a':None}", {'a': None}),
        ("{'a':1,'b':None}", {'a': 1, 'b': None}),
    ]


def _ch(c):
    if not (32 < ord(c) < 127) or c in "'\\":
        raise TranslatorError('unexpected character %r' % c)
    return "'%s'" % c


def _str(s):
    if any(not (32 <= ord(c) < 127) or c in '"\\' for c in s):
        raise TranslatorError('unexpected string %r' % s)
    return '"%s"' % s


def emit(repo):
    from txdbus import marshal as m
    if not hasattr(m, 'sigFromPy'):
        raise TranslatorError('txdbus.marshal.sigFromPy missing')
    classes, vmap = wrapper_classes(m)
    below, breaks = int_steps(m)
    probes = [(n, _sig(m, v)) for n, v in probe_values(m)]
    L = ['/-',
         'GENERATED by tools/tables/c19_wrappers.py by probing txdbus/marshal.py of the repository under test.',
         'Do not edit: regenerated on every run.',
         '-/',
         'namespace Txdbus.Gen.Wrappers',
         '',
         '/-- Classes with a class attribute `dbusSignature`: (name, builtin base, signature). -/',
         'def wrapperClasses : List (String × String × Char) :=',
         '  [' + ', '.join('(%s, %s, %s)' % (_str(n), _str(b), _ch(s)) for n, b, s in classes) + ']',
         '',
         '/-- `variantClassMap`: (type code, class name) in dict order. -/',
         'def variantClassMap : List (Char × String) :=',
         '  [' + ', '.join('(%s, %s)' % (_ch(c), _str(n)) for c, n in vmap) + ']',
         '',
         '/-- Plain-int rule as a step function: the signature below the first break ... -/',
         'def intBelow : Char := ' + _ch(below),
         '',
         '/-- ... and (lower bound, signature from there on), ascending. -/',
         'def intBreaks : List (Int × Char) :=',
         '  [' + ', '.join('(%d, %s)' % (lo, _ch(c)) for lo, c in breaks) + ']',
         '',
         '/-- Named probes of `sigFromPy`: (name, signature or "!" = raises). -/',
         'def probes : List (String × String) :=',
         '  [' + ',\n   '.join('(%s, %s)' % (_str(n), _str(r)) for n, r in probes) + ']',
         '',
         'end Txdbus.Gen.Wrappers']
    return '\n'.join(L) + '\n'
