"""Translator for C10: the string tables of the method-call dispatcher in txdbus/objects.py.

Reads the AST of `DBusObjectHandler.handleMethodCallMessage` and `DBusObject.executeMethod`
(source of the working tree under test) and writes lean/TxdbusModel/Gen/Dispatch.lean:

  * the three built-in (interface, member) pairs answered by the handler itself, in the code's
    order (`msg.interface == '<I>' and msg.member == '<M>'` tests);
  * the four error replies sent through `self._send_err(msg, '<error name>', <fmt> % <args>)`
    (UnknownObject, the failure of GetManagedObjects added by repair C10-02, UnknownMethod,
    InvalidArgs), in the code's order: error name, `%`-format string, and the source text of every format
    argument (the model applies the arguments by hand; a `decide` lemma in Properties/C10.lean
    pins the argument texts the model assumes);
  * from the nested `send_error`: the `'org.txdbus.PythonException.'` prefix, the format of the
    invalid-name notice and the fallback error name;
  * from `executeMethod`: the `'dbus_'` attribute prefix;
  * from `DBusObject._set_method_flags`: the keyword (`'dbusCaller'`) that requests the sender.

Only the restricted forms above are accepted; anything else raises TranslatorError (the table
obligation of C10 is then broken and the pipeline widens the search).
"""
import ast
import os

MODULE = 'TxdbusModel.Gen.Dispatch'


class TranslatorError(Exception):
    pass


def _find_class(tree, name):
    for n in tree.body:
        if isinstance(n, ast.ClassDef) and n.name == name:
            return n
    raise TranslatorError('class %s not found in txdbus/objects.py' % name)


def _find_func(node, name):
    for n in node.body:
        if isinstance(n, ast.FunctionDef) and n.name == name:
            return n
    raise TranslatorError('function %s not found in %s' % (name, getattr(node, 'name', '?')))


def _const_str(n, what):
    if isinstance(n, ast.Constant) and isinstance(n.value, str):
        return n.value
    raise TranslatorError('%s is not a string literal: %s' % (what, ast.unparse(n)))


def _is_attr(n, obj, attr):
    return (isinstance(n, ast.Attribute) and n.attr == attr and isinstance(n.value, ast.Name)
            and n.value.id == obj)


def builtin_pairs(fn):
    """`msg.interface == 'I' and msg.member == 'M'` tests of top-level `if` statements, in order."""
    pairs = []
    for st in fn.body:
        if not isinstance(st, ast.If):
            continue
        t = st.test
        if not (isinstance(t, ast.BoolOp) and isinstance(t.op, ast.And) and len(t.values) == 2):
            continue
        a, b = t.values
        ok = all(isinstance(x, ast.Compare) and len(x.ops) == 1 and isinstance(x.ops[0], ast.Eq)
                 and len(x.comparators) == 1 for x in (a, b))
        if not ok:
            continue
        if _is_attr(a.left, 'msg', 'interface') and _is_attr(b.left, 'msg', 'member'):
            pairs.append((_const_str(a.comparators[0], 'built-in interface'),
                          _const_str(b.comparators[0], 'built-in member')))
    return pairs


def send_err_calls(fn):
    """`self._send_err(msg, '<name>', <fmt> % <args>)` statements in source order (not inside nested defs)."""
    out = []

    class V(ast.NodeVisitor):
        def visit_FunctionDef(self, node):
            if node is fn:
                self.generic_visit(node)
            # nested functions (send_reply / send_error) are skipped

        def visit_Call(self, node):
            f = node.func
            if isinstance(f, ast.Attribute) and f.attr == '_send_err' and isinstance(f.value, ast.Name) \
                    and f.value.id == 'self':
                if len(node.args) != 3 or node.keywords:
                    raise TranslatorError('_send_err call with unexpected arguments: ' + ast.unparse(node))
                if not (isinstance(node.args[0], ast.Name) and node.args[0].id == 'msg'):
                    raise TranslatorError('_send_err first argument is not msg: ' + ast.unparse(node))
                name = _const_str(node.args[1], '_send_err error name')
                m = node.args[2]
                if not (isinstance(m, ast.BinOp) and isinstance(m.op, ast.Mod)):
                    raise TranslatorError('_send_err text is not `<fmt> % <args>`: ' + ast.unparse(m))
                fmt = _const_str(m.left, '_send_err format')
                args = m.right.elts if isinstance(m.right, ast.Tuple) else [m.right]
                out.append((name, fmt, [ast.unparse(a) for a in args]))
            self.generic_visit(node)

    V().visit(fn)
    return out


def check_format(fmt, nargs, what):
    """Only `%s` conversions (and `%%`) are supported; their number must equal the argument count."""
    i, n = 0, 0
    while i < len(fmt):
        if fmt[i] == '%':
            if i + 1 >= len(fmt):
                raise TranslatorError('%s: dangling %% in %r' % (what, fmt))
            if fmt[i + 1] == 's':
                n += 1
            elif fmt[i + 1] != '%':
                raise TranslatorError('%s: conversion %%%s outside the supported form (%r)' % (what, fmt[i + 1], fmt))
            i += 2
        else:
            i += 1
    if n != nargs:
        raise TranslatorError('%s: %d conversions for %d arguments (%r)' % (what, n, nargs, fmt))


def send_error_tables(fn):
    """Inside the nested `send_error`: the PythonException prefix, the invalid-name notice and
    the fallback name."""
    inner = None
    for n in ast.walk(fn):
        if isinstance(n, ast.FunctionDef) and n.name == 'send_error':
            inner = n
    if inner is None:
        raise TranslatorError('nested function send_error not found')
    prefix = notice = fallback = None
    for n in ast.walk(inner):
        if isinstance(n, ast.Assign) and len(n.targets) == 1 and isinstance(n.targets[0], ast.Name):
            tgt, v = n.targets[0].id, n.value
            if tgt == 'name' and isinstance(v, ast.BinOp) and isinstance(v.op, ast.Add):
                # name = 'org.txdbus.PythonException.' + e.__class__.__name__
                if ast.unparse(v.right) != 'e.__class__.__name__':
                    raise TranslatorError('unexpected default error name: ' + ast.unparse(v))
                prefix = _const_str(v.left, 'PythonException prefix')
            elif tgt == 'name' and isinstance(v, ast.Constant) and isinstance(v.value, str):
                fallback = v.value
            elif tgt == 'errMsg' and isinstance(v, ast.BinOp) and isinstance(v.op, ast.Add):
                # errMsg = ('!!(Invalid error name "%s")!! ' % name) + errMsg
                l = v.left
                if not (isinstance(l, ast.BinOp) and isinstance(l.op, ast.Mod)
                        and ast.unparse(l.right) == 'name' and ast.unparse(v.right) == 'errMsg'):
                    raise TranslatorError('unexpected invalid-name notice: ' + ast.unparse(v))
                notice = _const_str(l.left, 'invalid-name notice')
    if prefix is None or notice is None or fallback is None:
        raise TranslatorError('send_error: prefix=%r notice=%r fallback=%r' % (prefix, notice, fallback))
    check_format(notice, 1, 'invalid-name notice')
    return prefix, notice, fallback


def attr_prefix(fn):
    """`getattr(self, '<prefix>' + methodName, None)` in executeMethod."""
    for n in ast.walk(fn):
        if isinstance(n, ast.Call) and isinstance(n.func, ast.Name) and n.func.id == 'getattr' \
                and len(n.args) == 3 and isinstance(n.args[1], ast.BinOp) and isinstance(n.args[1].op, ast.Add):
            if ast.unparse(n.args[1].right) != 'methodName':
                raise TranslatorError('unexpected attribute lookup: ' + ast.unparse(n))
            return _const_str(n.args[1].left, 'attribute prefix')
    raise TranslatorError("getattr(self, '<prefix>' + methodName, None) not found in executeMethod")


def caller_keyword(fn):
    """`args[-1] == '<kw>'` in _set_method_flags."""
    for n in ast.walk(fn):
        if isinstance(n, ast.Compare) and len(n.ops) == 1 and isinstance(n.ops[0], ast.Eq) \
                and ast.unparse(n.left) == 'args[-1]':
            return _const_str(n.comparators[0], 'caller keyword')
    raise TranslatorError("`args[-1] == '<keyword>'` not found in _set_method_flags")


def _lean_str(s):
    out = ['"']
    for ch in s:
        if ch == '\\':
            out.append('\\\\')
        elif ch == '"':
            out.append('\\"')
        elif ch == '\n':
            out.append('\\n')
        elif ord(ch) < 32 or ord(ch) == 127:
            out.append('\\x%02x' % ord(ch))
        else:
            out.append(ch)
    out.append('"')
    return ''.join(out)


def _lean_list(xs):
    return '[' + ', '.join(_lean_str(x) for x in xs) + ']'


def tables(repo):
    src = open(os.path.join(repo, 'txdbus', 'objects.py'), encoding='utf-8').read()
    tree = ast.parse(src)
    handler = _find_class(tree, 'DBusObjectHandler')
    obj = _find_class(tree, 'DBusObject')
    fn = _find_func(handler, 'handleMethodCallMessage')
    pairs = builtin_pairs(fn)
    if len(pairs) != 3:
        raise TranslatorError('expected 3 built-in (interface, member) tests, found %r' % (pairs,))
    errs = send_err_calls(fn)
    if len(errs) != 4:
        raise TranslatorError('expected 4 _send_err calls (UnknownObject, GetManagedObjects failure, '
                              'UnknownMethod, InvalidArgs), found %r' % (errs,))
    for name, fmt, args in errs:
        check_format(fmt, len(args), name)
    prefix, notice, fallback = send_error_tables(fn)
    return {
        'pairs': pairs, 'errs': errs, 'prefix': prefix, 'notice': notice, 'fallback': fallback,
        'attr_prefix': attr_prefix(_find_func(obj, 'executeMethod')),
        'caller_kw': caller_keyword(_find_func(obj, '_set_method_flags')),
    }


def emit(repo):
    t = tables(repo)
    o = []
    o.append('/-')
    o.append('GENERATED by tools/tables/c10_dispatch.py from the AST of txdbus/objects.py of the repository')
    o.append('under test (DBusObjectHandler.handleMethodCallMessage, DBusObject.executeMethod,')
    o.append('DBusObject._set_method_flags).  Do not edit: regenerated on every run.')
    o.append('-/')
    o.append('namespace Txdbus.Gen.Dispatch')
    o.append('')
    o.append('/-- `msg.interface == I and msg.member == M` tests answered by the handler itself, in the code\'s order. -/')
    o.append('def builtinPairs : List (String × String) :=')
    o.append('  [' + ', '.join('(%s, %s)' % (_lean_str(a), _lean_str(b)) for a, b in t['pairs']) + ']')
    o.append('')
    o.append('/-- `self._send_err(msg, name, fmt % args)` calls in the code\'s order: (error name, format, source text of the arguments). -/')
    o.append('def lookupErrors : List (String × String × List String) :=')
    o.append('  [' + ',\n   '.join('(%s, %s, %s)' % (_lean_str(n), _lean_str(f), _lean_list(a)) for n, f, a in t['errs']) + ']')
    o.append('')
    o.append('/-- `name = <prefix> + e.__class__.__name__` in send_error. -/')
    o.append('def pyExceptionPrefix : String := ' + _lean_str(t['prefix']))
    o.append('/-- `errMsg = (<notice> % name) + errMsg` in send_error. -/')
    o.append('def invalidNameNotice : String := ' + _lean_str(t['notice']))
    o.append('/-- the name used when the chosen error name is not a valid DBus error name. -/')
    o.append('def invalidErrorName : String := ' + _lean_str(t['fallback']))
    o.append('/-- `getattr(self, <prefix> + methodName, None)` in executeMethod. -/')
    o.append('def attrPrefix : String := ' + _lean_str(t['attr_prefix']))
    o.append('/-- the last positional parameter name that requests the sender (`_set_method_flags`). -/')
    o.append('def callerKeyword : String := ' + _lean_str(t['caller_kw']))
    o.append('')
    o.append('end Txdbus.Gen.Dispatch')
    return '\n'.join(o) + '\n'


if __name__ == '__main__':
    import sys
    print(emit(sys.argv[1] if len(sys.argv) > 1 else '/repo'))
