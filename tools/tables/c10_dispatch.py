"""Translator for C10: the constants of the method-call dispatcher in txdbus/objects.py.

Reads the AST of `DBusObjectHandler.handleMethodCallMessage`, `DBusObject.executeMethod` and
`DBusObject._set_method_flags` (source of the working tree under test) and writes
lean/TxdbusModel/Gen/Dispatch.lean.  Roles are recognised by what the statement names, not by
position or count, so that harmless rewrites keep translating:

  * the built-in (interface, member) tests `<msg>.interface == 'I' and <msg>.member == 'M'` whose
    interface ends in `.Peer`, `.Introspectable`, `.ObjectManager` (any further test is ignored;
    the correspondence streams see its effect), and the `signature=` constant of the
    `MethodReturnMessage` built under each test;
  * the `self._send_err(<msg>, '<error name>', <text>)` calls whose name ends in `.UnknownObject`,
    `.UnknownMethod`, `.InvalidArgs`, and the one inside an `except` handler (the GetManagedObjects
    failure of repair C10-02); further calls are ignored.  <text> may be `'fmt' % args`, an
    f-string, `'fmt'.format(args)` (positional `{}`) or a plain literal; it is emitted as a list of
    pieces: literal text and *slots* (`msg.path`, `msg.member`, `msg.signature or '<d>'`,
    `msg.interface or '<d>'`, `<method>.sigIn [or '<d>']`, the caught exception / `str(e)`);
    the name of the message parameter is whatever the function calls it;
  * from the nested `send_error`: the `'org.txdbus.PythonException.'` prefix, the invalid-name
    notice, the fallback error name, and the text escape of repair C10-01
    (`errMsg = errMsg.replace(<one char>, <text>)[.encode('utf-8', <handler>).decode('utf-8')]`;
    absent -> `textEscape := none`, which is the code before the repair);
  * from `executeMethod`: the `'dbus_'` attribute prefix and the exception it raises when nothing
    implements the member;
  * from `_set_method_flags`: `args = inspect.getfullargspec(m)[0]` (named positional parameters)
    and `len(args) >= <n> and args[-1] == '<kw>'` (the rule that decides whether a method "asks
    for" the caller).

Anything the model could not interpret (an unknown slot expression, another caller rule, a
missing role) raises TranslatorError: the table obligation of C10 is then broken.
"""
import ast
import os
import string

MODULE = 'TxdbusModel.Gen.Dispatch'


class TranslatorError(Exception):
    pass


# --------------------------------------------------------------------------- AST helpers
def _find_class(tree, name):
    for n in tree.body:
        if isinstance(n, ast.ClassDef) and n.name == name:
            return n
    raise TranslatorError('class %s not found in txdbus/objects.py' % name)


def _find_func(node, name):
    for n in node.body:
        if isinstance(n, ast.FunctionDef) and n.name == name:
            return n
    raise TranslatorError('function %s not found in %s' % (name, getattr(node, 'name', '?')))


def _is_str(n):
    return isinstance(n, ast.Constant) and isinstance(n.value, str)


def _const_str(n, what):
    if _is_str(n):
        return n.value
    raise TranslatorError('%s is not a string literal: %s' % (what, ast.unparse(n)))


def _msg_param(fn):
    args = [a.arg for a in fn.args.args]
    if len(args) < 2:
        raise TranslatorError('%s has no message parameter' % fn.name)
    return args[1]


def _walk_no_nested(fn):
    """Nodes of fn's body, not descending into nested function definitions."""
    todo = list(fn.body)
    while todo:
        n = todo.pop(0)
        yield n
        for c in ast.iter_child_nodes(n):
            if isinstance(c, (ast.FunctionDef, ast.AsyncFunctionDef, ast.Lambda)):
                continue
            todo.append(c)


def _pair_test(t, msg):
    """`<msg>.interface == 'I' and <msg>.member == 'M'` -> (I, M) or None."""
    if not (isinstance(t, ast.BoolOp) and isinstance(t.op, ast.And) and len(t.values) == 2):
        return None
    got = {}
    for x in t.values:
        if not (isinstance(x, ast.Compare) and len(x.ops) == 1 and isinstance(x.ops[0], ast.Eq)
                and len(x.comparators) == 1):
            return None
        l, r = x.left, x.comparators[0]
        if _is_str(l):
            l, r = r, l
        if not (isinstance(l, ast.Attribute) and isinstance(l.value, ast.Name) and l.value.id == msg and _is_str(r)):
            return None
        got[l.attr] = r.value
    if set(got) == {'interface', 'member'}:
        return got['interface'], got['member']
    return None


ROLES = [('peer', '.Peer'), ('introspect', '.Introspectable'), ('managed', '.ObjectManager')]


def builtin_tests(fn, msg):
    """role -> ((interface, member), signature constant of the MethodReturnMessage under the test or None)."""
    out = {}
    for n in _walk_no_nested(fn):
        if not isinstance(n, ast.If):
            continue
        p = _pair_test(n.test, msg)
        if p is None:
            continue
        for role, suffix in ROLES:
            if p[0].endswith(suffix) and role not in out:
                sig = None
                for c in ast.walk(n):
                    if isinstance(c, ast.Call) and isinstance(c.func, ast.Attribute) and c.func.attr == 'MethodReturnMessage':
                        for kw in c.keywords:
                            if kw.arg == 'signature':
                                sig = _const_str(kw.value, 'signature of the %s reply' % role)
                        break
                out[role] = (p, sig)
    for role, _ in ROLES:
        if role not in out:
            raise TranslatorError('built-in test for %s not found' % role)
    return out


# --------------------------------------------------------------------------- text templates
def _slot(expr, msg, excvars):
    """One formatted expression -> a piece ('slot', kind, default) or TranslatorError."""
    default = None
    e = expr
    if isinstance(e, ast.BoolOp) and isinstance(e.op, ast.Or) and len(e.values) == 2 and _is_str(e.values[1]):
        default = e.values[1].value
        e = e.values[0]
    if isinstance(e, ast.Call) and isinstance(e.func, ast.Name) and e.func.id == 'str' and len(e.args) == 1 \
            and not e.keywords:
        e = e.args[0]
    if isinstance(e, ast.Name) and e.id in excvars and default is None:
        return ('excText', None)
    if isinstance(e, ast.Attribute) and isinstance(e.value, ast.Name):
        if e.value.id == msg:
            if e.attr == 'path' and default is None:
                return ('path', None)
            if e.attr == 'member' and default is None:
                return ('member', None)
            if e.attr == 'signature' and default is not None:
                return ('sigOr', default)
            if e.attr == 'interface' and default is not None:
                return ('ifaceOr', default)
        elif e.attr == 'sigIn':
            return ('sigInOr', default if default is not None else '')
    raise TranslatorError('text argument %s is not one the model knows' % ast.unparse(expr))


def _percent_pieces(fmt, args, msg, excvars, what):
    pieces, lit, i, k = [], '', 0, 0
    while i < len(fmt):
        if fmt[i] == '%':
            if i + 1 >= len(fmt):
                raise TranslatorError('%s: dangling %% in %r' % (what, fmt))
            if fmt[i + 1] == '%':
                lit += '%'
            elif fmt[i + 1] == 's':
                if k >= len(args):
                    raise TranslatorError('%s: more conversions than arguments (%r)' % (what, fmt))
                if lit:
                    pieces.append(('lit', lit))
                    lit = ''
                pieces.append(_slot(args[k], msg, excvars))
                k += 1
            else:
                raise TranslatorError('%s: conversion %%%s is outside the supported form' % (what, fmt[i + 1]))
            i += 2
        else:
            lit += fmt[i]
            i += 1
    if k != len(args):
        raise TranslatorError('%s: %d conversions for %d arguments' % (what, k, len(args)))
    if lit:
        pieces.append(('lit', lit))
    return pieces


def text_pieces(node, msg, excvars, what):
    if _is_str(node):
        return [('lit', node.value)] if node.value else []
    if isinstance(node, ast.BinOp) and isinstance(node.op, ast.Mod) and _is_str(node.left):
        args = node.right.elts if isinstance(node.right, ast.Tuple) else [node.right]
        return _percent_pieces(node.left.value, list(args), msg, excvars, what)
    if isinstance(node, ast.JoinedStr):
        pieces = []
        for v in node.values:
            if _is_str(v):
                if v.value:
                    pieces.append(('lit', v.value))
            elif isinstance(v, ast.FormattedValue) and v.format_spec is None and v.conversion in (-1, 115):
                pieces.append(_slot(v.value, msg, excvars))
            else:
                raise TranslatorError('%s: f-string field outside the supported form: %s' % (what, ast.unparse(node)))
        return pieces
    if isinstance(node, ast.Call) and isinstance(node.func, ast.Attribute) and node.func.attr == 'format' \
            and _is_str(node.func.value) and not node.keywords:
        pieces, k = [], 0
        for lit, field, spec, conv in string.Formatter().parse(node.func.value.value):
            if lit:
                pieces.append(('lit', lit))
            if field is None:
                continue
            if field != '' or spec or conv not in (None, 's'):
                raise TranslatorError('%s: only positional {} fields are supported' % what)
            if k >= len(node.args):
                raise TranslatorError('%s: more fields than arguments' % what)
            pieces.append(_slot(node.args[k], msg, excvars))
            k += 1
        if k != len(node.args):
            raise TranslatorError('%s: %d fields for %d arguments' % (what, k, len(node.args)))
        return pieces
    raise TranslatorError('%s: text %s is outside the supported forms' % (what, ast.unparse(node)))


ERR_ROLES = [('unknownObject', '.UnknownObject'), ('unknownMethod', '.UnknownMethod'), ('invalidArgs', '.InvalidArgs')]


def send_err_tables(fn, msg):
    """role -> (error name, pieces) for UnknownObject / UnknownMethod / InvalidArgs and the call in an except handler."""
    out = {}

    def visit(n, excvars):
        if isinstance(n, (ast.FunctionDef, ast.AsyncFunctionDef, ast.Lambda)) and n is not fn:
            return
        if isinstance(n, ast.ExceptHandler):
            excvars = excvars | ({n.name} if n.name else set())
            inside = True
        else:
            inside = None
        if isinstance(n, ast.Call) and isinstance(n.func, ast.Attribute) and n.func.attr == '_send_err' \
                and isinstance(n.func.value, ast.Name) and n.func.value.id == 'self' and len(n.args) == 3 \
                and _is_str(n.args[1]):
            name = n.args[1].value
            role = None
            for r, suffix in ERR_ROLES:
                if name.endswith(suffix):
                    role = r
            if role is None and excvars:
                role = 'managedFailed'
            if role is not None and role not in out:
                out[role] = (name, text_pieces(n.args[2], msg, excvars, '_send_err(%s)' % name))
        for c in ast.iter_child_nodes(n):
            visit(c, excvars)

    for st in fn.body:
        visit(st, set())
    for r in [r for r, _ in ERR_ROLES] + ['managedFailed']:
        if r not in out:
            raise TranslatorError('_send_err call for %s not found' % r)
    return out


# --------------------------------------------------------------------------- send_error
def send_error_tables(fn):
    inner = None
    for n in ast.walk(fn):
        if isinstance(n, ast.FunctionDef) and n.name == 'send_error':
            inner = n
    if inner is None:
        raise TranslatorError('nested function send_error not found')
    prefix = notice = fallback = None
    escape = None
    handler = None
    for n in ast.walk(inner):
        if not (isinstance(n, ast.Assign) and len(n.targets) == 1 and isinstance(n.targets[0], ast.Name)):
            continue
        tgt, v = n.targets[0].id, n.value
        if tgt == 'name' and isinstance(v, ast.BinOp) and isinstance(v.op, ast.Add) and _is_str(v.left):
            if ast.unparse(v.right) not in ('e.__class__.__name__', 'type(e).__name__'):
                raise TranslatorError('unexpected default error name: ' + ast.unparse(v))
            prefix = v.left.value
        elif tgt == 'name' and _is_str(v):
            fallback = v.value
        elif tgt == 'errMsg' and isinstance(v, ast.BinOp) and isinstance(v.op, ast.Add):
            l = v.left
            if not (isinstance(l, ast.BinOp) and isinstance(l.op, ast.Mod) and _is_str(l.left)
                    and ast.unparse(l.right) == 'name' and ast.unparse(v.right) == 'errMsg'):
                raise TranslatorError('unexpected invalid-name notice: ' + ast.unparse(v))
            notice = l.left.value
        elif tgt == 'errMsg':
            # errMsg = errMsg.replace(A, B)[.encode('utf-8', H).decode('utf-8')]
            c = v
            h = None
            if isinstance(c, ast.Call) and isinstance(c.func, ast.Attribute) and c.func.attr == 'decode':
                enc = c.func.value
                if not (isinstance(enc, ast.Call) and isinstance(enc.func, ast.Attribute) and enc.func.attr == 'encode'
                        and len(enc.args) == 2 and all(_is_str(a) for a in enc.args)
                        and enc.args[0].value.lower().replace('-', '') == 'utf8'
                        and [a.value.lower().replace('-', '') for a in c.args if _is_str(a)] == ['utf8']):
                    continue
                h = enc.args[1].value
                c = enc.func.value
            if isinstance(c, ast.Call) and isinstance(c.func, ast.Attribute) and c.func.attr == 'replace' \
                    and isinstance(c.func.value, ast.Name) and c.func.value.id == 'errMsg' and len(c.args) == 2 \
                    and all(_is_str(a) for a in c.args) and len(c.args[0].value) == 1:
                escape = (ord(c.args[0].value), c.args[1].value)
                handler = h
    if prefix is None or notice is None or fallback is None:
        raise TranslatorError('send_error: prefix=%r notice=%r fallback=%r' % (prefix, notice, fallback))
    if notice.count('%s') != 1 or notice.replace('%s', '').count('%') != 0:
        raise TranslatorError('invalid-name notice %r is not a one-%%s format' % notice)
    return prefix, notice, fallback, escape, handler


# --------------------------------------------------------------------------- executeMethod / flags
def attr_prefix(fn):
    for n in ast.walk(fn):
        if isinstance(n, ast.Call) and isinstance(n.func, ast.Name) and n.func.id == 'getattr' \
                and len(n.args) >= 2 and isinstance(n.args[1], ast.BinOp) and isinstance(n.args[1].op, ast.Add) \
                and _is_str(n.args[1].left):
            return n.args[1].left.value
    raise TranslatorError("getattr(self, '<prefix>' + methodName, ...) not found in executeMethod")


def unbound_exception(fn):
    names = set()
    for n in ast.walk(fn):
        if isinstance(n, ast.Raise) and n.exc is not None:
            e = n.exc.func if isinstance(n.exc, ast.Call) else n.exc
            if isinstance(e, ast.Name):
                names.add(e.id)
    if len(names) != 1:
        raise TranslatorError('executeMethod raises %r; expected one exception class' % sorted(names))
    return names.pop()


def caller_rule(fn):
    """`len(args) >= N and args[-1] == '<kw>'` -> (kw, N), where `args` must be
    `inspect.getfullargspec(<method>)[0]`: the NAMED POSITIONAL parameters (self included; no
    *args / keyword-only / **kwargs names) - that is what the model's `Func.params` holds."""
    src_ok = False
    for n in ast.walk(fn):
        if isinstance(n, ast.Assign) and len(n.targets) == 1 and isinstance(n.targets[0], ast.Name) \
                and n.targets[0].id == 'args' and isinstance(n.value, ast.Subscript):
            v = n.value
            idx = v.slice
            if isinstance(v.value, ast.Call) and ast.unparse(v.value.func) == 'inspect.getfullargspec' \
                    and isinstance(idx, ast.Constant) and idx.value == 0:
                src_ok = True
    if not src_ok:
        raise TranslatorError('_set_method_flags no longer takes `args` from inspect.getfullargspec(...)[0] '
                              '(the named positional parameters)')
    for n in ast.walk(fn):
        if isinstance(n, ast.BoolOp) and isinstance(n.op, ast.And) and len(n.values) == 2:
            a, b = n.values
            if isinstance(a, ast.Compare) and ast.unparse(a.left) == 'len(args)' and len(a.ops) == 1 \
                    and isinstance(a.ops[0], ast.GtE) and isinstance(a.comparators[0], ast.Constant) \
                    and isinstance(a.comparators[0].value, int) \
                    and isinstance(b, ast.Compare) and ast.unparse(b.left) == 'args[-1]' and len(b.ops) == 1 \
                    and isinstance(b.ops[0], ast.Eq) and _is_str(b.comparators[0]):
                return b.comparators[0].value, a.comparators[0].value
    raise TranslatorError("`len(args) >= N and args[-1] == '<keyword>'` not found in _set_method_flags")


# --------------------------------------------------------------------------- emission
def _lean_str(s):
    out = ['"']
    for ch in s:
        if ch == '\\':
            out.append('\\\\')
        elif ch == '"':
            out.append('\\"')
        elif ch == '\n':
            out.append('\\n')
        elif ord(ch) < 32 or ord(ch) == 127:
            out.append('\\x%02x' % ord(ch))
        else:
            out.append(ch)
    out.append('"')
    return ''.join(out)


def _lean_piece(p):
    kind, arg = p
    if kind == 'lit':
        return '.lit ' + _lean_str(arg)
    if kind in ('sigOr', 'ifaceOr', 'sigInOr'):
        return '.%s %s' % (kind, _lean_str(arg))
    return '.' + kind


def _lean_pieces(ps):
    return '[' + ', '.join(_lean_piece(p) for p in ps) + ']'


def tables(repo):
    src = open(os.path.join(repo, 'txdbus', 'objects.py'), encoding='utf-8').read()
    tree = ast.parse(src)
    handler = _find_class(tree, 'DBusObjectHandler')
    obj = _find_class(tree, 'DBusObject')
    fn = _find_func(handler, 'handleMethodCallMessage')
    msg = _msg_param(fn)
    prefix, notice, fallback, escape, enc_handler = send_error_tables(fn)
    kw, nmin = caller_rule(_find_func(obj, '_set_method_flags'))
    ex = _find_func(obj, 'executeMethod')
    return {'builtin': builtin_tests(fn, msg), 'errs': send_err_tables(fn, msg), 'prefix': prefix, 'notice': notice,
            'fallback': fallback, 'escape': escape, 'enc_handler': enc_handler,
            'attr_prefix': attr_prefix(ex), 'unbound': unbound_exception(ex), 'caller_kw': kw, 'caller_min': nmin}


def emit(repo):
    t = tables(repo)
    o = []
    o.append('/-')
    o.append('GENERATED by tools/tables/c10_dispatch.py from the AST of txdbus/objects.py of the repository')
    o.append('under test (DBusObjectHandler.handleMethodCallMessage, DBusObject.executeMethod,')
    o.append('DBusObject._set_method_flags).  Do not edit: regenerated on every run.')
    o.append('-/')
    o.append('namespace Txdbus.Gen.Dispatch')
    o.append('')
    o.append('/-- A piece of an error text: literal characters or a slot filled from the call. -/')
    o.append('inductive Piece where')
    o.append('  | lit (s : String)')
    o.append('  | path                      -- msg.path')
    o.append('  | member                    -- msg.member')
    o.append("  | sigOr (d : String)        -- msg.signature or '<d>'")
    o.append("  | ifaceOr (d : String)      -- msg.interface or '<d>'")
    o.append("  | sigInOr (d : String)      -- <method>.sigIn or '<d>'")
    o.append('  | excText                   -- str(e) of the caught exception')
    o.append('  deriving DecidableEq, Repr')
    o.append('')
    for role, lean in (('peer', 'peerPair'), ('introspect', 'introspectPair'), ('managed', 'managedPair')):
        (i, m), sig = t['builtin'][role]
        o.append('/-- `msg.interface == I and msg.member == M` answered by the handler itself. -/')
        o.append('def %s : String × String := (%s, %s)' % (lean, _lean_str(i), _lean_str(m)))
    o.append('/-- `signature=` of the replies built under the Introspect / GetManagedObjects tests. -/')
    o.append('def introspectSig : String := ' + _lean_str(t['builtin']['introspect'][1] or ''))
    o.append('def managedSig : String := ' + _lean_str(t['builtin']['managed'][1] or ''))
    o.append('')
    for role in ('unknownObject', 'managedFailed', 'unknownMethod', 'invalidArgs'):
        name, pieces = t['errs'][role]
        o.append('/-- `self._send_err(msg, name, text)`: (error name, pieces of the text). -/')
        o.append('def %s : String × List Piece :=' % role)
        o.append('  (%s, %s)' % (_lean_str(name), _lean_pieces(pieces)))
    o.append('')
    o.append('/-- `name = <prefix> + e.__class__.__name__` in send_error. -/')
    o.append('def pyExceptionPrefix : String := ' + _lean_str(t['prefix']))
    o.append('/-- `errMsg = (<notice> % name) + errMsg` in send_error. -/')
    o.append('def invalidNameNotice : String := ' + _lean_str(t['notice']))
    o.append('/-- the name used when the chosen error name is not a valid DBus error name. -/')
    o.append('def invalidErrorName : String := ' + _lean_str(t['fallback']))
    o.append('/-- `errMsg = errMsg.replace(chr(c), r)` before the ErrorMessage is built (repair C10-01);')
    o.append('`none`: the text is used as it is. -/')
    if t['escape'] is None:
        o.append('def textEscape : Option (Nat × String) := none')
    else:
        o.append('def textEscape : Option (Nat × String) := some (%d, %s)' % (t['escape'][0], _lean_str(t['escape'][1])))
    o.append("/-- the `errors=` handler of the `.encode('utf-8', h).decode('utf-8')` that follows it (\"\" = absent). -/")
    o.append('def textEncodeHandler : String := ' + _lean_str(t['enc_handler'] or ''))
    o.append('/-- `getattr(self, <prefix> + methodName, None)` in executeMethod. -/')
    o.append('def attrPrefix : String := ' + _lean_str(t['attr_prefix']))
    o.append('/-- the exception executeMethod raises when nothing implements the member. -/')
    o.append('def unboundException : String := ' + _lean_str(t['unbound']))
    o.append('/-- `_set_method_flags`: `len(args) >= callerMinArgs and args[-1] == callerKeyword`. -/')
    o.append('def callerKeyword : String := ' + _lean_str(t['caller_kw']))
    o.append('def callerMinArgs : Nat := %d' % t['caller_min'])
    o.append('')
    o.append('end Txdbus.Gen.Dispatch')
    return '\n'.join(o) + '\n'


if __name__ == '__main__':
    import sys
    print(emit(sys.argv[1] if len(sys.argv) > 1 else '/repo'))
