"""Translator for C10 (also read by C11, C16): the constants of the method-call dispatcher in txdbus/objects.py.

TWO ROUTES.  (1) Probing (always): every entry is derived by executing the dispatcher of the tree under
test - scenario probes on the real `handleMethodCallMessage` with a stub connection (see `probe_tables`):
built-in calls, error names and texts per failed check, order of checks, attribute prefix, caller keyword and
its rule, reply / no-reply rule, send_error's naming and escaping.  (2) AST (cross-check): the shapes described
below; where a shape is recognised the two routes must agree (else TranslatorError), where it is not the
reason goes to ADVISORIES (the pipeline then widens the correspondence run instead of reporting a broken table).

Reads the AST of `DBusObjectHandler.handleMethodCallMessage`, `DBusObject.executeMethod` and
`DBusObject._set_method_flags` (source of the working tree under test) and writes
lean/TxdbusModel/Gen/Dispatch.lean.  Roles are recognised by what the statement names, not by
position or count, so that harmless rewrites keep translating:

  * the built-in (interface, member) tests `<msg>.interface == 'I' and <msg>.member == 'M'` whose
    interface ends in `.Peer`, `.Introspectable`, `.ObjectManager` (any further test is ignored;
    the correspondence streams see its effect), and the `signature=` constant of the
    `MethodReturnMessage` built under each test;
  * the `self._send_err(<msg>, '<error name>', <text>)` calls whose name ends in `.UnknownObject`,
    `.UnknownMethod`, `.InvalidArgs`, and the one inside an `except` handler (the GetManagedObjects
    failure of repair C10-02); further calls are ignored.  <text> may be `'fmt' % args`, an
    f-string, `'fmt'.format(args)` (positional `{}`) or a plain literal; it is emitted as a list of
    pieces: literal text and *slots* (`msg.path`, `msg.member`, `msg.signature or '<d>'`,
    `msg.interface or '<d>'`, `<method>.sigIn [or '<d>']`, the caught exception / `str(e)`);
    the name of the message parameter is whatever the function calls it;
  * from the nested `send_error`: the `'org.txdbus.PythonException.'` prefix, the invalid-name
    notice, the fallback error name, and the text escape of repair C10-01
    (`errMsg = errMsg.replace(<one char>, <text>)[.encode('utf-8', <handler>).decode('utf-8')]`;
    absent -> `textEscape := none`, which is the code before the repair);
  * from `executeMethod`: the `'dbus_'` attribute prefix and the exception it raises when nothing
    implements the member;
  * from `_set_method_flags`: `args = inspect.getfullargspec(m)[0]` (named positional parameters)
    and `len(args) >= <n> and args[-1] == '<kw>'` (the rule that decides whether a method "asks
    for" the caller).

Anything the model could not interpret (an unknown slot expression, another caller rule, a
missing role) raises TranslatorError: the table obligation of C10 is then broken.
"""
import ast
import os
import string

MODULE = 'TxdbusModel.Gen.Dispatch'
ADVISORIES = []


class TranslatorError(Exception):
    pass


# --------------------------------------------------------------------------- AST helpers
def _find_class(tree, name):
    for n in tree.body:
        if isinstance(n, ast.ClassDef) and n.name == name:
            return n
    raise TranslatorError('class %s not found in txdbus/objects.py' % name)


def _find_func(node, name):
    for n in node.body:
        if isinstance(n, ast.FunctionDef) and n.name == name:
            return n
    raise TranslatorError('function %s not found in %s' % (name, getattr(node, 'name', '?')))


def _is_str(n):
    return isinstance(n, ast.Constant) and isinstance(n.value, str)


def _const_str(n, what):
    if _is_str(n):
        return n.value
    raise TranslatorError('%s is not a string literal: %s' % (what, ast.unparse(n)))


def _msg_param(fn):
    args = [a.arg for a in fn.args.args]
    if len(args) < 2:
        raise TranslatorError('%s has no message parameter' % fn.name)
    return args[1]


def _walk_no_nested(fn):
    """Nodes of fn's body, not descending into nested function definitions."""
    todo = list(fn.body)
    while todo:
        n = todo.pop(0)
        yield n
        for c in ast.iter_child_nodes(n):
            if isinstance(c, (ast.FunctionDef, ast.AsyncFunctionDef, ast.Lambda)):
                continue
            todo.append(c)


def _pair_test(t, msg):
    """`<msg>.interface == 'I' and <msg>.member == 'M'` -> (I, M) or None."""
    if not (isinstance(t, ast.BoolOp) and isinstance(t.op, ast.And) and len(t.values) == 2):
        return None
    got = {}
    for x in t.values:
        if not (isinstance(x, ast.Compare) and len(x.ops) == 1 and isinstance(x.ops[0], ast.Eq)
                and len(x.comparators) == 1):
            return None
        l, r = x.left, x.comparators[0]
        if _is_str(l):
            l, r = r, l
        if not (isinstance(l, ast.Attribute) and isinstance(l.value, ast.Name) and l.value.id == msg and _is_str(r)):
            return None
        got[l.attr] = r.value
    if set(got) == {'interface', 'member'}:
        return got['interface'], got['member']
    return None


ROLES = [('peer', '.Peer'), ('introspect', '.Introspectable'), ('managed', '.ObjectManager')]


def builtin_tests(fn, msg):
    """role -> ((interface, member), signature constant of the MethodReturnMessage under the test or None)."""
    out = {}
    for n in _walk_no_nested(fn):
        if not isinstance(n, ast.If):
            continue
        p = _pair_test(n.test, msg)
        if p is None:
            continue
        for role, suffix in ROLES:
            if p[0].endswith(suffix) and role not in out:
                sig = None
                for c in ast.walk(n):
                    if isinstance(c, ast.Call) and isinstance(c.func, ast.Attribute) and c.func.attr == 'MethodReturnMessage':
                        for kw in c.keywords:
                            if kw.arg == 'signature':
                                sig = _const_str(kw.value, 'signature of the %s reply' % role)
                        break
                out[role] = (p, sig)
    for role, _ in ROLES:
        if role not in out:
            raise TranslatorError('built-in test for %s not found' % role)
    return out


# --------------------------------------------------------------------------- text templates
def _slot(expr, msg, excvars):
    """One formatted expression -> a piece ('slot', kind, default) or TranslatorError."""
    default = None
    e = expr
    if isinstance(e, ast.BoolOp) and isinstance(e.op, ast.Or) and len(e.values) == 2 and _is_str(e.values[1]):
        default = e.values[1].value
        e = e.values[0]
    if isinstance(e, ast.Call) and isinstance(e.func, ast.Name) and e.func.id == 'str' and len(e.args) == 1 \
            and not e.keywords:
        e = e.args[0]
    if isinstance(e, ast.Name) and e.id in excvars and default is None:
        return ('excText', None)
    if isinstance(e, ast.Attribute) and isinstance(e.value, ast.Name):
        if e.value.id == msg:
            if e.attr == 'path' and default is None:
                return ('path', None)
            if e.attr == 'member' and default is None:
                return ('member', None)
            if e.attr == 'signature' and default is not None:
                return ('sigOr', default)
            if e.attr == 'interface' and default is not None:
                return ('ifaceOr', default)
        elif e.attr == 'sigIn':
            return ('sigInOr', default if default is not None else '')
    raise TranslatorError('text argument %s is not one the model knows' % ast.unparse(expr))


def _percent_pieces(fmt, args, msg, excvars, what):
    pieces, lit, i, k = [], '', 0, 0
    while i < len(fmt):
        if fmt[i] == '%':
            if i + 1 >= len(fmt):
                raise TranslatorError('%s: dangling %% in %r' % (what, fmt))
            if fmt[i + 1] == '%':
                lit += '%'
            elif fmt[i + 1] == 's':
                if k >= len(args):
                    raise TranslatorError('%s: more conversions than arguments (%r)' % (what, fmt))
                if lit:
                    pieces.append(('lit', lit))
                    lit = ''
                pieces.append(_slot(args[k], msg, excvars))
                k += 1
            else:
                raise TranslatorError('%s: conversion %%%s is outside the supported form' % (what, fmt[i + 1]))
            i += 2
        else:
            lit += fmt[i]
            i += 1
    if k != len(args):
        raise TranslatorError('%s: %d conversions for %d arguments' % (what, k, len(args)))
    if lit:
        pieces.append(('lit', lit))
    return pieces


def text_pieces(node, msg, excvars, what):
    if _is_str(node):
        return [('lit', node.value)] if node.value else []
    if isinstance(node, ast.BinOp) and isinstance(node.op, ast.Mod) and _is_str(node.left):
        args = node.right.elts if isinstance(node.right, ast.Tuple) else [node.right]
        return _percent_pieces(node.left.value, list(args), msg, excvars, what)
    if isinstance(node, ast.JoinedStr):
        pieces = []
        for v in node.values:
            if _is_str(v):
                if v.value:
                    pieces.append(('lit', v.value))
            elif isinstance(v, ast.FormattedValue) and v.format_spec is None and v.conversion in (-1, 115):
                pieces.append(_slot(v.value, msg, excvars))
            else:
                raise TranslatorError('%s: f-string field outside the supported form: %s' % (what, ast.unparse(node)))
        return pieces
    if isinstance(node, ast.Call) and isinstance(node.func, ast.Attribute) and node.func.attr == 'format' \
            and _is_str(node.func.value) and not node.keywords:
        pieces, k = [], 0
        for lit, field, spec, conv in string.Formatter().parse(node.func.value.value):
            if lit:
                pieces.append(('lit', lit))
            if field is None:
                continue
            if field != '' or spec or conv not in (None, 's'):
                raise TranslatorError('%s: only positional {} fields are supported' % what)
            if k >= len(node.args):
                raise TranslatorError('%s: more fields than arguments' % what)
            pieces.append(_slot(node.args[k], msg, excvars))
            k += 1
        if k != len(node.args):
            raise TranslatorError('%s: %d fields for %d arguments' % (what, k, len(node.args)))
        return pieces
    raise TranslatorError('%s: text %s is outside the supported forms' % (what, ast.unparse(node)))


ERR_ROLES = [('unknownObject', '.UnknownObject'), ('unknownMethod', '.UnknownMethod'), ('invalidArgs', '.InvalidArgs')]


def send_err_tables(fn, msg):
    """role -> (error name, pieces) for UnknownObject / UnknownMethod / InvalidArgs and the call in an except handler."""
    out = {}

    def visit(n, excvars):
        if isinstance(n, (ast.FunctionDef, ast.AsyncFunctionDef, ast.Lambda)) and n is not fn:
            return
        if isinstance(n, ast.ExceptHandler):
            excvars = excvars | ({n.name} if n.name else set())
            inside = True
        else:
            inside = None
        if isinstance(n, ast.Call) and isinstance(n.func, ast.Attribute) and n.func.attr == '_send_err' \
                and isinstance(n.func.value, ast.Name) and n.func.value.id == 'self' and len(n.args) == 3 \
                and _is_str(n.args[1]):
            name = n.args[1].value
            role = None
            for r, suffix in ERR_ROLES:
                if name.endswith(suffix):
                    role = r
            if role is None and excvars:
                role = 'managedFailed'
            if role is not None and role not in out:
                out[role] = (name, text_pieces(n.args[2], msg, excvars, '_send_err(%s)' % name))
        for c in ast.iter_child_nodes(n):
            visit(c, excvars)

    for st in fn.body:
        visit(st, set())
    for r in [r for r, _ in ERR_ROLES] + ['managedFailed']:
        if r not in out:
            raise TranslatorError('_send_err call for %s not found' % r)
    return out


# --------------------------------------------------------------------------- send_error
def send_error_tables(fn):
    inner = None
    for n in ast.walk(fn):
        if isinstance(n, ast.FunctionDef) and n.name == 'send_error':
            inner = n
    if inner is None:
        raise TranslatorError('nested function send_error not found')
    prefix = notice = fallback = None
    escape = None
    handler = None
    for n in ast.walk(inner):
        if not (isinstance(n, ast.Assign) and len(n.targets) == 1 and isinstance(n.targets[0], ast.Name)):
            continue
        tgt, v = n.targets[0].id, n.value
        if tgt == 'name' and isinstance(v, ast.BinOp) and isinstance(v.op, ast.Add) and _is_str(v.left):
            if ast.unparse(v.right) not in ('e.__class__.__name__', 'type(e).__name__'):
                raise TranslatorError('unexpected default error name: ' + ast.unparse(v))
            prefix = v.left.value
        elif tgt == 'name' and _is_str(v):
            fallback = v.value
        elif tgt == 'errMsg' and isinstance(v, ast.BinOp) and isinstance(v.op, ast.Add):
            l = v.left
            if not (isinstance(l, ast.BinOp) and isinstance(l.op, ast.Mod) and _is_str(l.left)
                    and ast.unparse(l.right) == 'name' and ast.unparse(v.right) == 'errMsg'):
                raise TranslatorError('unexpected invalid-name notice: ' + ast.unparse(v))
            notice = l.left.value
        elif tgt == 'errMsg':
            # errMsg = errMsg.replace(A, B)[.encode('utf-8', H).decode('utf-8')]
            c = v
            h = None
            if isinstance(c, ast.Call) and isinstance(c.func, ast.Attribute) and c.func.attr == 'decode':
                enc = c.func.value
                if not (isinstance(enc, ast.Call) and isinstance(enc.func, ast.Attribute) and enc.func.attr == 'encode'
                        and len(enc.args) == 2 and all(_is_str(a) for a in enc.args)
                        and enc.args[0].value.lower().replace('-', '') == 'utf8'
                        and [a.value.lower().replace('-', '') for a in c.args if _is_str(a)] == ['utf8']):
                    continue
                h = enc.args[1].value
                c = enc.func.value
            if isinstance(c, ast.Call) and isinstance(c.func, ast.Attribute) and c.func.attr == 'replace' \
                    and isinstance(c.func.value, ast.Name) and c.func.value.id == 'errMsg' and len(c.args) == 2 \
                    and all(_is_str(a) for a in c.args) and len(c.args[0].value) == 1:
                escape = (ord(c.args[0].value), c.args[1].value)
                handler = h
    if prefix is None or notice is None or fallback is None:
        raise TranslatorError('send_error: prefix=%r notice=%r fallback=%r' % (prefix, notice, fallback))
    if notice.count('%s') != 1 or notice.replace('%s', '').count('%') != 0:
        raise TranslatorError('invalid-name notice %r is not a one-%%s format' % notice)
    return prefix, notice, fallback, escape, handler


# --------------------------------------------------------------------------- executeMethod / flags
def attr_prefix(fn):
    for n in ast.walk(fn):
        if isinstance(n, ast.Call) and isinstance(n.func, ast.Name) and n.func.id == 'getattr' \
                and len(n.args) >= 2 and isinstance(n.args[1], ast.BinOp) and isinstance(n.args[1].op, ast.Add) \
                and _is_str(n.args[1].left):
            return n.args[1].left.value
    raise TranslatorError("getattr(self, '<prefix>' + methodName, ...) not found in executeMethod")


def unbound_exception(fn):
    names = set()
    for n in ast.walk(fn):
        if isinstance(n, ast.Raise) and n.exc is not None:
            e = n.exc.func if isinstance(n.exc, ast.Call) else n.exc
            if isinstance(e, ast.Name):
                names.add(e.id)
    if len(names) != 1:
        raise TranslatorError('executeMethod raises %r; expected one exception class' % sorted(names))
    return names.pop()


def caller_rule(fn):
    """`len(args) >= N and args[-1] == '<kw>'` -> (kw, N), where `args` must be
    `inspect.getfullargspec(<method>)[0]`: the NAMED POSITIONAL parameters (self included; no
    *args / keyword-only / **kwargs names) - that is what the model's `Func.params` holds."""
    src_ok = False
    for n in ast.walk(fn):
        if isinstance(n, ast.Assign) and len(n.targets) == 1 and isinstance(n.targets[0], ast.Name) \
                and n.targets[0].id == 'args' and isinstance(n.value, ast.Subscript):
            v = n.value
            idx = v.slice
            if isinstance(v.value, ast.Call) and ast.unparse(v.value.func) == 'inspect.getfullargspec' \
                    and isinstance(idx, ast.Constant) and idx.value == 0:
                src_ok = True
    if not src_ok:
        raise TranslatorError('_set_method_flags no longer takes `args` from inspect.getfullargspec(...)[0] '
                              '(the named positional parameters)')
    for n in ast.walk(fn):
        if isinstance(n, ast.BoolOp) and isinstance(n.op, ast.And) and len(n.values) == 2:
            a, b = n.values
            if isinstance(a, ast.Compare) and ast.unparse(a.left) == 'len(args)' and len(a.ops) == 1 \
                    and isinstance(a.ops[0], ast.GtE) and isinstance(a.comparators[0], ast.Constant) \
                    and isinstance(a.comparators[0].value, int) \
                    and isinstance(b, ast.Compare) and ast.unparse(b.left) == 'args[-1]' and len(b.ops) == 1 \
                    and isinstance(b.ops[0], ast.Eq) and _is_str(b.comparators[0]):
                return b.comparators[0].value, a.comparators[0].value
    raise TranslatorError("`len(args) >= N and args[-1] == '<keyword>'` not found in _set_method_flags")


# --------------------------------------------------------------------------- emission
def _lean_str(s):
    out = ['"']
    for ch in s:
        if ch == '\\':
            out.append('\\\\')
        elif ch == '"':
            out.append('\\"')
        elif ch == '\n':
            out.append('\\n')
        elif ord(ch) < 32 or ord(ch) == 127:
            out.append('\\x%02x' % ord(ch))
        else:
            out.append(ch)
    out.append('"')
    return ''.join(out)


def _lean_piece(p):
    kind, arg = p
    if kind == 'lit':
        return '.lit ' + _lean_str(arg)
    if kind in ('sigOr', 'ifaceOr', 'sigInOr'):
        return '.%s %s' % (kind, _lean_str(arg))
    return '.' + kind


def _lean_pieces(ps):
    return '[' + ', '.join(_lean_piece(p) for p in ps) + ']'


# --------------------------------------------------------------------------- probing route
# The same table derived by EXECUTING the dispatcher of the tree under test: scenario probes on the
# real `handleMethodCallMessage` with a stub connection.  Candidates for names the source chooses
# freely (built-in interface / member names, attribute prefix, caller keyword) are the string
# constants of txdbus/objects.py, whatever syntactic position they have.
MK_PATH, MK_CHILD, MK_IFACE, MK_MEMBER = '/zq7/xk9', '/zq7/xk9/ch', 'zq7.xk9.Iface', 'Zq7Member'
MK_SENDER = ':1.779'


class _Conn:
    def __init__(self):
        self.sent = []

    def sendMessage(self, m):
        from txdbus import message
        self.sent.append(message.parseMessage(m.rawMessage, []))


def _call(handler, path, member, iface=None, sig=None, body=None, expect=True, sender=MK_SENDER):
    """Send one call (real bytes, parsed back); returns (replies as parsed from the wire, exception escaping)."""
    from txdbus import marshal, message
    from harness import c10_locate as L
    raw = L.call_bytes(message, marshal, path, member, iface=iface, destination=':1.1', sender=sender,
                       signature=sig, body=body, expect_reply=expect, serial=4242, notes=ADVISORIES)
    msg = message.parseMessage(raw, [])
    handler.probe_conn.sent.clear()
    try:
        handler.handleMethodCallMessage(msg)
        exc = None
    except Exception as e:      # noqa
        exc = e
    return list(handler.probe_conn.sent), exc


def _mk_handler(objs):
    from txdbus import objects
    conn = _Conn()
    h = objects.DBusObjectHandler(conn)
    h.probe_conn = conn
    for o in objs:
        h.exportObject(o)
    conn.sent.clear()
    return h


def _string_constants(repo):
    tree = ast.parse(open(os.path.join(repo, 'txdbus', 'objects.py'), encoding='utf-8').read())
    out = []
    for n in ast.walk(tree):
        if isinstance(n, ast.Constant) and isinstance(n.value, str) and n.value not in out:
            out.append(n.value)
    return out


def _is_ret(r):
    from txdbus import message
    return isinstance(r, message.MethodReturnMessage)


def _is_err(r):
    from txdbus import message
    return isinstance(r, message.ErrorMessage)


def _pieces_from_text(text, slots, what):
    """Split `text` into literal pieces and slots; `slots`: kind -> marker value (distinct, unusual)."""
    pieces, i, lit = [], 0, ''
    order = sorted(slots.items(), key=lambda kv: -len(kv[1]))
    while i < len(text):
        for kind, val in order:
            if val and text.startswith(val, i):
                if lit:
                    pieces.append(('lit', lit))
                    lit = ''
                pieces.append((kind, None))
                i += len(val)
                break
        else:
            lit += text[i]
            i += 1
    if lit:
        pieces.append(('lit', lit))
    return pieces


def _default_of(pieces, kind, text_without, slots, what):
    """The text a slot shows when its value is None/'' : render the other pieces, the rest is the default."""
    idx = [k for k, p in enumerate(pieces) if p[0] == kind]
    if not idx:
        return None
    def render(ps):
        return ''.join(p[1] if p[0] == 'lit' else slots[p[0]] for p in ps)
    k = idx[0]
    pre, post = render(pieces[:k]), render([p for p in pieces[k + 1:] if p[0] != kind])
    if len(idx) > 1 or not (text_without.startswith(pre) and text_without.endswith(post)
                            and len(text_without) >= len(pre) + len(post)):
        raise TranslatorError('%s: cannot isolate the default of slot %s in %r' % (what, kind, text_without))
    return text_without[len(pre):len(text_without) - len(post)]


def probe_tables(repo):
    """Every entry of the table, derived by running the code."""
    from txdbus import objects, interface
    try:        # failures left in Deferreds by the probes (that IS the observation) must not be printed at GC time
        from twisted.logger import globalLogBeginner
        globalLogBeginner.beginLoggingTo([lambda e: None], redirectStandardIO=False, discardBuffer=True)
    except Exception:
        pass
    consts = _string_constants(repo)
    ident = [c for c in consts if c.isidentifier()]
    dotted = [c for c in consts if '.' in c and all(x.isidentifier() for x in c.split('.')) and ' ' not in c]
    log = []

    mk_if = interface.DBusInterface(MK_IFACE, interface.Method(MK_MEMBER, 'uay', 's'),
                                    interface.Method('Zq7NoArgs', '', ''), interface.Method('Zq7Unbound', '', ''),
                                    noRegister=True)

    # ---- attribute prefix: a constant P such that a method named P + member serves the member
    prefixes = []
    for cand in ident:
        ns = {'dbusInterfaces': [mk_if], cand + 'Zq7NoArgs': lambda self: log.append('run') or None}
        try:
            k = type('P', (objects.DBusObject,), ns)
            h = _mk_handler([k(MK_PATH)])
        except Exception:
            continue
        del log[:]
        _call(h, MK_PATH, 'Zq7NoArgs', MK_IFACE)
        if log:
            prefixes.append(cand)
    if len(prefixes) != 1:
        raise TranslatorError('attribute prefix not determined by probing: candidates %r' % (prefixes,))
    P = prefixes[0]

    def mkclass(**methods):
        ns = {'dbusInterfaces': [mk_if]}
        for n, f in methods.items():
            ns[P + n] = f
        return type('K', (objects.DBusObject,), ns)

    # ---- caller keyword: a constant K such that `def m(self, K=None)` receives the sender
    kws = []
    for cand in ident:
        got = []
        try:
            f = eval('lambda self, %s="<none>": _got.append(%s)' % (cand, cand), {'_got': got})
        except SyntaxError:
            continue
        h = _mk_handler([mkclass(Zq7NoArgs=f)(MK_PATH)])
        _call(h, MK_PATH, 'Zq7NoArgs', MK_IFACE)
        if got == [MK_SENDER]:
            kws.append(cand)
    if len(kws) != 1:
        raise TranslatorError('caller keyword not determined by probing: candidates %r' % (kws,))
    KW = kws[0]

    def caller_probe(src):
        got = []
        f = eval(src.replace('KW', KW), {'_got': got, '_M': '<none>'})
        h = _mk_handler([mkclass(Zq7NoArgs=f)(MK_PATH)])
        _call(h, MK_PATH, 'Zq7NoArgs', MK_IFACE)
        return got
    # the rule the model knows: the LAST NAMED POSITIONAL parameter is the keyword
    rule_obs = {
        'last': caller_probe('lambda self, KW=_M: _got.append(KW)'),
        'then *args': caller_probe('lambda self, KW=_M, *extra: _got.append(KW)'),
        'then **kw': caller_probe('lambda self, KW=_M, **options: _got.append(KW)'),
        'then kw-only': caller_probe('lambda self, KW=_M, *, flag=None: _got.append(KW)'),
        'not last': caller_probe('lambda self, KW=_M, other=None: _got.append(KW)'),
        'kw-only': caller_probe('lambda self, *a, KW=_M: _got.append(KW)'),
    }
    want = {'last': [MK_SENDER], 'then *args': [MK_SENDER], 'then **kw': [MK_SENDER], 'then kw-only': [MK_SENDER],
            'not last': ['<none>'], 'kw-only': ['<none>']}
    if rule_obs != want:
        raise TranslatorError('the rule that decides whether a method asks for the caller is not "last named '
                              'positional parameter is %r": probes gave %r' % (KW, rule_obs))
    # minimum length: `def m(KW)` (the instance itself lands in KW): with N <= 1 the call fails, with N >= 2 it runs
    got = []
    f = eval('lambda %s: _got.append("ran")' % KW, {'_got': got})
    h = _mk_handler([mkclass(Zq7NoArgs=f)(MK_PATH)])
    _call(h, MK_PATH, 'Zq7NoArgs', MK_IFACE)
    caller_min = 2 if got else 1

    # ---- built-in pairs: answered by the handler itself
    cls = mkclass(Zq7NoArgs=lambda self: None)
    h0 = _mk_handler([])
    h1 = _mk_handler([cls(MK_PATH), cls(MK_CHILD)])
    roles = {'peer': [], 'introspect': [], 'managed': []}
    sigs = {}
    for i in dotted:
        for m in ident:
            r0, e0 = _call(h0, '/zq7', m, i)
            if e0 is None and len(r0) == 1 and _is_ret(r0[0]):
                roles['peer'].append((i, m))
                continue
            ra, ea = _call(h1, '/zq7', m, i)            # an ancestor of exported objects, not exported itself
            rn, en = _call(h1, '/nope', m, i)           # not a node of the tree
            rx, exx = _call(h1, MK_PATH, m, i)          # exported, has a child
            if ea is None and len(ra) == 1 and _is_ret(ra[0]) and len(rn) == 1 and _is_err(rn[0]):
                roles['introspect'].append((i, m))
                sigs['introspect'] = ra[0].signature
            elif exx is None and len(rx) == 1 and _is_ret(rx[0]) and len(ra) == 1 and _is_err(ra[0]) \
                    and isinstance(rx[0].body, list) and len(rx[0].body) == 1 and isinstance(rx[0].body[0], dict) \
                    and MK_CHILD in rx[0].body[0]:
                roles['managed'].append((i, m))
                sigs['managed'] = rx[0].signature
    for r, v in roles.items():
        if len(v) != 1:
            raise TranslatorError('built-in %s call not determined by probing: candidates %r' % (r, v))
    builtin = {r: (v[0], sigs.get(r)) for r, v in roles.items()}

    # ---- lookup failures: names, texts, order of checks
    def one_err(replies, exc, what):
        if exc is not None or len(replies) != 1 or not _is_err(replies[0]):
            raise TranslatorError('probe %s: expected one error reply, got %r / %r' % (what, replies, exc))
        return replies[0].error_name, (replies[0].body[0] if replies[0].body else '')
    errs = {}
    # unknown object (also: unknown member and wrong signature at the same time -> which check is first)
    n, t = one_err(*_call(h1, '/nope/zz', 'Nope', 'no.such.Iface', 'ayu', [[], 1]), what='unknown object')
    slots = {'path': '/nope/zz', 'member': 'Nope', 'sigOr': 'ayu', 'ifaceOr': 'no.such.Iface'}
    errs['unknownObject'] = (n, _pieces_from_text(t, slots, n))
    # unknown method (member unknown AND signature wrong: member check first)
    n, t = one_err(*_call(h1, MK_PATH, 'Nope', MK_IFACE, 'ayu', [[], 1]), what='unknown method')
    slots = {'path': MK_PATH, 'member': 'Nope', 'sigOr': 'ayu', 'ifaceOr': MK_IFACE}
    ps = _pieces_from_text(t, slots, n)
    n2, t2 = one_err(*_call(h1, MK_PATH, 'Nope', None, None, None), what='unknown method without interface / signature')
    if n2 != n:
        raise TranslatorError('unknown member with and without interface give different errors: %r %r' % (n, n2))
    # defaults: one slot at a time
    _, t_sig = one_err(*_call(h1, MK_PATH, 'Nope', MK_IFACE, None, None), what='unknown method, no signature')
    _, t_if = one_err(*_call(h1, MK_PATH, 'Nope', None, 'ayu', [[], 1]), what='unknown method, no interface')
    out = []
    for p in ps:
        if p[0] == 'sigOr':
            out.append(('sigOr', _default_of(ps, 'sigOr', t_sig, slots, n)))
        elif p[0] == 'ifaceOr':
            out.append(('ifaceOr', _default_of(ps, 'ifaceOr', t_if, slots, n)))
        else:
            out.append(p)
    errs['unknownMethod'] = (n, out)
    um_name = n
    # invalid args: declared 'uay', sent 'ayu'
    n, t = one_err(*_call(h1, MK_PATH, MK_MEMBER, MK_IFACE, 'ayu', [[], 1]), what='invalid args')
    slots = {'path': MK_PATH, 'member': MK_MEMBER, 'sigOr': 'ayu', 'ifaceOr': MK_IFACE, 'sigInOr': 'uay'}
    ps = _pieces_from_text(t, slots, n)
    _, t_sig = one_err(*_call(h1, MK_PATH, MK_MEMBER, MK_IFACE, None, None), what='invalid args, no signature')
    _, t_in = one_err(*_call(h1, MK_PATH, 'Zq7NoArgs', MK_IFACE, 'ayu', [[], 1]), what='invalid args, none declared')
    slots_in = dict(slots, member='Zq7NoArgs')
    out = []
    for p in ps:
        if p[0] == 'sigOr':
            out.append(('sigOr', _default_of(ps, 'sigOr', t_sig, slots, n)))
        elif p[0] == 'sigInOr':
            out.append(('sigInOr', _default_of(ps, 'sigInOr', t_in, slots_in, n)))
        elif p[0] == 'ifaceOr':
            raise TranslatorError('InvalidArgs text names the interface: default not probed')
        else:
            out.append(p)
    errs['invalidArgs'] = (n, out)
    for k in ('unknownObject',):
        if any(p[0] in ('sigOr', 'ifaceOr', 'sigInOr') for p in errs[k][1]):
            raise TranslatorError('%s text uses a slot whose default was not probed' % k)
    # GetManagedObjects failure: a child whose property holds a value that does not marshal
    pif = interface.DBusInterface('zq7.xk9.Prop', interface.Property('p', 's', writeable=True), noRegister=True)

    def pinit(self, path):
        objects.DBusObject.__init__(self, path)
        self.p = 'v'
    PK = type('PK', (objects.DBusObject,), {'dbusInterfaces': [pif], 'p': objects.DBusProperty('p', 'zq7.xk9.Prop'),
                                            '__init__': pinit})
    par, chi = PK(MK_PATH), PK(MK_CHILD)
    hp = _mk_handler([par, chi])
    try:
        chi.p = None
    except Exception:
        pass
    from txdbus import message
    try:
        from harness import c10_locate as L
        message.MethodReturnMessage(1, body=[L.managed_objects(hp, MK_PATH, ADVISORIES)], destination=':1.1',
                                    signature=builtin['managed'][1])
        raise TranslatorError('probe: a None property value no longer makes the GetManagedObjects reply fail')
    except TranslatorError:
        raise
    except Exception as e:      # noqa
        exc_text = str(e)
    (mi, mm), _ = builtin['managed']
    replies, exc = _call(hp, MK_PATH, mm, mi)
    if exc is None and len(replies) == 1 and _is_err(replies[0]):
        managed_answered = True
        errs['managedFailed'] = (replies[0].error_name,
                                 _pieces_from_text(replies[0].body[0], {'path': MK_PATH, 'excText': exc_text}, 'managed'))
    elif exc is not None and not replies:
        # observed behaviour, recorded in the table: the library lets the exception escape and sends nothing
        # (the code before repair C10-02).  Not the translator's failure - the harness has the failing input.
        managed_answered = False
        errs['managedFailed'] = ('', [])
        ADVISORIES.append('a GetManagedObjects call whose reply cannot be built is NOT answered: %s escapes from '
                          'handleMethodCallMessage and nothing is sent (recorded as managedFailureAnswered := false)'
                          % type(exc).__name__)
    else:
        raise TranslatorError('a failing GetManagedObjects gave %r / %r: neither one error reply nor an escaping exception'
                              % (replies, exc))

    # ---- order of checks (each probe makes two checks fire; the reply tells which is first)
    order = []
    r, e = _call(h0, '/nope', *reversed(builtin['peer'][0]))
    order.append('ping') if (e is None and len(r) == 1 and _is_ret(r[0])) else None
    (ii, im), _ = builtin['introspect']
    r, e = _call(h1, '/zq7', im, ii)
    order.append('introspect') if (len(r) == 1 and _is_ret(r[0])) else None
    r, e = _call(h1, '/nope', mm, mi)
    if len(r) == 1 and _is_err(r[0]) and r[0].error_name == errs['unknownObject'][0]:
        order += ['object', 'managed']
    r, e = _call(h1, MK_PATH, 'Nope', mi)         # the managed interface with another member: ordinary lookup
    if len(r) == 1 and _is_err(r[0]) and r[0].error_name == um_name:
        order.append('method')
    order.append('signature')                     # (member unknown AND signature wrong gave UnknownMethod above)
    if order != ['ping', 'introspect', 'object', 'managed', 'method', 'signature']:
        raise TranslatorError('the order of the dispatcher\'s checks is not the one the model mirrors: %r' % (order,))

    # ---- reply / no-reply rule
    ran = []
    hk = _mk_handler([mkclass(Zq7NoArgs=lambda self: ran.append(1) or None)(MK_PATH)])
    r1, _ = _call(hk, MK_PATH, 'Zq7NoArgs', MK_IFACE, expect=True)
    r2, _ = _call(hk, MK_PATH, 'Zq7NoArgs', MK_IFACE, expect=False)
    r3, _ = _call(hk, '/nope', 'Zq7NoArgs', MK_IFACE, expect=False)
    reply_rule = {'dispatchedExpectingReplyAnswered': len(ran) == 2 and len(r1) == 1,
                  'dispatchedNoReplySilent': len(r2) == 0,
                  'lookupFailureAnsweredWhenNoReply': len(r3) == 1}

    # ---- send_error: prefix, unbound exception, fallback, notice, escape
    class Zq7Error(Exception):
        pass

    def raiser(e):
        def f(self):
            raise e
        return f
    hk = _mk_handler([mkclass(Zq7NoArgs=raiser(Zq7Error('Zq7 text')))(MK_PATH)])
    n, t = one_err(*_call(hk, MK_PATH, 'Zq7NoArgs', MK_IFACE), what='exception without dbusErrorName')
    if not n.endswith('Zq7Error') or t != 'Zq7 text':
        raise TranslatorError('probe: exception reply %r %r' % (n, t))
    prefix = n[:-len('Zq7Error')]
    n, t = one_err(*_call(hk, MK_PATH, 'Zq7Unbound', MK_IFACE), what='declared member nothing implements')
    if not n.startswith(prefix):
        raise TranslatorError('probe: unbound member answered %r' % n)
    unbound = n[len(prefix):]
    bad = Zq7Error('Zq7 text')
    bad.dbusErrorName = 'zq7 bad name'
    hk = _mk_handler([mkclass(Zq7NoArgs=raiser(bad))(MK_PATH)])
    fallback, t = one_err(*_call(hk, MK_PATH, 'Zq7NoArgs', MK_IFACE), what='invalid dbusErrorName')
    if not t.endswith('Zq7 text') or t.count('zq7 bad name') != 1:
        raise TranslatorError('probe: invalid-name notice %r' % t)
    head = t[:-len('Zq7 text')]
    pre, post = head.split('zq7 bad name')
    notice = pre.replace('%', '%%') + '%s' + post.replace('%', '%%')
    hk = _mk_handler([mkclass(Zq7NoArgs=raiser(Zq7Error('a\x00b')))(MK_PATH)])
    r, e = _call(hk, MK_PATH, 'Zq7NoArgs', MK_IFACE)
    if len(r) == 1 and _is_err(r[0]) and r[0].body[0].startswith('a') and r[0].body[0].endswith('b'):
        escape = (0, r[0].body[0][1:-1])
    elif len(r) == 0:
        escape = None
    else:
        raise TranslatorError('probe: NUL in the exception text gave %r' % (r,))
    # ... and does it cover the rejected error name quoted in the notice (it must: the name is user data too)
    bad2 = Zq7Error('Zq7 text')
    bad2.dbusErrorName = 'zq7\x00bad name'
    hk = _mk_handler([mkclass(Zq7NoArgs=raiser(bad2))(MK_PATH)])
    r, e = _call(hk, MK_PATH, 'Zq7NoArgs', MK_IFACE)
    if len(r) == 1 and _is_err(r[0]) and escape is not None and ('zq7' + escape[1] + 'bad name') in r[0].body[0]:
        escape_covers_name = True
    elif len(r) == 0:
        escape_covers_name = False      # observed: nothing is sent (recorded; the harness has the failing input)
        if escape is not None:
            ADVISORIES.append('an exception whose rejected dbusErrorName contains NUL gets NO reply although the text is '
                              'escaped: the escape does not cover the invalid-name notice (recorded as '
                              'escapeCoversInvalidName := false)')
    else:
        raise TranslatorError('probe: invalid dbusErrorName containing NUL gave %r' % (r,))
    hk = _mk_handler([mkclass(Zq7NoArgs=raiser(Zq7Error('a\udc80b')))(MK_PATH)])
    r, e = _call(hk, MK_PATH, 'Zq7NoArgs', MK_IFACE)
    mid = r[0].body[0][1:-1] if (len(r) == 1 and _is_err(r[0])) else None
    handler = {'\\udc80': 'backslashreplace', '?': 'replace', '': 'ignore', None: None}.get(mid, 'other:%r' % mid)

    return {'builtin': builtin, 'errs': errs, 'prefix': prefix, 'notice': notice, 'fallback': fallback,
            'escape': escape, 'enc_handler': handler, 'attr_prefix': P, 'unbound': unbound,
            'caller_kw': KW, 'caller_min': caller_min, 'order': order, 'reply_rule': reply_rule,
            'managed_answered': managed_answered, 'escape_covers_name': escape_covers_name}


def _norm_pieces(ps):
    """Merge adjacent literals, drop empty ones (the two routes must agree up to that)."""
    out = []
    for p in ps:
        if p[0] == 'lit':
            if not p[1]:
                continue
            if out and out[-1][0] == 'lit':
                out[-1] = ('lit', out[-1][1] + p[1])
                continue
        out.append(tuple(p))
    return out



def ast_tables(repo):
    """The AST route, component by component; returns (table entries recognised, [reasons a shape was not])."""
    src = open(os.path.join(repo, 'txdbus', 'objects.py'), encoding='utf-8').read()
    tree = ast.parse(src)
    got, missed = {}, []

    def attempt(keys, thunk):
        try:
            vals = thunk()
            for k, v in zip(keys, vals):
                got[k] = v
        except TranslatorError as e:
            missed.append('%s: %s' % ('/'.join(keys), e))
    try:
        handler = _find_class(tree, 'DBusObjectHandler')
        obj = _find_class(tree, 'DBusObject')
        fn = _find_func(handler, 'handleMethodCallMessage')
        msg = _msg_param(fn)
    except TranslatorError as e:
        return got, ['classes / handleMethodCallMessage: %s' % e]
    attempt(['prefix', 'notice', 'fallback', 'escape', 'enc_handler'], lambda: send_error_tables(fn))
    attempt(['builtin'], lambda: [builtin_tests(fn, msg)])
    attempt(['errs'], lambda: [send_err_tables(fn, msg)])
    attempt(['caller_kw', 'caller_min'], lambda: caller_rule(_find_func(obj, '_set_method_flags')))
    attempt(['attr_prefix'], lambda: [attr_prefix(_find_func(obj, 'executeMethod'))])
    attempt(['unbound'], lambda: [unbound_exception(_find_func(obj, 'executeMethod'))])
    return got, missed


def tables(repo):
    """Probing route (always), AST route as cross-check where its shapes are recognised."""
    del ADVISORIES[:]
    t = probe_tables(repo)
    a, missed = ast_tables(repo)
    for m in missed:
        ADVISORIES.append('source shape not recognised (%s); the entry was derived by probing the dispatcher' % m)

    def same(key, x, y):
        if x != y:
            raise TranslatorError('the AST route and the probing route disagree on %s: %r vs %r' % (key, x, y))
    for k in ('prefix', 'notice', 'fallback', 'attr_prefix', 'unbound', 'caller_kw'):
        if k in a:
            same(k, a[k], t[k])
    if a.get('escape') is not None:
        same('escape', a['escape'], t['escape'])
    elif 'escape' in a and t['escape'] is not None:
        ADVISORIES.append('send_error escapes the text (probed) but not with the statement shape the AST route knows '
                          '(`errMsg = errMsg.replace(c, r)...` after the name was chosen); where the escape is applied '
                          'was derived by probing')
    if 'enc_handler' in a and a.get('escape') is not None:
        same('enc_handler', a['enc_handler'], t['enc_handler'])
    if 'caller_min' in a:
        same('caller_min', max(a['caller_min'], 1), t['caller_min'])
    if 'builtin' in a:
        for r in ('peer', 'introspect', 'managed'):
            same('builtin pair ' + r, a['builtin'][r][0], t['builtin'][r][0])
            if a['builtin'][r][1] is not None:       # the reply may be built in a helper the AST route does not follow
                same('reply signature ' + r, a['builtin'][r][1], t['builtin'][r][1])
            elif t['builtin'][r][1] is not None:
                ADVISORIES.append('the %s reply is not built under its interface/member test; its signature was derived '
                                  'by probing the dispatcher' % r)
    if 'errs' in a:
        for r in ('unknownObject', 'managedFailed', 'unknownMethod', 'invalidArgs'):
            if r == 'managedFailed' and not t['managed_answered']:
                continue
            same('errs.' + r, (a['errs'][r][0], _norm_pieces(a['errs'][r][1])), (t['errs'][r][0], _norm_pieces(t['errs'][r][1])))
    for r in t['errs']:
        t['errs'][r] = (t['errs'][r][0], _norm_pieces(t['errs'][r][1]))
    return t


def emit(repo):
    t = tables(repo)
    o = []
    o.append('/-')
    o.append('GENERATED by tools/tables/c10_dispatch.py from txdbus/objects.py of the repository under test:')
    o.append('derived by probing the real DBusObjectHandler.handleMethodCallMessage with a stub connection and')
    o.append('cross-checked against the AST where its shape is recognised.  Do not edit: regenerated on every run.')
    o.append('-/')
    o.append('namespace Txdbus.Gen.Dispatch')
    o.append('')
    o.append('/-- A piece of an error text: literal characters or a slot filled from the call. -/')
    o.append('inductive Piece where')
    o.append('  | lit (s : String)')
    o.append('  | path                      -- msg.path')
    o.append('  | member                    -- msg.member')
    o.append("  | sigOr (d : String)        -- msg.signature or '<d>'")
    o.append("  | ifaceOr (d : String)      -- msg.interface or '<d>'")
    o.append("  | sigInOr (d : String)      -- <method>.sigIn or '<d>'")
    o.append('  | excText                   -- str(e) of the caught exception')
    o.append('  deriving DecidableEq, Repr')
    o.append('')
    for role, lean in (('peer', 'peerPair'), ('introspect', 'introspectPair'), ('managed', 'managedPair')):
        (i, m), sig = t['builtin'][role]
        o.append('/-- `msg.interface == I and msg.member == M` answered by the handler itself. -/')
        o.append('def %s : String × String := (%s, %s)' % (lean, _lean_str(i), _lean_str(m)))
    o.append('/-- `signature=` of the replies built under the Introspect / GetManagedObjects tests. -/')
    o.append('def introspectSig : String := ' + _lean_str(t['builtin']['introspect'][1] or ''))
    o.append('def managedSig : String := ' + _lean_str(t['builtin']['managed'][1] or ''))
    o.append('')
    for role in ('unknownObject', 'managedFailed', 'unknownMethod', 'invalidArgs'):
        name, pieces = t['errs'][role]
        o.append('/-- `self._send_err(msg, name, text)`: (error name, pieces of the text). -/')
        o.append('def %s : String × List Piece :=' % role)
        o.append('  (%s, %s)' % (_lean_str(name), _lean_pieces(pieces)))
    o.append('')
    o.append('/-- `name = <prefix> + e.__class__.__name__` in send_error. -/')
    o.append('def pyExceptionPrefix : String := ' + _lean_str(t['prefix']))
    o.append('/-- `errMsg = (<notice> % name) + errMsg` in send_error. -/')
    o.append('def invalidNameNotice : String := ' + _lean_str(t['notice']))
    o.append('/-- the name used when the chosen error name is not a valid DBus error name. -/')
    o.append('def invalidErrorName : String := ' + _lean_str(t['fallback']))
    o.append('/-- `errMsg = errMsg.replace(chr(c), r)` before the ErrorMessage is built (repair C10-01);')
    o.append('`none`: the text is used as it is. -/')
    if t['escape'] is None:
        o.append('def textEscape : Option (Nat × String) := none')
    else:
        o.append('def textEscape : Option (Nat × String) := some (%d, %s)' % (t['escape'][0], _lean_str(t['escape'][1])))
    o.append("/-- the `errors=` handler of the `.encode('utf-8', h).decode('utf-8')` that follows it (\"\" = absent). -/")
    o.append('def textEncodeHandler : String := ' + _lean_str(t['enc_handler'] or ''))
    o.append('/-- `getattr(self, <prefix> + methodName, None)` in executeMethod. -/')
    o.append('def attrPrefix : String := ' + _lean_str(t['attr_prefix']))
    o.append('/-- the exception executeMethod raises when nothing implements the member. -/')
    o.append('def unboundException : String := ' + _lean_str(t['unbound']))
    o.append('/-- `_set_method_flags`: `len(args) >= callerMinArgs and args[-1] == callerKeyword`. -/')
    o.append('def callerKeyword : String := ' + _lean_str(t['caller_kw']))
    o.append('def callerMinArgs : Nat := %d' % t['caller_min'])
    o.append('/-- The order of the dispatcher\'s checks, from probes in which two checks would fire. -/')
    o.append('def checkOrder : List String := [' + ', '.join(_lean_str(x) for x in t['order']) + ']')
    o.append('/-- Reply rule, from probes: a dispatched call that expects a reply is answered; a dispatched no-reply')
    o.append('call is not; a failed lookup is answered even when the call is flagged no-reply. -/')
    for k in ('dispatchedExpectingReplyAnswered', 'dispatchedNoReplySilent', 'lookupFailureAnsweredWhenNoReply'):
        o.append('def %s : Bool := %s' % (k, 'true' if t['reply_rule'][k] else 'false'))
    o.append('/-- A GetManagedObjects call whose reply cannot be built is answered with the `managedFailed` error')
    o.append('(repair C10-02); `false`: the exception escapes from the dispatcher and nothing is sent. -/')
    o.append('def managedFailureAnswered : Bool := %s' % ('true' if t['managed_answered'] else 'false'))
    o.append('/-- The text escape of send_error is applied to the WHOLE text it sends, including the rejected error name')
    o.append('quoted in the invalid-name notice; `false`: an invalid dbusErrorName containing NUL gets no reply. -/')
    o.append('def escapeCoversInvalidName : Bool := %s' % ('true' if t['escape_covers_name'] else 'false'))
    o.append('')
    o.append('end Txdbus.Gen.Dispatch')
    return '\n'.join(o) + '\n'


if __name__ == '__main__':
    import sys
    _repo = sys.argv[1] if len(sys.argv) > 1 else '/repo'
    sys.path.insert(0, os.path.dirname(os.path.dirname(os.path.dirname(os.path.abspath(__file__)))))
    from vlib import ctx as _ctx
    _ctx.use_repo(_repo)
    print(emit(_repo))
    for _a in ADVISORIES:
        print('-- advisory:', _a, file=sys.stderr)
