"""Translator for C13: reply constants, request flag bits, and the frame of the name tables.

Reads from the working tree under test and writes lean/TxdbusModel/Gen/C13Codes.lean:

  * the seven reply constants `NAME_*` of txdbus.client (runtime values);
  * the three flag masks the BUS honours in `Bus.dbus_RequestName`, found by RUNNING the real method on a
    real `Bus` with stand-in connections (which single bit of the first request lets which single bit of a
    second request take the name over; which single bit turns IN_QUEUE into IN_USE).  Only if that
    behavioural probe is inconclusive (e.g. on a tree where RequestName is broken) the AST shape
    `x = bool(flags & <literal>)` is used as a fallback;
  * the three flag masks the CLIENT sets in `DBusClientConnection.requestBusName`: the real method is
    called with a stubbed `callRemote` for the 8 boolean triples; the word must be the OR of three
    distinct single-argument words;
  * the reply codes `requestBusName(..., errbackUnlessAcquired=True)` lets through (run time, codes 0..15);
  * the reason text class of `error.FailedToAcquireName(name, code)` for codes 0..7;
  * FRAME (advisory only): uses of the attributes `busNames` and `clients` in txdbus/*.py outside the functions
    the Lean model mirrors by name, or writes (assignment, `del`, subscript store, mutating method call, also
    through a local alias) where the model has reads, are reported in ADVISORIES; the pipeline then runs the
    correspondence streams widened.  The streams compare both tables and every delivered message after every
    step, including calls of every other exported bus method, which is what validates the frame.

Every value has two routes where possible (named constant / AST shape, and behaviour of the real code); where
both work they must agree, a value found by neither is a TranslatorError, a value found only by probing adds an
advisory.
"""
import ast
import os

MODULE = 'TxdbusModel.Gen.C13Codes'

# Filled by emit(): a table entry whose source shape was not recognised and that was derived by probing the
# real code instead, or a structural observation (frame).  The pipeline then widens the correspondence streams.
ADVISORIES = []


class TranslatorError(Exception):
    pass


# ----------------------------------------------------------------------------- bus masks
class _Conn:
    """Stand-in for a BusProtocol as far as the name functions use it."""

    def __init__(self, k):
        self.uniqueName = ':1.%d' % k
        self.busNames = {}
        self.isConnected = True
        self.matchRules = set()

    def sendMessage(self, msg):
        pass


def _bus_with(n):
    from txdbus import bus
    b = bus.Bus()
    for k in range(1, n + 1):
        c = _Conn(k)
        b.clients[c.uniqueName] = c
    return b


def probe_bus():
    """Reply constants and flag masks from the BEHAVIOUR of the real dbus_RequestName / dbus_ReleaseName on a
    real Bus with stand-in connections.  -> dict, or None when the probe is inconclusive (e.g. a tree on
    which RequestName is broken)."""
    name = 'com.example.probe'
    try:
        b = _bus_with(3)
        acquired = b.dbus_RequestName(name, 0, dbusCaller=':1.1')          # free name
        already = b.dbus_RequestName(name, 0, dbusCaller=':1.1')           # the owner asks again
        in_queue = b.dbus_RequestName(name, 0, dbusCaller=':1.2')          # no flags: wait
        not_owner = b.dbus_ReleaseName(name, dbusCaller=':1.3')            # a stranger releases
        released = b.dbus_ReleaseName(name, dbusCaller=':1.1')             # the owner releases
        non_existent = b.dbus_ReleaseName('com.example.nobody', dbusCaller=':1.1')
        out = {'NAME_ACQUIRED': acquired, 'NAME_ALREADY_OWNER': already, 'NAME_IN_QUEUE': in_queue,
               'NAME_RELEASED': released, 'NAME_NON_EXISTENT': non_existent, 'NAME_NOT_OWNER': not_owner}
        if len({acquired, already, in_queue}) != 3 or len({released, non_existent, not_owner}) != 3:
            return None
        pairs = []
        for b1 in range(32):
            for b2 in range(32):
                b = _bus_with(2)
                if b.dbus_RequestName(name, 1 << b1, dbusCaller=':1.1') != acquired:
                    return None
                if b.dbus_RequestName(name, 1 << b2, dbusCaller=':1.2') == acquired:
                    pairs.append((b1, b2))
        if len(pairs) != 1:
            return None
        dnq = []
        for b3 in range(32):
            b = _bus_with(2)
            b.dbus_RequestName(name, 0, dbusCaller=':1.1')
            r = b.dbus_RequestName(name, 1 << b3, dbusCaller=':1.2')
            if r != in_queue:
                dnq.append((b3, r))
        if len(dnq) != 1 or dnq[0][1] in (acquired, already, in_queue):
            return None
        out['NAME_IN_USE'] = dnq[0][1]
        masks = (1 << pairs[0][0], 1 << pairs[0][1], 1 << dnq[0][0])
        if len(set(masks)) != 3:
            return None
        out['masks'] = masks
        for v in out.values():
            if v != masks and (not isinstance(v, int) or isinstance(v, bool) or v < 0):
                return None
        return out
    except Exception:
        return None


def bus_masks_by_ast(repo):
    src = open(os.path.join(repo, 'txdbus', 'bus.py'), encoding='utf-8').read()
    out = {}
    for node in ast.walk(ast.parse(src)):
        if isinstance(node, ast.FunctionDef) and node.name == 'dbus_RequestName':
            for st in node.body:
                if isinstance(st, ast.Assign) and len(st.targets) == 1 and isinstance(st.targets[0], ast.Name):
                    v = st.value
                    if (isinstance(v, ast.Call) and isinstance(v.func, ast.Name) and v.func.id == 'bool'
                            and len(v.args) == 1 and isinstance(v.args[0], ast.BinOp)
                            and isinstance(v.args[0].op, ast.BitAnd)
                            and isinstance(v.args[0].right, ast.Constant)
                            and isinstance(v.args[0].right.value, int)):
                        out[st.targets[0].id] = v.args[0].right.value
    try:
        return (out['allow_replacement'], out['replace_existing'], out['do_not_queue'])
    except KeyError:
        return None      # shape not recognised


# ----------------------------------------------------------------------------- client side
def _request_bus_name(a, r, d, e):
    from txdbus import client
    from twisted.internet import defer
    conn = client.DBusClientConnection.__new__(client.DBusClientConnection)
    seen = {}

    def callRemote(*args, **kw):
        seen['kw'] = kw
        seen['d'] = defer.Deferred()
        return seen['d']
    conn.callRemote = callRemote
    dres = conn.requestBusName('com.example.probe', allowReplacement=a, replaceExisting=r,
                               doNotQueue=d, errbackUnlessAcquired=e)
    return seen, dres


def client_masks():
    def word(a, r, d):
        seen, _ = _request_bus_name(a, r, d, False)
        body = seen['kw'].get('body')
        if not (isinstance(body, (list, tuple)) and len(body) == 2 and isinstance(body[1], int)):
            raise TranslatorError('requestBusName does not call RequestName with body [name, flags]')
        return body[1]
    if word(False, False, False) != 0:
        raise TranslatorError('requestBusName(False, False, False) sends a non-zero flag word')
    ma, mr, md = word(True, False, False), word(False, True, False), word(False, False, True)
    for a in (False, True):
        for r in (False, True):
            for d in (False, True):
                if word(a, r, d) != (ma if a else 0) | (mr if r else 0) | (md if d else 0):
                    raise TranslatorError('requestBusName flag word is not the OR of three masks')
    if 0 in (ma, mr, md):
        raise TranslatorError('requestBusName ignores one of its three flags')
    return ma, mr, md


def client_success_codes():
    ok = []
    for code in range(16):
        seen, dres = _request_bus_name(False, False, True, True)
        res = []
        dres.addCallbacks(lambda v: res.append(True), lambda f: res.append(False))
        seen['d'].callback(code)
        if res == [True]:
            ok.append(code)
        elif res != [False]:
            raise TranslatorError('requestBusName result neither fired nor failed for reply code %d' % code)
    return ok


# ----------------------------------------------------------------------------- frame
MUTATORS = {'pop', 'remove', 'append', 'insert', 'clear', 'extend', 'sort', 'reverse', 'popitem',
            'setdefault', 'update', '__setitem__', '__delitem__'}

# (class, function) -> may write
FRAME = {
    'busNames': {
        ('BusProtocol', 'connectionAuthenticated'): True,   # self.busNames = {}
        ('Bus', '__init__'): True,                          # self.busNames = {}
        ('Bus', 'dbus_RequestName'): True,
        ('Bus', 'dbus_ReleaseName'): True,
        ('Bus', 'clientDisconnected'): False,               # iterates proto.busNames.keys()
        ('Bus', 'sendMessage'): False,                      # destination lookup
        ('Bus', 'dbus_ListQueuedOwners'): False,
        ('Bus', 'dbus_GetNameOwner'): False,
        ('Bus', 'dbus_GetConnectionUnixUser'): False,
    },
    'clients': {
        ('Bus', '__init__'): True,
        ('Bus', 'clientConnected'): True,
        ('Bus', 'clientDisconnected'): True,
        ('Bus', 'sendMessage'): False,
        ('Bus', 'dbus_RequestName'): False,
        ('Bus', 'dbus_ReleaseName'): False,
        ('Bus', 'dbus_AddMatch'): False,
        ('Bus', 'dbus_RemoveMatch'): False,
        ('Bus', 'dbus_GetNameOwner'): False,
        ('Bus', 'dbus_GetConnectionUnixUser'): False,
    },
}


def _mentions(node, attr, tainted):
    for x in ast.walk(node):
        if isinstance(x, ast.Attribute) and x.attr == attr:
            return True
        if isinstance(x, ast.Name) and x.id in tainted:
            return True
    return False


def _direct(t, attr):
    while isinstance(t, ast.Subscript):
        t = t.value
    return isinstance(t, ast.Attribute) and t.attr == attr


def _writes_dict(func, attr):
    """Does the function assign / delete / mutate the dict `<obj>.attr` itself (not objects stored in it)?"""
    for st in ast.walk(func):
        if isinstance(st, (ast.Assign, ast.AugAssign, ast.AnnAssign)):
            targets = st.targets if isinstance(st, ast.Assign) else [st.target]
            if any(_direct(t, attr) for t in targets):
                return True
        if isinstance(st, ast.Delete) and any(_direct(t, attr) for t in st.targets):
            return True
        if (isinstance(st, ast.Call) and isinstance(st.func, ast.Attribute) and st.func.attr in MUTATORS
                and _direct(st.func.value, attr)):
            return True
    return False


def _writes(func, attr):
    """Does the function write the attribute `attr` (or something reached through it)?"""
    if attr == 'clients':
        return _writes_dict(func, attr)
    tainted = set()
    changed = True
    while changed:                       # local aliases: queue = self.busNames[name]; owner = queue[0] ...
        changed = False
        for st in ast.walk(func):
            if isinstance(st, ast.Assign) and _mentions(st.value, attr, tainted):
                for t in st.targets:
                    for x in ast.walk(t):
                        if isinstance(x, ast.Name) and x.id not in tainted:
                            tainted.add(x.id)
                            changed = True
    for st in ast.walk(func):
        if isinstance(st, (ast.Assign, ast.AugAssign, ast.AnnAssign)):
            targets = st.targets if isinstance(st, ast.Assign) else [st.target]
            for t in targets:
                if isinstance(t, (ast.Attribute, ast.Subscript)) and _mentions(t, attr, tainted):
                    return True
        if isinstance(st, ast.Delete):
            for t in st.targets:
                if _mentions(t, attr, tainted):
                    return True
        if (isinstance(st, ast.Call) and isinstance(st.func, ast.Attribute) and st.func.attr in MUTATORS
                and _mentions(st.func.value, attr, tainted)):
            return True
    return False


def frame(repo):
    """Structural observation, ADVISORY only: uses of `busNames` / `clients` outside the functions the Lean model
    mirrors (or writes where the model has reads).  Not an obligation: the correspondence streams compare the whole
    name table, every connection's own table and every delivered message after every step of every exported bus
    method (stream `names-random-bytes`, other-traffic steps included), so a refactoring that moves code into
    helpers is validated there; an advisory only widens those streams."""
    notes = []
    tdir = os.path.join(repo, 'txdbus')
    for fn in sorted(os.listdir(tdir)):
        if not fn.endswith('.py'):
            continue
        try:
            tree = ast.parse(open(os.path.join(tdir, fn), encoding='utf-8').read())
        except SyntaxError:
            continue
        funcs = []
        for node in tree.body:
            if isinstance(node, ast.ClassDef):
                for f in node.body:
                    funcs.append((node.name, f))
            else:
                funcs.append(('', node))
        for cls, f in funcs:
            fname = getattr(f, 'name', '<module level>')
            for attr in FRAME:
                if not any(isinstance(x, ast.Attribute) and x.attr == attr for x in ast.walk(f)):
                    continue
                key = (cls, fname)
                if fn != 'bus.py':
                    notes.append('%s: `%s` is used in %s.%s' % (fn, attr, cls, fname))
                elif key not in FRAME[attr]:
                    notes.append('bus.py: `%s` is %s in %s.%s, a function the C13 model does not mirror by name'
                                 % (attr, 'written' if _writes(f, attr) else 'read', cls, fname))
                elif _writes(f, attr) and not FRAME[attr][key]:
                    notes.append('bus.py: %s.%s writes `%s` (read-only when the model was written)' % (cls, fname, attr))
    return notes


# ----------------------------------------------------------------------------- emit
def emit(repo):
    from txdbus import client, error
    del ADVISORIES[:]
    consts = ['NAME_ACQUIRED', 'NAME_IN_QUEUE', 'NAME_IN_USE', 'NAME_ALREADY_OWNER',
              'NAME_RELEASED', 'NAME_NON_EXISTENT', 'NAME_NOT_OWNER']
    probed = probe_bus()
    # reply constants: route 1 = the module constants the code names, route 2 = what the real bus answers
    vals = {}
    for c in consts:
        v = getattr(client, c, None)
        named = isinstance(v, int) and not isinstance(v, bool) and v >= 0
        if named and probed is not None and probed[c] != v:
            raise TranslatorError('txdbus.client.%s = %r but the bus answers %r in that situation' % (c, v, probed[c]))
        if named:
            vals[c] = v
        elif probed is not None:
            vals[c] = probed[c]
            ADVISORIES.append('txdbus.client.%s is not a module constant any more; its value %d was taken from the '
                              'answer of the real bus' % (c, probed[c]))
        else:
            raise TranslatorError('%s: no module constant and the behavioural probe of the bus is inconclusive' % c)
    # flag masks of the bus: route 1 = AST shape `x = bool(flags & <literal>)`, route 2 = behavioural probe
    by_ast = bus_masks_by_ast(repo)
    by_probe = probed['masks'] if probed is not None else None
    if by_ast is not None and by_probe is not None and tuple(by_ast) != tuple(by_probe):
        raise TranslatorError('flag masks of dbus_RequestName: the source says %r, the behaviour of the bus %r'
                              % (by_ast, by_probe))
    if by_ast is not None:
        bm = by_ast
    elif by_probe is not None:
        bm = by_probe
        ADVISORIES.append('dbus_RequestName no longer decodes its flags as `x = bool(flags & <literal>)`; the three '
                          'masks %r were found by probing the real method' % (tuple(bm),))
    else:
        raise TranslatorError('flag masks of dbus_RequestName: shape not recognised and the behavioural probe is '
                              'inconclusive')
    cm = client_masks()
    succ = client_success_codes()
    ADVISORIES.extend(frame(repo))
    reasons = []
    for code in range(8):
        text = str(error.FailedToAcquireName('x', code))
        cls = 1 if text.endswith('Queued for name acquisition') else 2 if text.endswith('Name in use') else 0
        reasons.append((code, cls))

    def camel(c):
        parts = c.lower().split('_')
        return parts[0] + ''.join(p.capitalize() for p in parts[1:])

    L = []
    L.append('/-')
    L.append('GENERATED by tools/tables/c13_codes.py from txdbus/client.py, txdbus/bus.py and txdbus/error.py')
    L.append('of the repository under test.  Do not edit: regenerated on every run.')
    L.append('-/')
    L.append('namespace Txdbus.Gen.C13Codes')
    L.append('')
    L.append('/-! Reply constants of txdbus.client (RequestName: first four; ReleaseName: last three). -/')
    for c in consts:
        L.append('def %s : Nat := %d' % (camel(c), vals[c]))
    L.append('')
    L.append('/-! Masks honoured by `Bus.dbus_RequestName` (AST `bool(flags & m)` and/or behavioural probe). -/')
    L.append('def busMaskAllowReplacement : Nat := %d' % bm[0])
    L.append('def busMaskReplaceExisting : Nat := %d' % bm[1])
    L.append('def busMaskDoNotQueue : Nat := %d' % bm[2])
    L.append('')
    L.append('/-! Masks set by `DBusClientConnection.requestBusName` (the real method, stubbed callRemote). -/')
    L.append('def clientMaskAllowReplacement : Nat := %d' % cm[0])
    L.append('def clientMaskReplaceExisting : Nat := %d' % cm[1])
    L.append('def clientMaskDoNotQueue : Nat := %d' % cm[2])
    L.append('')
    L.append('/-- Reply codes (of 0..15) `requestBusName(..., errbackUnlessAcquired=True)` lets through. -/')
    L.append('def clientSuccessCodes : List Nat := [%s]' % ', '.join(str(x) for x in succ))
    L.append('')
    L.append('/-- `error.FailedToAcquireName(name, code)`: class of the reason text for codes 0..7')
    L.append('(1 = "Queued for name acquisition", 2 = "Name in use", 0 = "Unknown reason"/other). -/')
    L.append('def failedReasonClass : List (Nat × Nat) := [%s]'
             % ', '.join('(%d, %d)' % p for p in reasons))
    L.append('')
    L.append('end Txdbus.Gen.C13Codes')
    return '\n'.join(L) + '\n'
