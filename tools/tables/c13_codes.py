"""Translator for C13: RequestName / ReleaseName reply constants and request flag bits.

Reads from the working tree under test and writes lean/TxdbusModel/Gen/C13Codes.lean:

  * the seven reply constants `NAME_*` of txdbus.client (runtime values);
  * the three flag masks the BUS tests in `Bus.dbus_RequestName`
    (`allow_replacement = bool(flags & 0x1)` ...; from the AST of txdbus/bus.py);
  * the three flag masks the CLIENT sets in `DBusClientConnection.requestBusName`
    (`if allowReplacement: flags |= 0x1` ...; from the AST of txdbus/client.py);
  * the reply codes `requestBusName.on_result` accepts as success when
    `errbackUnlessAcquired` (the names compared with `r ==`; AST);
  * the reason text class of `error.FailedToAcquireName(name, code)` for codes 0..7
    (runtime: 1 = "Queued for name acquisition", 2 = "Name in use", 0 = anything else).

Anything that does not have this restricted shape raises TranslatorError (the table obligation
of C13 is then broken and the pipeline widens the search).
"""
import ast
import os

MODULE = 'TxdbusModel.Gen.C13Codes'


class TranslatorError(Exception):
    pass


def _func(tree, cls, name):
    for node in ast.walk(tree):
        if isinstance(node, ast.ClassDef) and node.name == cls:
            for f in node.body:
                if isinstance(f, ast.FunctionDef) and f.name == name:
                    return f
    raise TranslatorError('%s.%s not found' % (cls, name))


def _int_const(node, what):
    if isinstance(node, ast.Constant) and isinstance(node.value, int) and not isinstance(node.value, bool):
        return node.value
    raise TranslatorError('%s: expected an integer literal, found %s' % (what, ast.dump(node)))


def bus_masks(repo):
    """{'allow_replacement': m, 'replace_existing': m, 'do_not_queue': m} from `x = bool(flags & m)`."""
    src = open(os.path.join(repo, 'txdbus', 'bus.py'), encoding='utf-8').read()
    f = _func(ast.parse(src), 'Bus', 'dbus_RequestName')
    if [a.arg for a in f.args.args][:3] != ['self', 'name', 'flags']:
        raise TranslatorError('dbus_RequestName: unexpected parameters')
    out = {}
    for st in f.body:
        if isinstance(st, ast.Assign) and len(st.targets) == 1 and isinstance(st.targets[0], ast.Name):
            v = st.value
            if (isinstance(v, ast.Call) and isinstance(v.func, ast.Name) and v.func.id == 'bool'
                    and len(v.args) == 1 and isinstance(v.args[0], ast.BinOp)
                    and isinstance(v.args[0].op, ast.BitAnd)
                    and isinstance(v.args[0].left, ast.Name) and v.args[0].left.id == 'flags'):
                out[st.targets[0].id] = _int_const(v.args[0].right, 'flag mask of ' + st.targets[0].id)
    want = {'allow_replacement', 'replace_existing', 'do_not_queue'}
    if set(out) != want:
        raise TranslatorError('dbus_RequestName: flag decoding has changed shape: %r' % sorted(out))
    return out


def client_masks_and_success(repo):
    src = open(os.path.join(repo, 'txdbus', 'client.py'), encoding='utf-8').read()
    f = _func(ast.parse(src), 'DBusClientConnection', 'requestBusName')
    masks = {}
    for st in f.body:
        if (isinstance(st, ast.If) and isinstance(st.test, ast.Name) and len(st.body) == 1
                and not st.orelse and isinstance(st.body[0], ast.AugAssign)
                and isinstance(st.body[0].op, ast.BitOr)
                and isinstance(st.body[0].target, ast.Name) and st.body[0].target.id == 'flags'):
            masks[st.test.id] = _int_const(st.body[0].value, 'client flag of ' + st.test.id)
    if set(masks) != {'allowReplacement', 'replaceExisting', 'doNotQueue'}:
        raise TranslatorError('requestBusName: flag encoding has changed shape: %r' % sorted(masks))
    # flags starts at 0
    init = [st for st in f.body if isinstance(st, ast.Assign) and len(st.targets) == 1
            and isinstance(st.targets[0], ast.Name) and st.targets[0].id == 'flags']
    if len(init) != 1 or _int_const(init[0].value, 'initial flags') != 0:
        raise TranslatorError('requestBusName: flags is not initialised to 0')
    # on_result: `if errbackUnlessAcquired and not (r == A or r == B): raise ...; return r`
    onres = [st for st in f.body if isinstance(st, ast.FunctionDef) and st.name == 'on_result']
    if len(onres) != 1:
        raise TranslatorError('requestBusName: on_result not found')
    body = onres[0].body
    ok = (len(body) == 2 and isinstance(body[0], ast.If) and isinstance(body[1], ast.Return)
          and isinstance(body[1].value, ast.Name) and body[1].value.id == 'r'
          and isinstance(body[0].test, ast.BoolOp) and isinstance(body[0].test.op, ast.And)
          and len(body[0].test.values) == 2
          and isinstance(body[0].test.values[0], ast.Name)
          and body[0].test.values[0].id == 'errbackUnlessAcquired'
          and isinstance(body[0].test.values[1], ast.UnaryOp)
          and isinstance(body[0].test.values[1].op, ast.Not)
          and len(body[0].body) == 1 and isinstance(body[0].body[0], ast.Raise))
    if not ok:
        raise TranslatorError('requestBusName.on_result has changed shape')
    inner = body[0].test.values[1].operand
    terms = inner.values if (isinstance(inner, ast.BoolOp) and isinstance(inner.op, ast.Or)) else [inner]
    names = []
    for t in terms:
        if (isinstance(t, ast.Compare) and isinstance(t.left, ast.Name) and t.left.id == 'r'
                and len(t.ops) == 1 and isinstance(t.ops[0], ast.Eq)
                and isinstance(t.comparators[0], ast.Name)):
            names.append(t.comparators[0].id)
        else:
            raise TranslatorError('requestBusName.on_result: unexpected success test')
    return masks, names


def emit(repo):
    from txdbus import client, error
    consts = ['NAME_ACQUIRED', 'NAME_IN_QUEUE', 'NAME_IN_USE', 'NAME_ALREADY_OWNER',
              'NAME_RELEASED', 'NAME_NON_EXISTENT', 'NAME_NOT_OWNER']
    vals = {}
    for c in consts:
        v = getattr(client, c)
        if not isinstance(v, int) or isinstance(v, bool) or v < 0:
            raise TranslatorError('%s is not a natural number: %r' % (c, v))
        vals[c] = v
    bm = bus_masks(repo)
    cm, succ_names = client_masks_and_success(repo)
    succ = []
    for n in succ_names:
        if n not in vals:
            raise TranslatorError('on_result compares with unknown constant %s' % n)
        succ.append(vals[n])
    reasons = []
    for code in range(8):
        text = str(error.FailedToAcquireName('x', code))
        head = 'Failed to acquire bus name "x": '
        if not text.startswith(head):
            raise TranslatorError('FailedToAcquireName text has changed: %r' % text)
        tail = text[len(head):]
        cls = {'Queued for name acquisition': 1, 'Name in use': 2}.get(tail, 0)
        reasons.append((code, cls))

    def camel(c):
        parts = c.lower().split('_')
        return parts[0] + ''.join(p.capitalize() for p in parts[1:])

    L = []
    L.append('/-')
    L.append('GENERATED by tools/tables/c13_codes.py from txdbus/client.py, txdbus/bus.py and txdbus/error.py')
    L.append('of the repository under test.  Do not edit: regenerated on every run.')
    L.append('-/')
    L.append('namespace Txdbus.Gen.C13Codes')
    L.append('')
    L.append('/-! Reply constants of txdbus.client (RequestName: first four; ReleaseName: last three). -/')
    for c in consts:
        L.append('def %s : Nat := %d' % (camel(c), vals[c]))
    L.append('')
    L.append('/-! Masks tested by `Bus.dbus_RequestName` (`bool(flags & m)`). -/')
    L.append('def busMaskAllowReplacement : Nat := %d' % bm['allow_replacement'])
    L.append('def busMaskReplaceExisting : Nat := %d' % bm['replace_existing'])
    L.append('def busMaskDoNotQueue : Nat := %d' % bm['do_not_queue'])
    L.append('')
    L.append('/-! Masks set by `DBusClientConnection.requestBusName` (`flags |= m`, starting from 0). -/')
    L.append('def clientMaskAllowReplacement : Nat := %d' % cm['allowReplacement'])
    L.append('def clientMaskReplaceExisting : Nat := %d' % cm['replaceExisting'])
    L.append('def clientMaskDoNotQueue : Nat := %d' % cm['doNotQueue'])
    L.append('')
    L.append('/-- Reply codes `requestBusName.on_result` lets through when `errbackUnlessAcquired`. -/')
    L.append('def clientSuccessCodes : List Nat := [%s]' % ', '.join(str(x) for x in succ))
    L.append('')
    L.append('/-- `error.FailedToAcquireName(name, code)`: class of the reason text for codes 0..7')
    L.append('(1 = "Queued for name acquisition", 2 = "Name in use", 0 = "Unknown reason"/other). -/')
    L.append('def failedReasonClass : List (Nat × Nat) := [%s]'
             % ', '.join('(%d, %d)' % p for p in reasons))
    L.append('')
    L.append('end Txdbus.Gen.C13Codes')
    return '\n'.join(L) + '\n'
