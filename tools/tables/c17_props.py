"""Translator for C17: the tables behind remote property access.

Reads from the working tree under test (runtime objects) and writes lean/TxdbusModel/Gen/C17Props.lean:

  * `classMap`       - `marshal.variantClassMap` in dict order as (type code, builtin base 'int' | 'str',
                       the class's `dbusSignature`): what `_dbus_PropertyGet` / `getAllProperties` wrap a
                       stored value in when the declared signature is a key of the map;
  * `accessTable`    - `interface.Property(name, sig, readable=r, writeable=w).access` for the four (r, w);
  * `emitsTable`     - `interface.Property(..., emitsOnChange=e).emits` for e in True, False, 'invalidates',
                       'const' ('TypeError' when the constructor raises TypeError);
  * `objPathAllowed` - code points the object-path validator's negated character class allows (ranges),
                       obtained by running `marshal.invalid_obj_path_re` on every code point;
  * `propsIface`, `propsMethods`, `changedSignal` - the name, the three method signatures and the
                       PropertiesChanged signal signature of `DBusObject.dbusInterfaces[0]`.

Anything that does not have this shape raises TranslatorError (the table obligation of C17 is broken).
"""
import builtins

MODULE = 'TxdbusModel.Gen.C17Props'


class TranslatorError(Exception):
    pass


def _lstr(s):
    for ch in s:
        if not (32 <= ord(ch) < 127) or ch in '"\\':
            raise TranslatorError('unexpected character in %r' % (s,))
    return '"%s"' % s


def _lchar(c):
    if len(c) != 1 or not (32 < ord(c) < 127) or c in "'\\":
        raise TranslatorError('not a printable type code: %r' % (c,))
    return "'%s'" % c


def _ranges(cps):
    out = []
    for c in cps:
        if out and out[-1][1] == c - 1:
            out[-1][1] = c
        else:
            out.append([c, c])
    return out


def emit(repo):
    from txdbus import marshal, interface, objects

    # ---- variantClassMap
    rows = []
    for k, cls in marshal.variantClassMap.items():
        if not isinstance(k, str) or len(k) != 1:
            raise TranslatorError('variantClassMap key is not a one-character string: %r' % (k,))
        if not isinstance(cls, type):
            raise TranslatorError('variantClassMap[%r] is not a class' % (k,))
        bases = [b for b in cls.__mro__[1:] if b in (builtins.int, builtins.str)]
        if len(bases) != 1 or cls.__mro__[1] is not bases[0]:
            raise TranslatorError('variantClassMap[%r]: expected a direct subclass of int or str' % (k,))
        # the model takes `cls(v)` to be int(v) / str(v) with a class tag: nothing that changes construction
        # or conversion may be defined (a __repr__, __slots__, docstring ... is fine)
        changed = set(cls.__dict__) & {'__new__', '__init__', '__int__', '__index__', '__str__', '__bool__',
                                       '__float__', '__eq__', '__hash__'}
        if changed:
            raise TranslatorError('variantClassMap[%r]: class %s redefines %s'
                                  % (k, cls.__name__, sorted(changed)))
        tag = cls.__dict__.get('dbusSignature')
        if not isinstance(tag, str) or len(tag) != 1:
            raise TranslatorError('class %s: dbusSignature is not one character' % cls.__name__)
        rows.append('(%s, %s, %s)' % (_lchar(k), _lstr(bases[0].__name__), _lchar(tag)))

    # ---- interface.Property normalisation
    acc = []
    for r in (False, True):
        for w in (False, True):
            a = interface.Property('p', 's', readable=r, writeable=w).access
            if not isinstance(a, str):
                raise TranslatorError('Property.access is not a string')
            acc.append('(%s, %s, %s)' % (str(r).lower(), str(w).lower(), _lstr(a)))
    em = []
    for label, arg in (('True', True), ('False', False), ('invalidates', 'invalidates'), ('const', 'const')):
        try:
            e = interface.Property('p', 's', emitsOnChange=arg).emits
            if not isinstance(e, str):
                raise TranslatorError('Property.emits is not a string for %r' % (arg,))
        except TypeError:
            e = 'TypeError'
        em.append('(%s, %s)' % (_lstr(label), _lstr(e)))

    # ---- object path character class
    # `invalid_obj_path_re` is a private name a harmless commit may rename (harmless/C18h4): fast path when it
    # exists, otherwise the same table through the name-independent two-route derivation of Gen.Validators
    # (probing validateObjectPath + scanning the module for a compiled pattern that reproduces the behaviour).
    rx = getattr(marshal, 'invalid_obj_path_re', None)
    if rx is not None and hasattr(rx, 'search'):
        allowed = [c for c in range(0x110000) if rx.search(chr(c)) is None]
        rngs = _ranges(allowed)
    else:
        from tables import c18_validators
        rngs = [tuple(r) for r in c18_validators.object_path_allowed(repo)]
    if len(rngs) > 64:
        raise TranslatorError('object-path class has too many ranges')

    # ---- the Properties interface of DBusObject
    ifs = [i for i in objects.DBusObject.dbusInterfaces if i.name.endswith('.Properties')]
    if len(ifs) != 1:
        raise TranslatorError('DBusObject.dbusInterfaces: expected exactly one interface called *.Properties')
    pi = ifs[0]
    if pi.properties:
        raise TranslatorError('the Properties interface declares properties itself')
    meths = []
    for name in ('Get', 'Set', 'GetAll'):
        m = pi.methods.get(name)
        if m is None:
            raise TranslatorError('Properties.%s missing' % name)
        meths.append('(%s, %s, %s)' % (_lstr(name), _lstr(m.sigIn or ''), _lstr(m.sigOut or '')))
    sg = pi.signals.get('PropertiesChanged')
    if sg is None:
        raise TranslatorError('Properties.PropertiesChanged missing')

    return '''/-
GENERATED by tools/tables/c17_props.py from txdbus/marshal.py, txdbus/interface.py and txdbus/objects.py
of the repository under test.  Do not edit: regenerated on every run.
-/
namespace Txdbus.Gen.C17Props

/-- `marshal.variantClassMap` in dict order: (type code, builtin base of the class, its `dbusSignature`). -/
def classMap : List (Char × String × Char) :=
  [%s]

/-- `interface.Property(readable=r, writeable=w).access` as (r, w, access). -/
def accessTable : List (Bool × Bool × String) :=
  [%s]

/-- `interface.Property(emitsOnChange=e).emits` as (e, emits); "TypeError" when the constructor raises. -/
def emitsTable : List (String × String) :=
  [%s]

/-- Code points NOT matched by `invalid_obj_path_re` (the characters an object path may contain). -/
def objPathAllowed : List (Nat × Nat) :=
  [%s]

def propsIface : String := %s

/-- (method, input signature, output signature) of the Properties interface. -/
def propsMethods : List (String × String × String) :=
  [%s]

def changedSignalSig : String := %s

end Txdbus.Gen.C17Props
''' % (', '.join(rows), ', '.join(acc), ', '.join(em),
       ', '.join('(%d, %d)' % (a, b) for a, b in rngs), _lstr(pi.name), ', '.join(meths), _lstr(sg.sig))
