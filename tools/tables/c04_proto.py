"""Translator for C04 / C20: the constants of txdbus/protocol.py that the framing model depends on.

Runtime attributes of `BasicDBusProtocol`: MAX_AUTH_LENGTH, MSG_HDR_LEN, authDelimiter.
From the AST of `BasicDBusProtocol.dataReceived` (restricted shapes; anything else is a
TranslatorError, which breaks the table obligation and makes the pipeline widen its search):

  * `buffer_len >= N`                                   -> minHeader
  * `self._buffer[:1] != b'l'`                          -> littleMarker (the byte)
  * `body_len = struct.unpack(self._endian + 'I', self._buffer[a:b])[0]`   -> bodyLenSlice
  * `harr_len = struct.unpack(self._endian + 'I', self._buffer[a:b])[0]`   -> harrLenSlice
  * `padlen = hlen % M and (M - hlen % M) or 0`         -> padModulus
  * `len(self._buffer) > (self.MAX_AUTH_LENGTH + len(self.authDelimiter) - K)` -> remainderSlack K

and from `rawDBusMessageReceived` / message._hcode: the header code of `unix_fds`.
"""
import ast
import inspect
import textwrap

MODULE = 'TxdbusModel.Gen.ProtoConst'


class TranslatorError(Exception):
    pass


def _const_int(node):
    if isinstance(node, ast.Constant) and isinstance(node.value, int) and not isinstance(node.value, bool):
        return node.value
    raise TranslatorError('expected an integer literal, got %s' % ast.dump(node))


def _is_self_attr(node, name):
    return (isinstance(node, ast.Attribute) and node.attr == name
            and isinstance(node.value, ast.Name) and node.value.id == 'self')


def _slice_bounds(node):
    """self._buffer[a:b] -> (a, b)"""
    if not (isinstance(node, ast.Subscript) and _is_self_attr(node.value, '_buffer')
            and isinstance(node.slice, ast.Slice) and node.slice.step is None
            and node.slice.lower is not None and node.slice.upper is not None):
        raise TranslatorError('expected self._buffer[a:b], got %s' % ast.dump(node))
    return _const_int(node.slice.lower), _const_int(node.slice.upper)


def _unpack_slice(value):
    """struct.unpack(self._endian + 'I', self._buffer[a:b])[0] -> (a, b)"""
    ok = (isinstance(value, ast.Subscript) and _const_int(value.slice) == 0
          and isinstance(value.value, ast.Call)
          and isinstance(value.value.func, ast.Attribute) and value.value.func.attr == 'unpack'
          and isinstance(value.value.func.value, ast.Name) and value.value.func.value.id == 'struct'
          and len(value.value.args) == 2 and not value.value.keywords)
    if not ok:
        raise TranslatorError('expected struct.unpack(fmt, slice)[0], got %s' % ast.dump(value))
    fmt, sl = value.value.args
    if not (isinstance(fmt, ast.BinOp) and isinstance(fmt.op, ast.Add) and _is_self_attr(fmt.left, '_endian')
            and isinstance(fmt.right, ast.Constant) and fmt.right.value == 'I'):
        raise TranslatorError("expected the format self._endian + 'I', got %s" % ast.dump(fmt))
    return _slice_bounds(sl)


def tables(protocol, message):
    cls = protocol.BasicDBusProtocol
    t = {}
    for attr in ('MAX_AUTH_LENGTH', 'MSG_HDR_LEN'):
        v = getattr(cls, attr)
        if not (isinstance(v, int) and not isinstance(v, bool) and v >= 0):
            raise TranslatorError('%s is not a natural number: %r' % (attr, v))
        t[attr] = v
    d = cls.authDelimiter
    if not isinstance(d, bytes):
        raise TranslatorError('authDelimiter is not bytes: %r' % (d,))
    t['authDelimiter'] = list(d)

    src = textwrap.dedent(inspect.getsource(cls.dataReceived))
    fn = ast.parse(src).body[0]
    found = {}
    for node in ast.walk(fn):
        # buffer_len >= N
        if (isinstance(node, ast.Compare) and isinstance(node.left, ast.Name) and node.left.id == 'buffer_len'
                and len(node.ops) == 1 and isinstance(node.ops[0], ast.GtE)
                and isinstance(node.comparators[0], ast.Constant)):
            found.setdefault('minHeader', []).append(_const_int(node.comparators[0]))
        # self._buffer[:1] != b'l'
        if (isinstance(node, ast.Compare) and isinstance(node.left, ast.Subscript)
                and _is_self_attr(node.left.value, '_buffer') and len(node.ops) == 1
                and isinstance(node.ops[0], (ast.NotEq, ast.Eq))):
            sl = node.left.slice
            c = node.comparators[0]
            if not (isinstance(node.ops[0], ast.NotEq) and isinstance(sl, ast.Slice) and sl.lower is None
                    and sl.step is None and _const_int(sl.upper) == 1
                    and isinstance(c, ast.Constant) and isinstance(c.value, bytes) and len(c.value) == 1):
                raise TranslatorError('byte-order test has an unexpected shape: %s' % ast.dump(node))
            found.setdefault('littleMarker', []).append(c.value[0])
        if isinstance(node, ast.Assign) and len(node.targets) == 1 and isinstance(node.targets[0], ast.Name):
            name = node.targets[0].id
            if name == 'body_len':
                found.setdefault('bodyLenSlice', []).append(_unpack_slice(node.value))
            elif name == 'harr_len':
                found.setdefault('harrLenSlice', []).append(_unpack_slice(node.value))
            elif name == 'padlen':
                v = node.value
                # hlen % M and (M - hlen % M) or 0
                try:
                    assert isinstance(v, ast.BoolOp) and isinstance(v.op, ast.Or) and len(v.values) == 2
                    assert _const_int(v.values[1]) == 0
                    a = v.values[0]
                    assert isinstance(a, ast.BoolOp) and isinstance(a.op, ast.And) and len(a.values) == 2
                    m1, sub = a.values
                    assert isinstance(m1, ast.BinOp) and isinstance(m1.op, ast.Mod)
                    assert isinstance(m1.left, ast.Name) and m1.left.id == 'hlen'
                    M = _const_int(m1.right)
                    assert isinstance(sub, ast.BinOp) and isinstance(sub.op, ast.Sub) and _const_int(sub.left) == M
                    assert ast.dump(sub.right) == ast.dump(m1)
                except AssertionError:
                    raise TranslatorError('padlen has an unexpected shape: %s' % ast.dump(v))
                found.setdefault('padModulus', []).append(M)
            elif name == 'hlen':
                v = node.value
                if not (isinstance(v, ast.BinOp) and isinstance(v.op, ast.Add) and _is_self_attr(v.left, 'MSG_HDR_LEN')
                        and isinstance(v.right, ast.Name) and v.right.id == 'harr_len'):
                    raise TranslatorError('hlen has an unexpected shape: %s' % ast.dump(v))
        # len(self._buffer) > (self.MAX_AUTH_LENGTH + len(self.authDelimiter) - K)
        if (isinstance(node, ast.Compare) and isinstance(node.left, ast.Call)
                and isinstance(node.left.func, ast.Name) and node.left.func.id == 'len'
                and len(node.left.args) == 1 and _is_self_attr(node.left.args[0], '_buffer')):
            c = node.comparators[0]
            ok = (len(node.ops) == 1 and isinstance(node.ops[0], ast.Gt)
                  and isinstance(c, ast.BinOp) and isinstance(c.op, ast.Sub)
                  and isinstance(c.left, ast.BinOp) and isinstance(c.left.op, ast.Add)
                  and _is_self_attr(c.left.left, 'MAX_AUTH_LENGTH')
                  and isinstance(c.left.right, ast.Call) and isinstance(c.left.right.func, ast.Name)
                  and c.left.right.func.id == 'len' and _is_self_attr(c.left.right.args[0], 'authDelimiter'))
            if not ok:
                raise TranslatorError('remainder length check has an unexpected shape: %s' % ast.dump(node))
            found.setdefault('remainderSlack', []).append(_const_int(c.right))
        # len(line) > self.MAX_AUTH_LENGTH
        if (isinstance(node, ast.Compare) and isinstance(node.left, ast.Call)
                and isinstance(node.left.func, ast.Name) and node.left.func.id == 'len'
                and len(node.left.args) == 1 and isinstance(node.left.args[0], ast.Name)
                and node.left.args[0].id == 'line'):
            if not (len(node.ops) == 1 and isinstance(node.ops[0], ast.Gt)
                    and _is_self_attr(node.comparators[0], 'MAX_AUTH_LENGTH')):
                raise TranslatorError('line length check has an unexpected shape: %s' % ast.dump(node))
            found.setdefault('lineCheck', []).append(1)
    for k in ('minHeader', 'littleMarker', 'bodyLenSlice', 'harrLenSlice', 'padModulus', 'remainderSlack',
              'lineCheck'):
        if len(found.get(k, [])) != 1:
            raise TranslatorError('dataReceived: expected exactly one %s, found %r' % (k, found.get(k)))
        t[k] = found[k][0]

    codes = [c for c, n in message._hcode.items() if n == 'unix_fds']
    if len(codes) != 1:
        raise TranslatorError('message._hcode: expected exactly one code for unix_fds, found %r' % (codes,))
    t['unixFdsCode'] = codes[0]
    return t


def emit(repo):
    from txdbus import protocol, message
    t = tables(protocol, message)
    out = []
    out.append('/-')
    out.append('GENERATED by tools/tables/c04_proto.py from txdbus/protocol.py (class attributes of')
    out.append('BasicDBusProtocol and the AST of dataReceived) and txdbus/message.py of the repository under')
    out.append('test.  Do not edit: regenerated on every run.')
    out.append('-/')
    out.append('namespace Txdbus.Gen.ProtoConst')
    out.append('')
    out.append('/-- `BasicDBusProtocol.MAX_AUTH_LENGTH` -/')
    out.append('def maxAuthLength : Nat := %d' % t['MAX_AUTH_LENGTH'])
    out.append('/-- `BasicDBusProtocol.MSG_HDR_LEN` -/')
    out.append('def msgHdrLen : Nat := %d' % t['MSG_HDR_LEN'])
    out.append('/-- `BasicDBusProtocol.authDelimiter` -/')
    out.append('def authDelimiter : List UInt8 := [%s]' % ', '.join(str(b) for b in t['authDelimiter']))
    out.append('/-- `buffer_len >= N` in the binary branch of dataReceived -/')
    out.append('def minHeader : Nat := %d' % t['minHeader'])
    out.append("/-- the byte compared with `self._buffer[:1]` to select little endian -/")
    out.append('def littleMarker : UInt8 := %d' % t['littleMarker'])
    out.append('/-- bounds of the slice unpacked into `body_len` -/')
    out.append('def bodyLenSlice : Nat × Nat := (%d, %d)' % t['bodyLenSlice'])
    out.append('/-- bounds of the slice unpacked into `harr_len` -/')
    out.append('def harrLenSlice : Nat × Nat := (%d, %d)' % t['harrLenSlice'])
    out.append('/-- modulus of the header padding computation -/')
    out.append('def padModulus : Nat := %d' % t['padModulus'])
    out.append('/-- `K` in `len(self._buffer) > MAX_AUTH_LENGTH + len(authDelimiter) - K` -/')
    out.append('def remainderSlack : Nat := %d' % t['remainderSlack'])
    out.append('/-- header field code of `unix_fds` in `message._hcode` -/')
    out.append('def unixFdsCode : Nat := %d' % t['unixFdsCode'])
    out.append('')
    out.append('end Txdbus.Gen.ProtoConst')
    return '\n'.join(out) + '\n'
