"""Translator for C04 / C20: the constants of txdbus/protocol.py that the framing model depends on.

Runtime attributes of `BasicDBusProtocol`: MAX_AUTH_LENGTH, MSG_HDR_LEN, authDelimiter.
From the AST of `BasicDBusProtocol.dataReceived` (restricted shapes; anything else is a
TranslatorError, which breaks the table obligation and makes the pipeline widen its search):

  * `buffer_len >= N`                                   -> minHeader
  * `self._buffer[:1] != b'l'`                          -> littleMarker (the byte)
  * `body_len = struct.unpack(self._endian + 'I', self._buffer[a:b])[0]`   -> bodyLenSlice
  * `harr_len = struct.unpack(self._endian + 'I', self._buffer[a:b])[0]`   -> harrLenSlice
  * `padlen = hlen % M and (M - hlen % M) or 0`         -> padModulus
  * `len(self._buffer) > (self.MAX_AUTH_LENGTH + len(self.authDelimiter) - K)` -> remainderSlack K

and from `rawDBusMessageReceived` / message._hcode: the header code of `unix_fds`.
"""
import ast
import inspect
import textwrap

MODULE = 'TxdbusModel.Gen.ProtoConst'


class TranslatorError(Exception):
    pass


def _const_int(node):
    if isinstance(node, ast.Constant) and isinstance(node.value, int) and not isinstance(node.value, bool):
        return node.value
    raise TranslatorError('expected an integer literal, got %s' % ast.dump(node))


def _is_self_attr(node, name):
    return (isinstance(node, ast.Attribute) and node.attr == name
            and isinstance(node.value, ast.Name) and node.value.id == 'self')


def _slice_bounds(node):
    """self._buffer[a:b] -> (a, b)"""
    if not (isinstance(node, ast.Subscript) and _is_self_attr(node.value, '_buffer')
            and isinstance(node.slice, ast.Slice) and node.slice.step is None
            and node.slice.lower is not None and node.slice.upper is not None):
        raise TranslatorError('expected self._buffer[a:b], got %s' % ast.dump(node))
    return _const_int(node.slice.lower), _const_int(node.slice.upper)


def _unpack_slice(value):
    """struct.unpack(self._endian + 'I', self._buffer[a:b])[0] -> (a, b)"""
    ok = (isinstance(value, ast.Subscript) and _const_int(value.slice) == 0
          and isinstance(value.value, ast.Call)
          and isinstance(value.value.func, ast.Attribute) and value.value.func.attr == 'unpack'
          and isinstance(value.value.func.value, ast.Name) and value.value.func.value.id == 'struct'
          and len(value.value.args) == 2 and not value.value.keywords)
    if not ok:
        raise TranslatorError('expected struct.unpack(fmt, slice)[0], got %s' % ast.dump(value))
    fmt, sl = value.value.args
    if not (isinstance(fmt, ast.BinOp) and isinstance(fmt.op, ast.Add) and isinstance(fmt.left, ast.Attribute)
            and isinstance(fmt.left.value, ast.Name) and fmt.left.value.id == 'self'
            and isinstance(fmt.right, ast.Constant) and fmt.right.value == 'I'):
        raise TranslatorError("expected the format self._endian + 'I', got %s" % ast.dump(fmt))
    return _slice_bounds(sl)


def tables(protocol, message):
    cls = protocol.BasicDBusProtocol
    t = {}
    for attr in ('MAX_AUTH_LENGTH', 'MSG_HDR_LEN'):
        v = getattr(cls, attr)
        if not (isinstance(v, int) and not isinstance(v, bool) and v >= 0):
            raise TranslatorError('%s is not a natural number: %r' % (attr, v))
        t[attr] = v
    d = cls.authDelimiter
    if not isinstance(d, bytes):
        raise TranslatorError('authDelimiter is not bytes: %r' % (d,))
    t['authDelimiter'] = list(d)

    found, how = {}, {}
    try:
        _ast_facts(cls, found)
    except TranslatorError as e:
        # a shape this translator does not know: fall back to probing the behaviour (below)
        found = {}
        how['ast'] = 'not recognised (%s)' % (str(e)[:120],)
    keys = ('minHeader', 'littleMarker', 'bodyLenSlice', 'harrLenSlice', 'padModulus', 'remainderSlack',
            'lineCheck')
    probed = None
    for k in keys:
        if len(found.get(k, [])) == 1:
            t[k] = found[k][0]
            how[k] = 'AST'
        else:
            if probed is None:
                probed = _probe(protocol, t)
            if probed.get(k) is None:
                raise TranslatorError('dataReceived: %s neither recognised in the AST (%r) nor measurable by probing'
                                      % (k, found.get(k)))
            t[k] = probed[k]
            how[k] = 'probed'
    # control-flow facts: always measured on the running code (an AST reading is kept as a comment)
    flow = _probe_flow(protocol, t)
    t.update(flow)
    # the framing model never consults MAX_MSG_LENGTH: does dataReceived mention it at all?
    try:
        src = textwrap.dedent(inspect.getsource(cls.dataReceived))
        t['dataReceivedUsesMaxMsgLength'] = any(isinstance(n, ast.Attribute) and n.attr == 'MAX_MSG_LENGTH'
                                                for n in ast.walk(ast.parse(src)))
    except (OSError, SyntaxError) as e:
        raise TranslatorError('source of dataReceived not available: %r' % (e,))
    t['how'] = how

    # message._hcode through public behaviour (harness/c03_probe.py: the private name is only the fast path)
    from harness import c03_probe as _P
    from txdbus import marshal as _marshal_mod
    try:
        _hc = _P.field_by_code(message, _marshal_mod, _P.header_signature(message, _marshal_mod))
    except _P.ProbeError as e:
        raise TranslatorError(str(e))
    codes = [c for c, n in _hc.items() if n == 'unix_fds']
    if len(codes) != 1:
        raise TranslatorError('message._hcode: expected exactly one code for unix_fds, found %r' % (codes,))
    t['unixFdsCode'] = codes[0]
    return t


def _ast_facts(cls, found):
    src = textwrap.dedent(inspect.getsource(cls.dataReceived))
    fn = ast.parse(src).body[0]
    for node in ast.walk(fn):
        try:
            # buffer_len >= N
            if (isinstance(node, ast.Compare) and isinstance(node.left, ast.Name) and node.left.id == 'buffer_len'
                    and len(node.ops) == 1 and isinstance(node.ops[0], ast.GtE)
                    and isinstance(node.comparators[0], ast.Constant)):
                found.setdefault('minHeader', []).append(_const_int(node.comparators[0]))
            # self._buffer[:1] != b'l'
            if (isinstance(node, ast.Compare) and isinstance(node.left, ast.Subscript)
                    and _is_self_attr(node.left.value, '_buffer') and len(node.ops) == 1
                    and isinstance(node.ops[0], (ast.NotEq, ast.Eq))):
                sl = node.left.slice
                c = node.comparators[0]
                if not (isinstance(node.ops[0], ast.NotEq) and isinstance(sl, ast.Slice) and sl.lower is None
                        and sl.step is None and _const_int(sl.upper) == 1
                        and isinstance(c, ast.Constant) and isinstance(c.value, bytes) and len(c.value) == 1):
                    raise TranslatorError('byte-order test has an unexpected shape: %s' % ast.dump(node))
                found.setdefault('littleMarker', []).append(c.value[0])
            if isinstance(node, ast.Assign) and len(node.targets) == 1 and isinstance(node.targets[0], ast.Name):
                name = node.targets[0].id
                if name == 'body_len':
                    found.setdefault('bodyLenSlice', []).append(_unpack_slice(node.value))
                elif name == 'harr_len':
                    found.setdefault('harrLenSlice', []).append(_unpack_slice(node.value))
                elif name == 'padlen':
                    v = node.value
                    # hlen % M and (M - hlen % M) or 0
                    try:
                        assert isinstance(v, ast.BoolOp) and isinstance(v.op, ast.Or) and len(v.values) == 2
                        assert _const_int(v.values[1]) == 0
                        a = v.values[0]
                        assert isinstance(a, ast.BoolOp) and isinstance(a.op, ast.And) and len(a.values) == 2
                        m1, sub = a.values
                        assert isinstance(m1, ast.BinOp) and isinstance(m1.op, ast.Mod)
                        assert isinstance(m1.left, ast.Name) and m1.left.id == 'hlen'
                        M = _const_int(m1.right)
                        assert isinstance(sub, ast.BinOp) and isinstance(sub.op, ast.Sub) and _const_int(sub.left) == M
                        assert ast.dump(sub.right) == ast.dump(m1)
                    except AssertionError:
                        raise TranslatorError('padlen has an unexpected shape: %s' % ast.dump(v))
                    found.setdefault('padModulus', []).append(M)
                elif name == 'hlen':
                    v = node.value
                    if not (isinstance(v, ast.BinOp) and isinstance(v.op, ast.Add) and _is_self_attr(v.left, 'MSG_HDR_LEN')
                            and isinstance(v.right, ast.Name) and v.right.id == 'harr_len'):
                        raise TranslatorError('hlen has an unexpected shape: %s' % ast.dump(v))
            # len(self._buffer) > (self.MAX_AUTH_LENGTH + len(self.authDelimiter) - K)
            if (isinstance(node, ast.Compare) and isinstance(node.left, ast.Call)
                    and isinstance(node.left.func, ast.Name) and node.left.func.id == 'len'
                    and len(node.left.args) == 1 and _is_self_attr(node.left.args[0], '_buffer')):
                c = node.comparators[0]
                ok = (len(node.ops) == 1 and isinstance(node.ops[0], ast.Gt)
                      and isinstance(c, ast.BinOp) and isinstance(c.op, ast.Sub)
                      and isinstance(c.left, ast.BinOp) and isinstance(c.left.op, ast.Add)
                      and _is_self_attr(c.left.left, 'MAX_AUTH_LENGTH')
                      and isinstance(c.left.right, ast.Call) and isinstance(c.left.right.func, ast.Name)
                      and c.left.right.func.id == 'len' and _is_self_attr(c.left.right.args[0], 'authDelimiter'))
                if not ok:
                    raise TranslatorError('remainder length check has an unexpected shape: %s' % ast.dump(node))
                found.setdefault('remainderSlack', []).append(_const_int(c.right))
            # len(line) > self.MAX_AUTH_LENGTH
            if (isinstance(node, ast.Compare) and isinstance(node.left, ast.Call)
                    and isinstance(node.left.func, ast.Name) and node.left.func.id == 'len'
                    and len(node.left.args) == 1 and isinstance(node.left.args[0], ast.Name)
                    and node.left.args[0].id == 'line'):
                if not (len(node.ops) == 1 and isinstance(node.ops[0], ast.Gt)
                        and _is_self_attr(node.comparators[0], 'MAX_AUTH_LENGTH')):
                    raise TranslatorError('line length check has an unexpected shape: %s' % ast.dump(node))
                found.setdefault('lineCheck', []).append(1)
        except TranslatorError as e:
            # this node has a shape the translator does not know: the constant it would have given is probed
            found.setdefault('_unrecognised', []).append(str(e)[:100])


# ----------------------------------------------------------------------------- behavioural fallback
def _mk(protocol, authenticated, script=''):
    """A BasicDBusProtocol on a StringTransport with a scripted stub authenticator."""
    from twisted.internet.testing import StringTransport
    from zope.interface import implementer
    from txdbus import error

    @implementer(protocol.IDBusAuthenticator)
    class Stub:
        def __init__(self, *a):
            self.i, self.ok = 0, False

        def beginAuthentication(self, p):
            pass

        def handleAuthMessage(self, line):
            o = script[self.i] if self.i < len(script) else 'c'
            self.i += 1
            if o == 'f':
                raise error.DBusAuthenticationFailed('x')
            self.ok = (o == 's')

        def authenticationSucceeded(self):
            return self.ok

        def getGUID(self):
            return b'g'

    class P(protocol.BasicDBusProtocol):
        authenticator = Stub

        def rawDBusMessageReceived(self, raw):
            self.got.append(bytes(raw))
    p = P()
    p.got = []
    p.makeConnection(StringTransport())
    if authenticated:
        p._authenticated = True
    return p


def _next_len(protocol, header, limit=40 * 2 ** 20):
    p = _mk(protocol, True)
    p.dataReceived(bytes(header))
    # fast path: the cached length where we know it (a message that is already complete has been delivered
    # and the cache reset)
    n = getattr(p, '_nextMsgLen', None)
    if isinstance(n, int) and not isinstance(n, bool):
        return n or (len(p.got[0]) if p.got else 0)
    # behavioural: feed filler bytes until the message announced by this header is delivered; its length is the
    # announced length (bounded: lengths above 40 MB are not measured this way)
    fed = len(header)
    chunk = 64
    while not p.got and fed < limit:
        # filler 0xff: what is left over behind the message announces an enormous length and just stays buffered
        p.dataReceived(b'\xff' * chunk)
        fed += chunk
        chunk = min(chunk * 2, 2 ** 22)
    return len(p.got[0]) if p.got else 0


def _probe(protocol, t):
    """Measure the constants of the binary branch and of the line-length checks on the running code."""
    r = {}
    base = bytearray(16)
    # little marker: first bytes under which byte 4 is the LOW byte of the body length
    lit = []
    for b0 in range(256):
        h = bytearray(base)
        h[0] = b0
        h[4] = 1
        if _next_len(protocol, h, limit=256) == t['MSG_HDR_LEN'] + 1:
            lit.append(b0)
    if len(lit) == 1:
        r['littleMarker'] = lit[0]
        L = lit[0]
        z = bytearray(base)
        z[0] = L
        n0 = _next_len(protocol, z)
        # which byte positions feed a length, and with which weight 256^j: set one byte to 1 and look at the
        # announced length.  +256^j (j >= 1): a higher byte of either length; +1: the low byte of the body
        # length; +1+padding (2..63): the low byte of the header-array length
        weight, low_body, low_harr = {}, [], []
        for i in range(1, 16):
            h = bytearray(z)
            h[i] = 1
            d = _next_len(protocol, h) - n0
            if d == 1:
                weight[i] = 0
                low_body.append(i)
            elif 1 < d < 64:
                weight[i] = 0
                low_harr.append(i)
            else:
                for j in range(1, 4):
                    if d == 256 ** j:
                        weight[i] = j
        for name, lows in (('bodyLenSlice', low_body), ('harrLenSlice', low_harr)):
            if len(lows) == 1:
                a0, n = lows[0], 0
                while weight.get(a0 + n) == n:
                    n += 1
                if n == 4:                      # a UINT32; anything else is not measured reliably
                    r[name] = (a0, a0 + n)
        if 'harrLenSlice' in r:
            a = r['harrLenSlice'][0]
            pads = []
            for v in range(0, 64):
                h = bytearray(z)
                h[a] = v
                pads.append(_next_len(protocol, h) - t['MSG_HDR_LEN'] - v)
            for M in range(1, 33):
                if all(pads[v] == (-(t['MSG_HDR_LEN'] + v)) % M for v in range(64)):
                    r['padModulus'] = M
                    break
        # smallest number of buffered bytes at which the length is computed
        for n in range(0, 40):
            p = _mk(protocol, True)
            hh = bytearray(40)
            hh[0] = L
            hh[4] = 200
            p.dataReceived(bytes(hh[:n]))
            if getattr(p, '_nextMsgLen', 0) != 0:       # fast path: the cache shows when the length was computed
                r['minHeader'] = n
                break
        if 'minHeader' not in r:
            # behavioural: the smallest prefix of (a complete 16-byte message + filler) at which the code either
            # delivers the message or trips over a header it computed from too few bytes
            stream = bytes([L]) + bytes(15) + b'\xff' * 24
            for n in range(1, 40):
                p = _mk(protocol, True)
                try:
                    p.dataReceived(stream[:n])
                except Exception:
                    r['minHeader'] = n
                    break
                if p.got:
                    r['minHeader'] = n
                    break
    # line mode: remainder limit and line limit
    MAX, D = t['MAX_AUTH_LENGTH'], len(t['authDelimiter'])

    def closes_remainder(n):
        p = _mk(protocol, False)
        p.dataReceived(b'a' * n)
        return p.transport.disconnecting

    def closes_line(n):
        p = _mk(protocol, False)
        p.dataReceived(b'a' * n + bytes(t['authDelimiter']))
        return p.transport.disconnecting
    lo = [n for n in range(MAX - 3, MAX + D + 4) if closes_remainder(n)]
    if lo and all(closes_remainder(n) for n in range(lo[0], MAX + D + 4)):
        r['remainderSlack'] = MAX + D + 1 - lo[0]       # closes when len > MAX + D - K
    ll = [n for n in range(MAX - 3, MAX + 4) if closes_line(n)]
    if ll and ll[0] == MAX + 1:
        r['lineCheck'] = 1
    return r


def _probe_flow(protocol, t):
    """Control-flow facts the model hand-mirrors, measured on the running code."""
    import sys
    L = bytes([108]) + bytes(15)            # a 16-byte message when 'l' is the little marker
    r = {}
    # the binary branch iterates: more coalesced messages than the interpreter allows nested calls.
    # The probe runs under its own, small recursion limit (the tree under test may have raised the
    # interpreter's) and with a fixed number of messages.
    p = _mk(protocol, True)
    old_limit = sys.getrecursionlimit()
    depth = len(inspect.stack(0)) + 400
    try:
        sys.setrecursionlimit(depth)
        p.dataReceived(L * (depth + 300))
        r['binaryBranchIterates'] = len(p.got) == depth + 300
    except RecursionError:
        r['binaryBranchIterates'] = False
    finally:
        sys.setrecursionlimit(old_limit)
    d = bytes(t['authDelimiter'])
    # the hand-off re-joins exactly what follows the final line (lines[lineno + 1:] + [buffer])
    p = _mk(protocol, False, 'cs')
    p.dataReceived(b'A' + d + b'A' + d + b'B' + d + b'C')
    r['handoffRejoinsRest'] = bool(p._authenticated) and bytes(p._buffer) == b'B' + d + b'C' and not p.got
    # the remainder length check is not applied to message bytes behind the final line (for..else position)
    p = _mk(protocol, False, 's')
    p.dataReceived(b'A' + d + b'a' * (t['MAX_AUTH_LENGTH'] + len(d) + 50))
    r['remainderCheckAfterLoop'] = bool(p._authenticated) and not p.transport.disconnecting
    return r


def emit(repo):
    from txdbus import protocol, message
    t = tables(protocol, message)
    out = []
    out.append('/-')
    out.append('GENERATED by tools/tables/c04_proto.py from txdbus/protocol.py (class attributes of')
    out.append('BasicDBusProtocol and the AST of dataReceived) and txdbus/message.py of the repository under')
    out.append('test.  Do not edit: regenerated on every run.')
    out.append('-/')
    out.append('namespace Txdbus.Gen.ProtoConst')
    out.append('')
    out.append('/-- `BasicDBusProtocol.MAX_AUTH_LENGTH` -/')
    out.append('def maxAuthLength : Nat := %d' % t['MAX_AUTH_LENGTH'])
    out.append('/-- `BasicDBusProtocol.MSG_HDR_LEN` -/')
    out.append('def msgHdrLen : Nat := %d' % t['MSG_HDR_LEN'])
    out.append('/-- `BasicDBusProtocol.authDelimiter` -/')
    out.append('def authDelimiter : List UInt8 := [%s]' % ', '.join(str(b) for b in t['authDelimiter']))
    out.append('/-- `buffer_len >= N` in the binary branch of dataReceived -/')
    out.append('def minHeader : Nat := %d' % t['minHeader'])
    out.append("/-- the byte compared with `self._buffer[:1]` to select little endian -/")
    out.append('def littleMarker : UInt8 := %d' % t['littleMarker'])
    out.append('/-- bounds of the slice unpacked into `body_len` -/')
    out.append('def bodyLenSlice : Nat × Nat := (%d, %d)' % t['bodyLenSlice'])
    out.append('/-- bounds of the slice unpacked into `harr_len` -/')
    out.append('def harrLenSlice : Nat × Nat := (%d, %d)' % t['harrLenSlice'])
    out.append('/-- modulus of the header padding computation -/')
    out.append('def padModulus : Nat := %d' % t['padModulus'])
    out.append('/-- `K` in `len(self._buffer) > MAX_AUTH_LENGTH + len(authDelimiter) - K` -/')
    out.append('def remainderSlack : Nat := %d' % t['remainderSlack'])
    out.append('/-- header field code of `unix_fds` in `message._hcode` -/')
    out.append('def unixFdsCode : Nat := %d' % t['unixFdsCode'])
    out.append('/-- measured: the binary branch delivers more coalesced messages than the interpreter allows nested calls -/')
    out.append('def binaryBranchIterates : Bool := %s' % ('true' if t['binaryBranchIterates'] else 'false'))
    out.append('/-- measured: after the final handshake line exactly the bytes that follow it are re-joined -/')
    out.append('def handoffRejoinsRest : Bool := %s' % ('true' if t['handoffRejoinsRest'] else 'false'))
    out.append('/-- measured: the remainder length check does not apply to message bytes behind the final line -/')
    out.append('def remainderCheckAfterLoop : Bool := %s' % ('true' if t['remainderCheckAfterLoop'] else 'false'))
    out.append('/-- AST: `dataReceived` mentions `MAX_MSG_LENGTH` (the framing model does not consult it) -/')
    out.append('def dataReceivedUsesMaxMsgLength : Bool := %s' % ('true' if t['dataReceivedUsesMaxMsgLength'] else 'false'))
    out.append('')
    out.append('-- how each constant was obtained: ' + ', '.join('%s=%s' % kv for kv in sorted(t['how'].items())))
    out.append('')
    out.append('end Txdbus.Gen.ProtoConst')
    return '\n'.join(out) + '\n'
