"""Translator for C09: the tables inside txdbus/endpoints.py: getDBusEndpoints that the address parser
model (lean/TxdbusModel/Client/Endpoints.lean) is parameterised by.

From the AST of `getDBusEndpoints` (restricted shapes; anything else is a TranslatorError, which breaks
the table obligation and makes the pipeline widen its search):
  * the chain  `if c.startswith(<str>): kind = <str>; c = c[<int>:]; [d[<str>] = True]  elif ...`
    -> prefixTable : (prefix, kind, characters stripped, key set to True)
  * `os.environ.get('DBUS_SYSTEM_BUS_ADDRESS', <str>)`            -> systemDefault
  * `addrString.split(<str>)`, `ep_addr.split(<str>)`, `c.split(<str>)`   -> the three one-character separators
  * `if kind == <str>:` / `elif kind == <str>:` after the component loop  -> unixKind, tcpKind
  * inside the unix branch, the chain `if <str> in d: path = <concatenation of d[<same str>], literals, str(os.getpid())>
    elif ...`                                                        -> unixPathRules (key, parts), in priority order
  * `TCP4ClientEndpoint(reactor, d[<str>], int(d[<str>]))` in the tcp branch  -> tcpHostKey, tcpPortKey
  * `if busAddress == <str>: ... elif busAddress == <str>:`          -> sessionWord, systemWord
"""
import ast
import inspect

MODULE = 'TxdbusModel.Gen.C09Endpoints'


class TranslatorError(Exception):
    pass


def chars(s):
    out = []
    for c in s:
        if ord(c) >= 127:
            raise TranslatorError('character %r outside ASCII' % (c,))
        if not (32 <= ord(c)) or c in "'\\":
            out.append('Char.ofNat %d' % ord(c))
        else:
            out.append("'%s'" % c)
    return '[' + ', '.join(out) + ']'


def d_key(node):
    """The literal k in `d[k]`, or None."""
    if isinstance(node, ast.Subscript) and is_name(node.value, 'd') and isinstance(node.slice, ast.Constant) \
            and isinstance(node.slice.value, str):
        return node.slice.value
    return None


def path_parts(expr, key):
    """Flatten `a + b + c` into parts: d[key] -> key, a string literal -> lit, str(os.getpid()) -> pid."""
    if isinstance(expr, ast.BinOp) and isinstance(expr.op, ast.Add):
        return path_parts(expr.left, key) + path_parts(expr.right, key)
    if d_key(expr) is not None:
        if d_key(expr) != key:
            raise TranslatorError('path rule for %r reads d[%r]' % (key, d_key(expr)))
        return ['.key']
    if isinstance(expr, ast.Constant) and isinstance(expr.value, str):
        return ['.lit ' + chars(expr.value)]
    if (isinstance(expr, ast.Call) and is_name(expr.func, 'str') and len(expr.args) == 1
            and isinstance(expr.args[0], ast.Call) and isinstance(expr.args[0].func, ast.Attribute)
            and expr.args[0].func.attr == 'getpid'):
        return ['.pid']
    raise TranslatorError('path rule for %r: unsupported expression %s' % (key, ast.dump(expr)))


def unix_path_rules(branch_body):
    """The `if k in d: path = ... elif ...` chain at the start of the unix branch."""
    node = branch_body[0]
    rules = []
    while node is not None:
        if not (isinstance(node, ast.If) and isinstance(node.test, ast.Compare) and len(node.test.ops) == 1
                and isinstance(node.test.ops[0], ast.In) and is_name(node.test.comparators[0], 'd')):
            raise TranslatorError('unix branch does not start with the `<key> in d` chain')
        key = const_str(node.test.left, 'path rule key')
        if not (len(node.body) == 1 and isinstance(node.body[0], ast.Assign) and is_name(node.body[0].targets[0], 'path')):
            raise TranslatorError('path rule for %r is not a single assignment to `path`' % key)
        rules.append((key, path_parts(node.body[0].value, key)))
        if not node.orelse:
            node = None
        elif len(node.orelse) == 1:
            node = node.orelse[0]
        else:
            raise TranslatorError('path rule chain ends with an else branch')
    return rules


def const_str(node, what):
    if isinstance(node, ast.Constant) and isinstance(node.value, str):
        return node.value
    raise TranslatorError('%s: expected a string literal, got %s' % (what, ast.dump(node)))


def one_char(node, what):
    s = const_str(node, what)
    if len(s) != 1:
        raise TranslatorError('%s: separator %r is not one character' % (what, s))
    return s


def is_name(node, name):
    return isinstance(node, ast.Name) and node.id == name


def split_sep(tree, var):
    """The literal in `<var>.split(<literal>)`."""
    found = []
    for n in ast.walk(tree):
        if (isinstance(n, ast.Call) and isinstance(n.func, ast.Attribute) and n.func.attr == 'split'
                and is_name(n.func.value, var) and len(n.args) == 1 and not n.keywords):
            found.append(one_char(n.args[0], '%s.split' % var))
    if len(found) != 1:
        raise TranslatorError('expected exactly one %s.split(<char>), found %r' % (var, found))
    return found[0]


def prefix_branch(test, body):
    """`c.startswith(P)` with body `kind = K; c = c[N:]` and optionally `d[X] = True`."""
    if not (isinstance(test, ast.Call) and isinstance(test.func, ast.Attribute) and test.func.attr == 'startswith'
            and is_name(test.func.value, 'c') and len(test.args) == 1):
        raise TranslatorError('prefix chain: test is not c.startswith(<str>): %s' % ast.dump(test))
    prefix = const_str(test.args[0], 'startswith argument')
    kind = strip = None
    flag = None
    for st in body:
        if not (isinstance(st, ast.Assign) and len(st.targets) == 1):
            raise TranslatorError('prefix chain: unexpected statement %s' % ast.dump(st))
        tgt, val = st.targets[0], st.value
        if is_name(tgt, 'kind'):
            kind = const_str(val, 'kind')
        elif is_name(tgt, 'c'):
            if not (isinstance(val, ast.Subscript) and is_name(val.value, 'c') and isinstance(val.slice, ast.Slice)
                    and val.slice.upper is None and val.slice.step is None
                    and isinstance(val.slice.lower, ast.Constant) and isinstance(val.slice.lower.value, int)
                    and val.slice.lower.value >= 0):
                raise TranslatorError('prefix chain: c is not re-bound to c[<nat>:]: %s' % ast.dump(val))
            strip = val.slice.lower.value
        elif isinstance(tgt, ast.Subscript) and is_name(tgt.value, 'd'):
            if not (isinstance(val, ast.Constant) and val.value is True):
                raise TranslatorError('prefix chain: d[...] is set to something other than True')
            flag = const_str(tgt.slice, 'flag key')
        else:
            raise TranslatorError('prefix chain: unexpected assignment target %s' % ast.dump(tgt))
    if kind is None or strip is None:
        raise TranslatorError('prefix chain: branch for %r lacks kind or the slice' % prefix)
    return prefix, kind, strip, flag


def emit(repo):
    from txdbus import endpoints
    src = inspect.getsource(endpoints.getDBusEndpoints)
    fn = ast.parse(src).body[0]
    entry_sep = split_sep(fn, 'addrString')
    comp_sep = split_sep(fn, 'ep_addr')
    kv_sep = split_sep(fn, 'c')
    # the default system address
    sysdef = None
    for n in ast.walk(fn):
        if (isinstance(n, ast.Call) and isinstance(n.func, ast.Attribute) and n.func.attr == 'get' and len(n.args) == 2
                and isinstance(n.args[0], ast.Constant) and n.args[0].value == 'DBUS_SYSTEM_BUS_ADDRESS'):
            sysdef = const_str(n.args[1], 'system default')
    if sysdef is None:
        raise TranslatorError("os.environ.get('DBUS_SYSTEM_BUS_ADDRESS', <str>) not found")
    # the inner loop `for c in ep_addr.split(...)` and its if/elif chain
    inner = [n for n in ast.walk(fn) if isinstance(n, ast.For) and is_name(n.target, 'c')]
    if len(inner) != 1:
        raise TranslatorError('expected one loop `for c in ...`, found %d' % len(inner))
    chain = inner[0].body[0]
    table = []
    while True:
        if not isinstance(chain, ast.If):
            raise TranslatorError('the component loop does not start with the startswith chain')
        table.append(prefix_branch(chain.test, chain.body))
        if not chain.orelse:
            break
        if len(chain.orelse) != 1:
            raise TranslatorError('prefix chain ends with an else branch')
        chain = chain.orelse[0]
    # `if kind == 'unix': ... elif kind == 'tcp': ...` in the outer loop
    outer = [n for n in ast.walk(fn) if isinstance(n, ast.For) and is_name(n.target, 'ep_addr')]
    if len(outer) != 1:
        raise TranslatorError('expected one loop `for ep_addr in ...`')
    kinds = []
    branches = []
    for st in outer[0].body:
        node = st
        while isinstance(node, ast.If) and isinstance(node.test, ast.Compare) and is_name(node.test.left, 'kind') \
                and len(node.test.ops) == 1 and isinstance(node.test.ops[0], ast.Eq):
            kinds.append(const_str(node.test.comparators[0], 'kind comparison'))
            branches.append(node.body)
            node = node.orelse[0] if len(node.orelse) == 1 else None
    if len(kinds) != 2:
        raise TranslatorError('expected `if kind == <unix>: ... elif kind == <tcp>: ...`, found %r' % (kinds,))
    rules = unix_path_rules(branches[0])
    tcp_keys = None
    for n in ast.walk(ast.Module(body=branches[1], type_ignores=[])):
        if isinstance(n, ast.Call) and is_name(n.func, 'TCP4ClientEndpoint') and len(n.args) == 3:
            h = d_key(n.args[1])
            pcall = n.args[2]
            pk = d_key(pcall.args[0]) if (isinstance(pcall, ast.Call) and is_name(pcall.func, 'int')
                                          and len(pcall.args) == 1) else None
            if h is None or pk is None:
                raise TranslatorError('TCP4ClientEndpoint(reactor, d[<str>], int(d[<str>])) expected')
            tcp_keys = (h, pk)
    if tcp_keys is None:
        raise TranslatorError('TCP4ClientEndpoint call not found in the tcp branch')
    words = []
    for n in ast.walk(fn):
        if (isinstance(n, ast.Compare) and is_name(n.left, 'busAddress') and len(n.ops) == 1
                and isinstance(n.ops[0], ast.Eq)):
            words.append(const_str(n.comparators[0], 'busAddress comparison'))
    if len(words) != 2:
        raise TranslatorError('expected `busAddress == <session>` and `busAddress == <system>`, found %r' % (words,))
    rule_rows = ['  (%s, [%s])' % (chars(k), ', '.join(parts)) for k, parts in rules]
    rows = []
    for prefix, kind, strip, flag in table:
        rows.append('  (%s, %s, %d, %s)' % (chars(prefix), chars(kind), strip,
                                            'none' if flag is None else 'some ' + chars(flag)))
    return '''/- GENERATED by tools/tables/c09_endpoints.py from txdbus/endpoints.py - do not edit. -/
namespace Txdbus.Gen.C09Endpoints

/-- The `startswith` chain of the component loop, in the code's order:
(prefix, value given to `kind`, characters stripped by `c = c[n:]`, key set to True in `d`). -/
def prefixTable : List (List Char × List Char × Nat × Option (List Char)) := [
%s
]

/-- The two values `kind` is compared with after the component loop (unix socket, tcp). -/
def unixKind : List Char := %s
def tcpKind : List Char := %s

/-- A piece of the expression the unix socket path is built from. -/
inductive PathPart
  | key                      -- d[<the rule's key>]
  | lit (s : List Char)      -- a string literal
  | pid                      -- str(os.getpid())
deriving DecidableEq, Repr

/-- `if k in d: path = <parts>  elif ...` in the unix branch, in the code's (priority) order. -/
def unixPathRules : List (List Char × List PathPart) := [
%s
]

/-- `TCP4ClientEndpoint(reactor, d[tcpHostKey], int(d[tcpPortKey]))`. -/
def tcpHostKey : List Char := %s
def tcpPortKey : List Char := %s

/-- The two special values of `busAddress`. -/
def sessionWord : List Char := %s
def systemWord : List Char := %s

/-- Default of DBUS_SYSTEM_BUS_ADDRESS. -/
def systemDefault : List Char := %s

def entrySep : Char := '%s'
def componentSep : Char := '%s'
def keyValueSep : Char := '%s'

end Txdbus.Gen.C09Endpoints
''' % (',\n'.join(rows), chars(kinds[0]), chars(kinds[1]), ',\n'.join(rule_rows), chars(tcp_keys[0]),
       chars(tcp_keys[1]), chars(words[0]), chars(words[1]), chars(sysdef), entry_sep, comp_sep, kv_sep)
