"""Translator for C09: the tables inside txdbus/endpoints.py: getDBusEndpoints that the address parser
model (lean/TxdbusModel/Client/Endpoints.lean) is parameterised by.

Two routes, both source -> table:

  PROBING (always used; it is what is emitted).  Candidates are the string literals of the module's source, wherever
  they stand (a chain of `if`s, a module-level table, a dict ...); what a candidate MEANS is found by calling the real
  `getDBusEndpoints(MemoryReactorClock(), address)` and connecting the endpoints it returns to the memory reactor
  (public behaviour only):
    * separators           for every ASCII punctuation character: does it separate entries / components / key from value
    * prefixTable          for every literal ending in ':' : is it recognised as a transport prefix, how many characters
                           does it strip (the key the first component leaves in `dbus_args`), does the entry yield a unix
                           or a tcp endpoint, which flag does it set to True
    * unixPathRules        for every literal key k: what path does `unix:k=VALUE` give (literal before / after the value,
                           the pid), and which key wins when two are given
    * tcpHostKey/PortKey   the pair of literals for which `tcp:K1=verifhost,K2=4711` connects to verifhost:4711
    * sessionWord/systemWord/systemDefault   the literals that make getDBusEndpoints read the two environment variables,
                           and the address used when DBUS_SYSTEM_BUS_ADDRESS is unset (re-rendered canonically)
  The values given to the private variable `kind` are not observable; they are emitted canonically ('unix', 'tcp', the
  prefix without its colon for a transport that yields no endpoint).

  SHAPE (cross-check when recognised).  The original `if c.startswith(<str>): kind = <str>; c = c[<int>:]` chain is
  read from the AST; if it is there it must agree with the probed table (disagreement = TranslatorError); if the code
  has another shape an entry is appended to ADVISORIES (the pipeline then widens the correspondence run).
"""
import ast
import inspect
import os
import string

MODULE = 'TxdbusModel.Gen.C09Endpoints'
ADVISORIES = []


class TranslatorError(Exception):
    pass


def chars(s):
    out = []
    for c in s:
        if ord(c) >= 127:
            raise TranslatorError('character %r outside ASCII' % (c,))
        if not (32 <= ord(c)) or c in "'\\":
            out.append('Char.ofNat %d' % ord(c))
        else:
            out.append("'%s'" % c)
    return '[' + ', '.join(out) + ']'


# ---------------------------------------------------------------------------------------------------- probing

class Prober:
    def __init__(self):
        from twisted.internet.protocol import Factory
        from twisted.internet.testing import MemoryReactorClock
        from txdbus import endpoints
        self.endpoints, self.Factory, self.Reactor = endpoints, Factory, MemoryReactorClock

    def parse(self, addr, env=None):
        """[(kind, target, args)] or the exception class name; kind 'U' (target = path) / 'T' (target = (host, port))."""
        saved = {k: os.environ.get(k) for k in ('DBUS_SESSION_BUS_ADDRESS', 'DBUS_SYSTEM_BUS_ADDRESS')}
        try:
            for k in saved:
                os.environ.pop(k, None)
            for k, v in (env or {}).items():
                os.environ[k] = v
            r = self.Reactor()
            try:
                eps = self.endpoints.getDBusEndpoints(r, addr)
            except Exception as e:      # noqa: BLE001
                return type(e).__name__
        finally:
            for k, v in saved.items():
                if v is None:
                    os.environ.pop(k, None)
                else:
                    os.environ[k] = v
        out = []
        for ep in eps:
            nu, nt = len(r.unixClients), len(r.tcpClients)
            ep.connect(self.Factory())
            if len(r.unixClients) > nu:
                out.append(('U', r.unixClients[-1][0], dict(getattr(ep, 'dbus_args', {}))))
            elif len(r.tcpClients) > nt:
                out.append(('T', (r.tcpClients[-1][0], r.tcpClients[-1][1]), dict(getattr(ep, 'dbus_args', {}))))
            else:
                raise TranslatorError('an endpoint of %r connected to neither a unix nor a tcp address' % (addr,))
        return out


def literals(module):
    src = inspect.getsource(module)
    seen, out = set(), []
    for n in ast.walk(ast.parse(src)):
        if isinstance(n, ast.Constant) and isinstance(n.value, str) and n.value not in seen and '\n' not in n.value:
            seen.add(n.value)
            out.append((getattr(n, 'lineno', 0), getattr(n, 'col_offset', 0), n.value))
    return [v for _, _, v in sorted(out)]


def probe_tables():
    P = Prober()
    lits = literals(P.endpoints)
    punct = [c for c in string.punctuation]
    is_ok = lambda r: isinstance(r, list)
    # ---- separators (found together: the three roles must be played by three different characters)
    found = None
    for kv in punct:
        base = P.parse('unix:path%s/verif-a' % kv)
        if not (is_ok(base) and len(base) == 1 and base[0][:2] == ('U', '/verif-a')):
            continue
        for es in punct:
            r = P.parse('unix:path%s/verif-a%sunix:path%s/verif-b' % (kv, es, kv))
            if not (es != kv and is_ok(r) and [x[:2] for x in r] == [('U', '/verif-a'), ('U', '/verif-b')]):
                continue
            for cs in punct:
                r = P.parse('unix:zz%s1%spath%s/verif-c' % (kv, cs, kv))
                if cs not in (kv, es) and is_ok(r) and len(r) == 1 and r[0][:2] == ('U', '/verif-c') \
                        and r[0][2].get('zz') == '1':
                    if found is not None and found != (es, cs, kv):
                        raise TranslatorError('separators are ambiguous: %r and %r' % (found, (es, cs, kv)))
                    found = (es, cs, kv)
    if found is None:
        raise TranslatorError('could not find the entry / component / key-value separators by probing')
    es, cs, kv = found
    # ---- unix path rules: which keys give a unix entry its path, and how
    pid = str(os.getpid())
    rules = {}
    for k in lits:
        if not k or any(c in k for c in (es, cs, kv, ':')):
            continue
        r = P.parse('unix:%s%sVERIFVAL' % (k, kv))
        if is_ok(r) and len(r) == 1 and r[0][0] == 'U' and 'VERIFVAL' in r[0][1]:
            before, after = r[0][1].split('VERIFVAL', 1)
            parts = []
            if before:
                parts.append('.lit ' + chars(before))
            parts.append('.key')
            if after:
                if pid in after:
                    a, b = after.split(pid, 1)
                    if a:
                        parts.append('.lit ' + chars(a))
                    parts.append('.pid')
                    if b:
                        parts.append('.lit ' + chars(b))
                else:
                    parts.append('.lit ' + chars(after))
            rules[k] = parts
    if not rules:
        raise TranslatorError('no key gives a unix entry its path')
    keys = list(rules)

    def wins(a, b):      # does key a take priority over key b when both are given?
        r1 = P.parse('unix:%s%sAAA%s%s%sBBB' % (a, kv, cs, b, kv))
        r2 = P.parse('unix:%s%sBBB%s%s%sAAA' % (b, kv, cs, a, kv))
        if not (is_ok(r1) and is_ok(r2) and len(r1) == 1 and len(r2) == 1):
            raise TranslatorError('priority probe of path keys %r / %r failed' % (a, b))
        a1, a2 = 'AAA' in r1[0][1], 'AAA' in r2[0][1]
        if a1 != a2:
            raise TranslatorError('priority of path keys %r / %r depends on their order in the entry' % (a, b))
        return a1
    import functools
    keys.sort(key=functools.cmp_to_key(lambda a, b: 0 if a == b else (-1 if wins(a, b) else 1)))
    path_key = keys[0]
    # ---- tcp keys
    tcp = None
    cand = [k for k in lits if k and not any(c in k for c in (es, cs, kv, ':'))]
    for kh in cand:
        for kp in cand:
            if kh == kp:
                continue
            r = P.parse('tcp:%s%sverifhost%s%s%s4711' % (kh, kv, cs, kp, kv))
            if is_ok(r) and len(r) == 1 and r[0][:2] == ('T', ('verifhost', 4711)):
                if tcp is not None and tcp != (kh, kp):
                    raise TranslatorError('tcp keys are ambiguous: %r and %r' % (tcp, (kh, kp)))
                tcp = (kh, kp)
    if tcp is None:
        raise TranslatorError('could not find the host / port keys of a tcp entry by probing')
    # ---- transport prefixes
    rows = []
    for p in lits:
        if len(p) < 2 or not p.endswith(':') or any(c in p for c in (es, cs, kv)):
            continue
        # is it recognised, and how much does it strip?  The key the first component leaves behind tells.
        r = P.parse('%szz%s1%sunix:%s%s/verif-p' % (p, kv, cs, path_key, kv))
        if not (is_ok(r) and len(r) == 1):
            continue
        left = [k for k in r[0][2] if k.endswith('zz')]
        if len(left) != 1:
            continue
        rest = left[0][:-2]                     # = p[strip:]
        if rest == p or not p.endswith(rest):
            continue                            # nothing stripped: not a transport prefix
        strip = len(p) - len(rest)
        flags = [k for k, v in r[0][2].items() if v is True]
        if len(flags) > 1:
            raise TranslatorError('prefix %r sets more than one flag: %r' % (p, flags))
        ru = P.parse('%s%s%s/verif-q' % (p, path_key, kv))
        rt = P.parse('%s%s%sverifhost%s%s%s4711' % (p, tcp[0], kv, cs, tcp[1], kv))
        if strip == len(p) and is_ok(ru) and len(ru) == 1 and ru[0][0] == 'U':
            kind = 'unix'
        elif strip == len(p) and is_ok(rt) and len(rt) == 1 and rt[0][0] == 'T':
            kind = 'tcp'
        elif is_ok(ru) and is_ok(rt) and not ru and not rt:
            kind = p[:-1] if p[:-1] not in ('unix', 'tcp') else p[:-1] + '-none'
        else:
            # a prefix that strips something else than itself yet yields endpoints: emit what the code does
            kind = 'unix' if (is_ok(ru) and ru and ru[0][0] == 'U') else ('tcp' if (is_ok(rt) and rt and rt[0][0] == 'T')
                                                                         else p[:-1])
        rows.append((p, kind, strip, flags[0] if flags else None))
    if not rows:
        raise TranslatorError('no transport prefix found by probing')
    for a in rows:
        for b in rows:
            if a is not b and a[0].startswith(b[0]):
                raise TranslatorError('transport prefixes %r and %r overlap: their order would matter' % (a[0], b[0]))
    # ---- the two special words and the default system address
    words = {}
    for w in lits:
        if not w or any(c in w for c in (es, cs, kv, ':')):
            continue
        plain = P.parse(w)
        for var, name in (('DBUS_SESSION_BUS_ADDRESS', 'session'), ('DBUS_SYSTEM_BUS_ADDRESS', 'system')):
            r = P.parse(w, {var: 'unix:%s%s/verif-env' % (path_key, kv)})
            if is_ok(r) and len(r) == 1 and r[0][:2] == ('U', '/verif-env') and plain != r:
                if name in words and words[name] != w:
                    raise TranslatorError('two words read %s: %r and %r' % (var, words[name], w))
                words[name] = w
    if set(words) != {'session', 'system'}:
        raise TranslatorError('could not find the words that select the session / system bus: %r' % (words,))
    d = P.parse(words['system'])
    if not (is_ok(d) and d):
        raise TranslatorError('no default system bus address (DBUS_SYSTEM_BUS_ADDRESS unset gives %r)' % (d,))
    rendered = []
    for knd, target, _ in d:
        if knd == 'U':
            rendered.append('unix:%s%s%s' % (path_key, kv, target))
        else:
            rendered.append('tcp:%s%s%s%s%s%s%d' % (tcp[0], kv, target[0], cs, tcp[1], kv, target[1]))
    sysdef = es.join(rendered)
    if P.parse(sysdef) != [x for x in d] and [x[:2] for x in P.parse(sysdef)] != [x[:2] for x in d]:
        raise TranslatorError('re-rendered default system address %r does not parse back' % (sysdef,))
    return {'rows': rows, 'rules': [(k, rules[k]) for k in keys], 'tcp': tcp, 'words': words, 'sysdef': sysdef,
            'seps': (es, cs, kv)}


# ---------------------------------------------------------------------------------------------------- shape (cross-check)

def is_name(node, name):
    return isinstance(node, ast.Name) and node.id == name


def shape_rows():
    """The original if/elif startswith chain, if the code still has that shape; else None."""
    from txdbus import endpoints
    try:
        fn = ast.parse(inspect.getsource(endpoints.getDBusEndpoints)).body[0]
        inner = [n for n in ast.walk(fn) if isinstance(n, ast.For) and isinstance(n.body[0], ast.If)
                 and isinstance(n.body[0].test, ast.Call) and isinstance(n.body[0].test.func, ast.Attribute)
                 and n.body[0].test.func.attr == 'startswith']
        if len(inner) != 1:
            return None
        var = inner[0].target.id
        chain, rows = inner[0].body[0], []
        while True:
            t = chain.test
            if not (isinstance(t, ast.Call) and isinstance(t.func, ast.Attribute) and t.func.attr == 'startswith'
                    and is_name(t.func.value, var) and len(t.args) == 1 and isinstance(t.args[0], ast.Constant)
                    and isinstance(t.args[0].value, str)):
                return None
            strip, flag = None, None
            for st in chain.body:
                if not (isinstance(st, ast.Assign) and len(st.targets) == 1):
                    return None
                tgt, val = st.targets[0], st.value
                if is_name(tgt, var):
                    if not (isinstance(val, ast.Subscript) and isinstance(val.slice, ast.Slice)
                            and isinstance(val.slice.lower, ast.Constant) and isinstance(val.slice.lower.value, int)):
                        return None
                    strip = val.slice.lower.value
                elif isinstance(tgt, ast.Subscript) and isinstance(tgt.slice, ast.Constant) \
                        and isinstance(val, ast.Constant) and val.value is True:
                    flag = tgt.slice.value
            if strip is None:
                return None
            rows.append((t.args[0].value, strip, flag))
            if not chain.orelse:
                return rows
            if len(chain.orelse) != 1 or not isinstance(chain.orelse[0], ast.If):
                return None
            chain = chain.orelse[0]
    except Exception:       # noqa: BLE001  (any surprise in the shape: not recognised)
        return None


def state_between_calls():
    """Reasons to believe that `getDBusEndpoints` keeps something between calls (empty list = none found).

    The model's `connectMany` (Client/Lifecycle.lean) runs the connects of one process as INDEPENDENT runs over a freshly
    parsed list; `every_connect_tries_in_written_order` rests on that.  Here the assumption is tied to the source:
      * probe: two calls with the same reactor and address string give two distinct list objects with the same entries,
        and consuming the first (reverse + pop, as client.connect does) leaves a third call's answer unchanged;
      * AST: no decorator (a cache) on the two functions, no mutable default argument, no `global` / `nonlocal`, and no
        module-level list / dict / set (or call) that the functions refer to.
    """
    import inspect
    from twisted.internet.testing import MemoryReactorClock
    from txdbus import endpoints
    why = []
    r = MemoryReactorClock()

    def describe(eps):
        return [(type(e).__name__, sorted(getattr(e, 'dbus_args', {}).items(), key=repr)) for e in eps]
    for addr in ('unix:path=/tmp/a;tcp:host=h,port=1', 'unix:abstract=x', 'tcp:host=h,port=2;unix:path=/b;unix:path=/c'):
        try:
            a = endpoints.getDBusEndpoints(r, addr)
            da = describe(a)
            b = endpoints.getDBusEndpoints(r, addr)
            if a is b:
                why.append('two calls with %r return the same list object' % addr)
            if describe(b) != da:
                why.append('the second call with %r gives other entries than the first' % addr)
            if any(x is y for x in a for y in b):
                why.append('two calls with %r share endpoint objects' % addr)
            a.reverse()
            while a:
                a.pop()
            c = endpoints.getDBusEndpoints(r, addr)
            if describe(c) != da:
                why.append('after the first result of %r was consumed a later call gives other entries' % addr)
        except Exception as e:      # noqa: BLE001
            why.append('probe of %r raised %s' % (addr, type(e).__name__))
    try:
        tree = ast.parse(inspect.getsource(endpoints))
    except Exception as e:          # noqa: BLE001
        return why + ['source of txdbus.endpoints not readable: %s' % type(e).__name__]
    mutable_globals = set()
    for node in tree.body:
        if isinstance(node, (ast.Assign, ast.AnnAssign)):
            val = node.value
            if isinstance(val, (ast.List, ast.Dict, ast.Set, ast.ListComp, ast.DictComp, ast.SetComp, ast.Call)):
                tgts = node.targets if isinstance(node, ast.Assign) else [node.target]
                for t in tgts:
                    if isinstance(t, ast.Name):
                        mutable_globals.add(t.id)
    for node in tree.body:
        if isinstance(node, ast.FunctionDef) and node.name in ('getDBusEndpoints', 'getDBusEnvEndpoints'):
            if node.decorator_list:
                why.append('%s has a decorator' % node.name)
            for d in list(node.args.defaults) + [d for d in node.args.kw_defaults if d is not None]:
                if isinstance(d, (ast.List, ast.Dict, ast.Set, ast.Call)):
                    why.append('%s has a mutable default argument' % node.name)
            for sub in ast.walk(node):
                if isinstance(sub, (ast.Global, ast.Nonlocal)):
                    why.append('%s declares %s' % (node.name, ', '.join(sub.names)))
                if isinstance(sub, ast.Name) and sub.id in mutable_globals:
                    why.append('%s refers to the module-level container %s' % (node.name, sub.id))
                if isinstance(sub, ast.Attribute) and isinstance(sub.value, ast.Name) and sub.value.id in (
                        'getDBusEndpoints', 'getDBusEnvEndpoints'):
                    why.append('%s uses a function attribute (%s.%s)' % (node.name, sub.value.id, sub.attr))
    return sorted(set(why))


def emit(repo):
    del ADVISORIES[:]
    t = probe_tables()
    state = state_between_calls()
    sr = shape_rows()
    if sr is None:
        ADVISORIES.append('endpoints.getDBusEndpoints no longer has the `if c.startswith(<str>): kind = ...; c = c[<n>:]` '
                          'chain; the transport table was derived by probing getDBusEndpoints over address strings only')
    else:
        probed = sorted((p, n, f) for p, _, n, f in t['rows'])
        if sorted(sr) != probed:
            raise TranslatorError('the startswith chain read from the source %r and the probed transport table %r disagree'
                                  % (sorted(sr), probed))
    rows = ['  (%s, %s, %d, %s)' % (chars(p), chars(k), n, 'none' if f is None else 'some ' + chars(f))
            for p, k, n, f in t['rows']]
    rule_rows = ['  (%s, [%s])' % (chars(k), ', '.join(parts)) for k, parts in t['rules']]
    es, cs, kv = t['seps']
    return '''/- GENERATED by tools/tables/c09_endpoints.py from txdbus/endpoints.py - do not edit. -/
namespace Txdbus.Gen.C09Endpoints

/-- The transport prefixes the component loop recognises:
(prefix, value given to `kind` (canonical: unix / tcp / the prefix's name when it yields no endpoint),
characters stripped from the component, key set to True in `d`). -/
def prefixTable : List (List Char × List Char × Nat × Option (List Char)) := [
%s
]

/-- The two values `kind` is compared with after the component loop (unix socket, tcp). -/
def unixKind : List Char := %s
def tcpKind : List Char := %s

/-- A piece of the expression the unix socket path is built from. -/
inductive PathPart
  | key                      -- d[<the rule's key>]
  | lit (s : List Char)      -- a string literal
  | pid                      -- str(os.getpid())
deriving DecidableEq, Repr

/-- `if k in d: path = <parts>  elif ...` in the unix branch, in the code's (priority) order. -/
def unixPathRules : List (List Char × List PathPart) := [
%s
]

/-- `TCP4ClientEndpoint(reactor, d[tcpHostKey], int(d[tcpPortKey]))`. -/
def tcpHostKey : List Char := %s
def tcpPortKey : List Char := %s

/-- The two special values of `busAddress`. -/
def sessionWord : List Char := %s
def systemWord : List Char := %s

/-- Default of DBUS_SYSTEM_BUS_ADDRESS. -/
def systemDefault : List Char := %s

def entrySep : Char := '%s'
def componentSep : Char := '%s'
def keyValueSep : Char := '%s'

/-- `getDBusEndpoints` keeps nothing between calls (probed: fresh list and endpoint objects per call, a consumed result
does not change a later one; read from the source: no decorator, no mutable default, no global / nonlocal, no
module-level container).  What `connectMany` assumes.%s -/
def keepsNoState : Bool := %s

end Txdbus.Gen.C09Endpoints
''' % (',\n'.join(rows), chars('unix'), chars('tcp'), ',\n'.join(rule_rows), chars(t['tcp'][0]), chars(t['tcp'][1]),
       chars(t['words']['session']), chars(t['words']['system']), chars(t['sysdef']), es, cs, kv,
       ''.join('\n  FOUND: ' + w.replace('-/', '- /') for w in state), 'false' if state else 'true')
