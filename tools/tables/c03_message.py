"""Translator for C03: the tables of txdbus/message.py that the message model is parameterised by.

Runtime objects read directly: every message class's `_messageType` (pinned by the test suite; CROSS-CHECKED here
against byte 1 of a message of the class constructed through the public constructor) and `_maxMsgLen` (pinned by
tests/test_message.py::test_too_long; NOT cross-checked here - building a 128 MiB message per run is left to the
`real-limit` stream of the thorough tier and, for subclass values, to the harness's `limit_honoured` probe).
`_protocolVersion`, `endian`: read from the bytes of a constructed message, cross-checked with the attributes.
Private tables (`_headerFormat`, `_mtype`, `_hcode`): found through PUBLIC BEHAVIOUR (harness/c03_probe.py: header
signature = the string under which a constructed message's bytes decode and re-encode; class per type code =
parseMessage of a VALID minimal message of each type byte; attribute per field code = parseMessage of a valid message
carrying each code with the specification's type).  The private names are the fast path and are cross-checked against
the probe when they exist; when one is gone the probe answers and a sentence goes to `ADVISORIES`; when the name exists
but the probe cannot decide (parseMessage refuses the carrier), the name answers and a sentence goes to `ADVISORIES`.
The classes' `_headerAttrs`: read AS THEY ARE when present (not cross-checked by the translator: the `build` stream
compares every header byte with the model built from them); probed from a re-marshalled object when the name is gone
(the `required` column is then written False; the model does not use it).
Alignments: PROBED from the `marshal.pad` dict that the codec actually calls (`pad[c](n)` for n < 64; also
`pad['header']`) and cross-checked with the alignment column of `marshal.dbus_types`.
Three values that are code rather than tables are taken from the AST when it has the familiar shape and
otherwise found by PROBING the running code (a harmless refactoring must not break the translator):
  * the first serial: `_nextSerial = <int literal>` in class DBusMessage, else the value in a fresh interpreter;
  * unixFdsEntry: `_headerAttrs.append((<str>, <int>, <bool>))` in `_marshal`, else the extra header a method call
    with one descriptor carries;
  * reservedPath: `if path == <str literal>: raise` in `MethodCallMessage.__init__`, else the one string constant of
    the module that is a valid object path and that `MethodCallMessage` refuses.
Anything that still cannot be determined is a TranslatorError (breaks the table obligation).
"""
import ast
import inspect

MODULE = 'TxdbusModel.Gen.Message'
ADVISORIES = []          # reset by emit(); sentences for tables found by probing because a private name is gone

ATTR = {'path': 'path', 'interface': 'interface', 'member': 'member', 'error_name': 'errorName',
        'reply_serial': 'replySerial', 'destination': 'destination', 'sender': 'sender',
        'signature': 'signature', 'unix_fds': 'unixFds'}
CLASSES = [('MethodCallMessage', 'methodCall'), ('MethodReturnMessage', 'methodReturn'),
           ('ErrorMessage', 'error'), ('SignalMessage', 'signal')]


class TranslatorError(Exception):
    pass


def nat(v, what):
    if not (isinstance(v, int) and not isinstance(v, bool) and v >= 0):
        raise TranslatorError('%s is not a natural number: %r' % (what, v))
    return v


def attr(name, what):
    if name not in ATTR:
        raise TranslatorError('%s: attribute name %r is not one of %s' % (what, name, sorted(ATTR)))
    return '.' + ATTR[name]


def entry(t, what):
    if not (isinstance(t, tuple) and len(t) == 3 and isinstance(t[0], str) and isinstance(t[2], bool)):
        raise TranslatorError('%s: expected (attr_name, code, is_required), got %r' % (what, t))
    return '(%s, %d, %s)' % (attr(t[0], what), nat(t[1], what + ' code'), 'true' if t[2] else 'false')


def chars(s):
    out = []
    for c in s:
        if not (32 <= ord(c) < 127) or c in "'\\":
            raise TranslatorError('character %r outside the printable ASCII subset' % (c,))
        out.append("'%s'" % c)
    return '[' + ', '.join(out) + ']'


def find_class(tree, name):
    for node in tree.body:
        if isinstance(node, ast.ClassDef) and node.name == name:
            return node
    raise TranslatorError('class %s not found in message.py' % name)


def find_method(cls, name):
    for node in cls.body:
        if isinstance(node, ast.FunctionDef) and node.name == name:
            return node
    raise TranslatorError('%s.%s not found' % (cls.name, name))


def probe_alignment(fn, what):
    """The alignment a `pad[...]` entry implements: len(fn(n)) == (a - n % a) % a for all n < 64, for one a in 1..8."""
    if not callable(fn):
        raise TranslatorError('%s is missing' % what)
    got = [len(fn(n)) for n in range(64)]
    for a in range(1, 9):
        if got == [(a - n % a) % a for n in range(64)]:
            return a
    raise TranslatorError('%s is not "pad to a multiple of a" for any a in 1..8: %r' % (what, got[:17]))


def fresh_next_serial(message):
    """The serial the first message of a fresh process gets (= the initial value of the counter, whatever its name)."""
    import os, subprocess, sys
    root = os.path.dirname(os.path.dirname(os.path.abspath(message.__file__)))
    r = subprocess.run([sys.executable, '-c', 'import sys; sys.path.insert(0, %r); from txdbus import message as m; '
                        'print(m.MethodReturnMessage(1).serial)' % root], capture_output=True, text=True, timeout=60)
    try:
        return int(r.stdout.strip().split()[-1])
    except (ValueError, IndexError):
        raise TranslatorError('cannot determine the first serial: %s' % r.stderr[-300:])


def _keeping_counter(message, fn):
    from harness import c03_probe as P
    loc = P.serial_counter(message)
    saved = getattr(loc[0], loc[1]) if loc else None
    try:
        return fn()
    finally:
        if loc:
            setattr(loc[0], loc[1], saved)


def probe_fds_entry(message, marshal, hsig, fields_by_code, call_rows):
    """The header entry a method call with one descriptor carries beyond its class table: read from the header array
    of its bytes (the field whose code is not a row of the class) and the attribute parseMessage stores it under."""
    try:
        m = _keeping_counter(message, lambda: message.MethodCallMessage('/a', 'm', signature='h', body=[0], oobFDs=[]))
        n, vals = marshal.unmarshal(hsig, m.rawMessage, 0, True, [0])
    except Exception as e:
        raise TranslatorError('probe of the unix_fds header entry failed: %r' % (e,))
    table = {c for _, c, _ in call_rows}
    extra = [(c, v) for c, v in vals[6] if c not in table]
    if len(extra) != 1 or extra[0][0] not in fields_by_code or extra[0][1] != 1:
        raise TranslatorError('probe of the unix_fds header entry: extra header fields %r' % (extra,))
    return (fields_by_code[extra[0][0]], extra[0][0], False)


def probe_reserved_paths(message, marshal, tree):
    cands = sorted({n.value for n in ast.walk(tree) if isinstance(n, ast.Constant) and isinstance(n.value, str)
                    and n.value.startswith('/')})
    out = []
    for p in cands:
        try:
            marshal.validateObjectPath(p)
        except Exception:
            continue
        try:
            _keeping_counter(message, lambda: message.MethodCallMessage(p, 'm'))
        except Exception:
            out.append(p)
    return out


def _probe_instance(message, pyname):
    if pyname == 'MethodCallMessage':
        return message.MethodCallMessage('/a', 'm')
    if pyname == 'MethodReturnMessage':
        return message.MethodReturnMessage(1)
    if pyname == 'ErrorMessage':
        return message.ErrorMessage('a.E', 1)
    if pyname == 'SignalMessage':
        return message.SignalMessage('/a', 'm', 'a.b')
    return None


def tables(message, marshal):
    from harness import c03_probe as P
    t = {}
    try:
        fmt = P.header_signature(message, marshal, ADVISORIES)
        fields_by_code = P.field_by_code(message, marshal, fmt, ADVISORIES)
        classes_by_type = P.class_by_type(message, marshal, fmt, ADVISORIES)
    except P.ProbeError as e:
        raise TranslatorError(str(e))
    except Exception as e:                   # the probe must not be what falls over: name the table, keep the cause
        raise TranslatorError('probing message.py\'s header tables (_headerFormat / _hcode / _mtype) failed: %r' % (e,))
    t['headerFormat'] = fmt
    base = message.DBusMessage
    t['maxMsgLen'] = nat(base._maxMsgLen, '_maxMsgLen')
    # version byte and byte-order mark: what a constructed message carries (cross-checked with the class attributes
    # `_protocolVersion` / `endian` when they exist under these names)
    smp = P.sample(message).rawMessage
    for key, name, got in (('protocolVersion', '_protocolVersion', smp[3]), ('endian', 'endian', smp[0])):
        fast = getattr(base, name, None)
        if isinstance(fast, int) and not isinstance(fast, bool):
            if fast != got:
                raise TranslatorError('DBusMessage.%s = %r, but a constructed message carries %r' % (name, fast, got))
        else:
            ADVISORIES.append('DBusMessage.%s is gone: value %d read from the bytes of a constructed message' % (name, got))
        t[key] = nat(got, name)
    tree = ast.parse(inspect.getsource(message))
    # the first serial: the literal in the class body, else the value a fresh interpreter sees
    found = None
    _loc = P.serial_counter(message)
    counter_name = _loc[1] if _loc else '_nextSerial'
    if counter_name != '_nextSerial':
        ADVISORIES.append('DBusMessage._nextSerial is gone: the serial counter is the class attribute %r (the integer a '
                          'construction advances)' % counter_name)
    try:
        for node in find_class(tree, 'DBusMessage').body:
            if isinstance(node, ast.Assign) and len(node.targets) == 1 and isinstance(node.targets[0], ast.Name) \
                    and node.targets[0].id == counter_name and isinstance(node.value, ast.Constant) \
                    and isinstance(node.value.value, int) and not isinstance(node.value.value, bool):
                found = node.value.value
    except TranslatorError:
        found = None
    if found is None:
        found = fresh_next_serial(message)
    t['nextSerialInit'] = nat(found, '_nextSerial')
    # classes
    t['classes'] = []
    by_class = {}
    for pyname, lean in CLASSES:
        k = getattr(message, pyname, None)
        if k is None:
            raise TranslatorError('class %s missing' % pyname)
        try:
            rows = P.header_attrs(message, marshal, fmt, pyname, fields_by_code, ADVISORIES)
        except P.ProbeError as e:
            raise TranslatorError(str(e))
        except Exception as e:
            raise TranslatorError('probing %s._headerAttrs failed: %r' % (pyname, e))
        # `_messageType` against behaviour: byte 1 of a message of the class built through the public constructor
        try:
            made = _keeping_counter(message, lambda k=k, pyname=pyname: _probe_instance(message, pyname))
            if made is not None and made.rawMessage[1] != k._messageType:
                raise TranslatorError('%s._messageType = %r, but a constructed %s carries type byte %r'
                                      % (pyname, k._messageType, pyname, made.rawMessage[1]))
        except TranslatorError:
            raise
        except Exception as e:
            ADVISORIES.append('%s._messageType could not be cross-checked against a constructed message: %r' % (pyname, e))
        t['classes'].append((pyname, lean, nat(k._messageType, pyname + '._messageType'),
                             [entry(tuple(e), pyname + '._headerAttrs') for e in rows],
                             nat(k._maxMsgLen, pyname + '._maxMsgLen')))
        by_class[k] = lean
    # _mtype
    t['mtype'] = []
    for code, k in classes_by_type.items():
        if k not in by_class:
            raise TranslatorError('message type %r is parsed into %r, which is not one of the four message classes' % (code, k))
        t['mtype'].append((nat(code, '_mtype key'), by_class[k]))
    # _hcode
    t['hcode'] = [(nat(code, '_hcode key'), attr(name, '_hcode')) for code, name in fields_by_code.items()]
    # alignments: what `marshal.pad[c]` does, cross-checked with the column of dbus_types
    t['align'] = []
    column = {}
    for row in marshal.dbus_types:
        if not (isinstance(row, tuple) and len(row) == 3 and isinstance(row[1], str) and len(row[1]) == 1):
            raise TranslatorError('dbus_types row %r' % (row,))
        column[row[1]] = nat(row[2], 'alignment of %r' % row[1])
    for code in column:
        a_ = probe_alignment(marshal.pad.get(code), 'pad[%r]' % code)
        if a_ != column[code]:
            raise TranslatorError('pad[%r] aligns to %d, dbus_types says %d' % (code, a_, column[code]))
        t['align'].append((code, a_))
    t['headerAlign'] = probe_alignment(marshal.pad.get('header'), "pad['header']")
    # the appended unix_fds entry: AST shape, else probe a call that carries one descriptor
    app = []
    try:
        for node in ast.walk(find_method(find_class(tree, 'DBusMessage'), '_marshal')):
            if isinstance(node, ast.Call) and isinstance(node.func, ast.Attribute) and node.func.attr == 'append' \
                    and isinstance(node.func.value, ast.Name) and node.func.value.id == '_headerAttrs' \
                    and len(node.args) == 1 and isinstance(node.args[0], ast.Tuple):
                try:
                    app.append(ast.literal_eval(node.args[0]))
                except ValueError:
                    pass
    except TranslatorError:
        app = []
    if len(app) != 1:
        call_rows = [c for c in t['classes'] if c[0] == 'MethodCallMessage'][0]
        app = [probe_fds_entry(message, marshal, fmt, fields_by_code,
                               P.header_attrs(message, marshal, fmt, 'MethodCallMessage', fields_by_code))]
        ADVISORIES.append('the `_headerAttrs.append((...))` statement of _marshal was not recognised: the unix_fds entry %r '
                          'was read from the header of a method call carrying one descriptor' % (app[0],))
    t['unixFdsEntry'] = entry(app[0], 'appended header entry')
    # the reserved path: AST shape, else the string constant of the module that is a valid path and is refused
    res = []
    try:
        for node in ast.walk(find_method(find_class(tree, 'MethodCallMessage'), '__init__')):
            if isinstance(node, ast.If) and isinstance(node.test, ast.Compare) and len(node.test.ops) == 1 \
                    and isinstance(node.test.ops[0], ast.Eq) and isinstance(node.test.left, ast.Name) \
                    and node.test.left.id == 'path' and isinstance(node.test.comparators[0], ast.Constant) \
                    and isinstance(node.test.comparators[0].value, str) \
                    and any(isinstance(s_, ast.Raise) for s_ in node.body):
                res.append(node.test.comparators[0].value)
    except TranslatorError:
        res = []
    if len(res) != 1:
        res = probe_reserved_paths(message, marshal, tree)
        ADVISORIES.append('the `if path == <literal>: raise` statement of MethodCallMessage.__init__ was not recognised: '
                          'reserved path found by probing the module\'s path constants')
    if len(res) != 1:
        raise TranslatorError('could not determine the reserved path of MethodCallMessage: candidates %r' % (res,))
    t['reservedPath'] = res[0]
    return t


def emit(repo):
    from txdbus import marshal, message
    del ADVISORIES[:]
    t = tables(message, marshal)
    L = []
    w = L.append
    w('/-')
    w('GENERATED by tools/tables/c03_message.py from txdbus/message.py (runtime tables and, for three')
    w('literals, the AST) and the alignment column of marshal.dbus_types of the repository under test.')
    w('Do not edit: regenerated on every run.')
    w('-/')
    w('import TxdbusModel.Msg.Attr')
    w('')
    w('namespace Txdbus.Gen.Message')
    w('open Txdbus.Msg')
    w('')
    w('/-- `_headerFormat = %r` -/' % t['headerFormat'])
    w('def headerFormat : List Char := %s' % chars(t['headerFormat']))
    w('/-- `DBusMessage._maxMsgLen` -/')
    w('def maxMsgLen : Nat := %d' % t['maxMsgLen'])
    w('/-- `_maxMsgLen` as each message class sees it (a class may override the base attribute) -/')
    w('def maxMsgLenOf : MsgClass → Nat')
    for pyname, lean, _, _, mx in t['classes']:
        w('  | .%s => %d   -- %s' % (lean, mx, pyname))
    w("/-- the alignment `marshal.pad['header']` implements (probed) -/")
    w('def headerAlign : Nat := %d' % t['headerAlign'])
    w('/-- `DBusMessage._protocolVersion` -/')
    w('def protocolVersion : Nat := %d' % t['protocolVersion'])
    w('/-- `DBusMessage.endian` -/')
    w('def endian : Nat := %d' % t['endian'])
    w('/-- the literal `_nextSerial = …` in the body of class DBusMessage -/')
    w('def nextSerialInit : Nat := %d' % t['nextSerialInit'])
    w('')
    w('/-- `_messageType` of each class -/')
    w('def messageType : MsgClass → Nat')
    for pyname, lean, code, _, _ in t['classes']:
        w('  | .%s => %d   -- %s' % (lean, code, pyname))
    w('')
    w('/-- `_headerAttrs` of each class -/')
    w('def headerAttrs : MsgClass → List (Attr × Nat × Bool)')
    for pyname, lean, _, entries, _ in t['classes']:
        w('  | .%s => [%s]' % (lean, ', '.join(entries)))
    w('')
    w('/-- the tuple appended to a copy of `_headerAttrs` in `_marshal` when descriptors were collected -/')
    w('def unixFdsEntry : Attr × Nat × Bool := %s' % t['unixFdsEntry'])
    w('')
    w('/-- `_mtype` (keys in dict order) -/')
    w('def mtype : List (Nat × MsgClass) := [%s]' % ', '.join('(%d, .%s)' % p for p in t['mtype']))
    w('')
    w('/-- `_hcode` (keys in dict order) -/')
    w('def hcode : List (Nat × Attr) := [%s]' % ', '.join('(%d, %s)' % p for p in t['hcode']))
    w('')
    w('/-- alignment of each type code: what `marshal.pad[code]` implements (probed; equal to the column of')
    w('`marshal.dbus_types`); 0 for a code that has no entry -/')
    w('def align (c : Char) : Nat :=')
    for code, a in t['align']:
        w("  if c = '%s' then %d else" % (code, a))
    w('  0')
    w('')
    w('/-- the path `MethodCallMessage.__init__` refuses -/')
    w('def reservedPath : List Char := %s' % chars(t['reservedPath']))
    w('')
    w('def tables : Tables :=')
    w('  { headerFormat := headerFormat, maxMsgLen := maxMsgLen, protocolVersion := protocolVersion,')
    w('    endian := endian, nextSerialInit := nextSerialInit, messageType := messageType,')
    w('    headerAttrs := headerAttrs, unixFdsEntry := unixFdsEntry, mtype := mtype, hcode := hcode,')
    w('    align := align, reservedPath := reservedPath, maxMsgLenOf := maxMsgLenOf, headerAlign := headerAlign }')
    w('')
    w('end Txdbus.Gen.Message')
    return '\n'.join(L) + '\n'
