"""Translator for C12: the tables the match-rule code depends on.

  router._mtypes                       (runtime object)           -> Gen.Route.mtypes
  router.Rule.add                      tuple of "simple" keys     -> Gen.Route.simpleKeys      (AST)
  router.MessageRouter.addMatch        (parameter, key) pairs of the `if p: r.add('key', v)` chain, in order,
                                       and how the value of the message-type constraint is computed
                                                                  -> Gen.Route.addKeys, Gen.Route.mtypeLookup (AST)
  client.DBusClientConnection.addMatch the keys of the rule text, in order  -> Gen.Route.clientTextKeys     (AST)
  bus.Bus.dbus_AddMatch                the keys of the kwargs literal       -> Gen.Route.busKwargKeys       (AST)

Anything outside the restricted shapes recognised here is a translator failure (a broken obligation).
"""
import ast
import inspect
import textwrap

MODULE = 'TxdbusModel.Gen.Route'


def lstr(s):
    """A Python str as a Lean `List Char` literal (explicit characters: reduces in the kernel)."""
    assert isinstance(s, str)
    out = []
    for ch in s:
        if ch in "'\\":
            out.append("'\\" + ch + "'")
        elif 32 <= ord(ch) < 127:
            out.append("'" + ch + "'")
        else:
            raise ValueError('unexpected character in a table string: %r' % (s,))
    return '[' + ', '.join(out) + ']'


def llist(items):
    return '[' + ', '.join(items) + ']'


def fn_ast(obj):
    src = textwrap.dedent(inspect.getsource(obj))
    mod = ast.parse(src)
    return mod.body[0]


def simple_keys(router):
    f = fn_ast(router.Rule.add)
    found = []
    for node in ast.walk(f):
        if isinstance(node, ast.If) and isinstance(node.test, ast.Compare) and len(node.test.ops) == 1 \
                and isinstance(node.test.ops[0], ast.In) and isinstance(node.test.left, ast.Name) \
                and node.test.left.id == 'key':
            tup = node.test.comparators[0]
            if not isinstance(tup, (ast.Tuple, ast.List, ast.Set)):
                raise ValueError('Rule.add: `key in <non-literal>`')
            keys = []
            for e in tup.elts:
                if not (isinstance(e, ast.Constant) and isinstance(e.value, str)):
                    raise ValueError('Rule.add: non-string key in the tuple')
                keys.append(e.value)
            # the body must append to self.simple, the else branch must setattr
            body_src = ast.unparse(node.body[0])
            else_src = ast.unparse(node.orelse[0]) if node.orelse else ''
            if body_src != 'self.simple.append((key, value))' or else_src != 'setattr(self, key, value)':
                raise ValueError('Rule.add: unexpected branches %r / %r' % (body_src, else_src))
            found.append(keys)
    if len(found) != 1:
        raise ValueError('Rule.add: expected exactly one `if key in (...)`, found %d' % len(found))
    return found[0]


def add_keys(router):
    """[(param, key)], mtype lookup mode ('raw' | 'get')."""
    f = fn_ast(router.MessageRouter.addMatch)
    pairs = []
    lookup = None
    for node in f.body:
        if not isinstance(node, ast.If):
            continue
        if not isinstance(node.test, ast.Name) or node.orelse or len(node.body) != 1:
            raise ValueError('addMatch: unexpected `if` shape: ' + ast.unparse(node.test))
        p = node.test.id
        call = node.body[0]
        if not (isinstance(call, ast.Expr) and isinstance(call.value, ast.Call)
                and ast.unparse(call.value.func) == 'r.add' and len(call.value.args) == 2
                and isinstance(call.value.args[0], ast.Constant) and isinstance(call.value.args[0].value, str)):
            raise ValueError('addMatch: unexpected body under `if %s`: %s' % (p, ast.unparse(call)))
        key = call.value.args[0].value
        val = ast.unparse(call.value.args[1])
        if val == p:
            mode = 'raw'
        elif val == '_mtypes.get(%s, %s)' % (p, p):
            mode = 'get'
        else:
            raise ValueError('addMatch: value of %r is computed in an unsupported way: %s' % (key, val))
        if p == 'mtype':
            lookup = mode
        elif mode != 'raw':
            raise ValueError('addMatch: only the message type may be translated through _mtypes')
        pairs.append((p, key))
    # the tail of the function must allocate the id the way the model does
    tail = [ast.unparse(n) for n in f.body if not isinstance(n, ast.If)]
    expected_tail = ['r = Rule(callback, self._id, self)', 'i = self._id', 'self._id += 1', 'self._rules[i] = r', 'return i']
    if tail != expected_tail:
        raise ValueError('addMatch: id allocation differs from the modelled one: %r' % (tail,))
    if lookup is None:
        raise ValueError('addMatch: no `if mtype:` branch')
    return pairs, lookup


def client_text_keys(client):
    f = fn_ast(client.DBusClientConnection.addMatch)
    keys = []
    for node in ast.walk(f):
        if isinstance(node, ast.Call) and isinstance(node.func, ast.Name) and node.func.id == 'add' and node.args:
            a = node.args[0]
            if isinstance(a, ast.Constant) and isinstance(a.value, str):
                keys.append((node.lineno, node.col_offset, a.value))
            elif isinstance(a, ast.BinOp) and isinstance(a.left, ast.Constant):
                keys.append((node.lineno, node.col_offset, a.left.value))
            else:
                raise ValueError('client.addMatch: unexpected key expression ' + ast.unparse(a))
    keys.sort()
    # the item format
    fmt = [ast.unparse(n) for n in ast.walk(f) if isinstance(n, ast.JoinedStr)]
    if fmt != ['f"{k}=\'{v}\'"']:
        raise ValueError('client.addMatch: item format is not k=\'v\': %r' % (fmt,))
    if "rule = ','.join(l)" not in [ast.unparse(n) for n in f.body]:
        raise ValueError('client.addMatch: items are not joined by a comma')
    return [k for _, _, k in keys]


def bus_kwarg_keys(bus):
    f = fn_ast(bus.Bus.dbus_AddMatch)
    for node in ast.walk(f):
        if isinstance(node, ast.Assign) and ast.unparse(node.targets[0]) == 'kwargs' and isinstance(node.value, ast.Dict):
            keys = []
            for k, v in zip(node.value.keys, node.value.values):
                if not (isinstance(k, ast.Constant) and isinstance(k.value, str)
                        and isinstance(v, ast.Constant) and v.value is None):
                    raise ValueError('dbus_AddMatch: kwargs literal is not {str: None}')
                keys.append(k.value)
            return keys
    raise ValueError('dbus_AddMatch: kwargs literal not found')


def emit(repo):
    from txdbus import router, client, bus
    mt = router._mtypes
    if not isinstance(mt, dict) or not all(isinstance(k, str) and isinstance(v, int) and not isinstance(v, bool) and v >= 0
                                           for k, v in mt.items()):
        raise ValueError('router._mtypes is not a dict str -> non-negative int')
    sk = simple_keys(router)
    pairs, lookup = add_keys(router)
    ck = client_text_keys(client)
    bk = bus_kwarg_keys(bus)
    L = []
    L.append('/-! GENERATED by tools/tables/c12_route.py from txdbus/router.py, client.py, bus.py - do not edit. -/')
    L.append('namespace Txdbus.Gen.Route')
    L.append('')
    L.append('/-- `router._mtypes` in dict order. -/')
    L.append('def mtypes : List (List Char × Nat) :=')
    L.append('  ' + llist('(%s, %d)' % (lstr(k), v) for k, v in mt.items()))
    L.append('')
    L.append('/-- the tuple of `Rule.add`: keys compared with `getattr(m, key) != value`. -/')
    L.append('def simpleKeys : List (List Char) :=')
    L.append('  ' + llist(lstr(k) for k in sk))
    L.append('')
    L.append('/-- `MessageRouter.addMatch`: (parameter, key handed to `Rule.add`) in the order of the `if` chain. -/')
    L.append('def addKeys : List (List Char × List Char) :=')
    L.append('  ' + llist('(%s, %s)' % (lstr(p), lstr(k)) for p, k in pairs))
    L.append('')
    L.append('/-- `true`: the type constraint is stored as `_mtypes.get(mtype, mtype)`; `false`: as given. -/')
    L.append('def mtypeLookup : Bool := %s' % ('true' if lookup == 'get' else 'false'))
    L.append('')
    L.append('/-- keys written by `DBusClientConnection.addMatch`, in text order (`arg` stands for `arg%d`, `arg%dpath`). -/')
    L.append('def clientTextKeys : List (List Char) :=')
    L.append('  ' + llist(lstr(k) for k in ck))
    L.append('')
    L.append('/-- keys of the `kwargs` literal of `Bus.dbus_AddMatch`. -/')
    L.append('def busKwargKeys : List (List Char) :=')
    L.append('  ' + llist(lstr(k) for k in bk))
    L.append('')
    L.append('end Txdbus.Gen.Route')
    return '\n'.join(L) + '\n'
