"""Translator for C12: the tables the match-rule code depends on.

  router._mtypes                       (runtime object)           -> Gen.Route.mtypes
  router.Rule.add                      tuple of "simple" keys     -> Gen.Route.simpleKeys      (AST)
  router.MessageRouter.addMatch        (parameter, key) pairs of the `if p: r.add('key', v)` chain, in order,
                                       and how the value of the message-type constraint is computed
                                                                  -> Gen.Route.addKeys, Gen.Route.mtypeLookup (AST)
  client.DBusClientConnection.addMatch (text key, variable) pairs          -> Gen.Route.clientTextKeys     (AST)
  objects.RemoteDBusObject.notifyOnSignal  keywords of its addMatch call    -> Gen.Route.notifyKwargs       (AST)
  bus.Bus.dbus_AddMatch                the keys of the kwargs literal       -> Gen.Route.busKwargKeys       (AST)

Anything outside the restricted shapes recognised here is a translator failure (a broken obligation).
"""
import ast
import inspect
import textwrap

MODULE = 'TxdbusModel.Gen.Route'


def lstr(s):
    """A Python str as a Lean `List Char` literal (explicit characters: reduces in the kernel)."""
    assert isinstance(s, str)
    out = []
    for ch in s:
        if ch in "'\\":
            out.append("'\\" + ch + "'")
        elif 32 <= ord(ch) < 127:
            out.append("'" + ch + "'")
        else:
            raise ValueError('unexpected character in a table string: %r' % (s,))
    return '[' + ', '.join(out) + ']'


def llist(items):
    return '[' + ', '.join(items) + ']'


def fn_ast(obj):
    src = textwrap.dedent(inspect.getsource(obj))
    mod = ast.parse(src)
    return mod.body[0]


CANON_PARAMS = ['mtype', 'sender', 'interface', 'member', 'path', 'destination', 'path_namespace', 'args',
                'arg_paths', 'arg0namespace']
CANON_SIMPLE = ['_messageType', 'mtype', 'sender', 'interface', 'member', 'path', 'destination']
CANON_BUS = ['mtype', 'sender', 'interface', 'member', 'path', 'path_namespace', 'destination', 'args', 'arg_paths',
             'arg0namespace']
CANON_TEXT = ['type', 'sender', 'interface', 'member', 'path', 'path_namespace', 'destination', 'arg%d', 'arg%dpath',
              'arg0namespace']


def canon_sorted(items, order, key=lambda x: x):
    """Sort by position in `order` (unknown entries last, alphabetically).  The order of the `if` chain in
    addMatch and of the `add(...)` calls in the client is not observable through the property (a rule is
    a conjunction; the order of the items of a rule text carries no meaning), so the table is emitted in a
    canonical order and a mere reordering in the source changes nothing here."""
    return sorted(items, key=lambda x: (order.index(key(x)) if key(x) in order else len(order), key(x)))


def _stmts(nodes):
    return [ast.unparse(n) for n in nodes]


def simple_keys(router):
    f = fn_ast(router.Rule.add)
    found = []
    for node in ast.walk(f):
        if isinstance(node, ast.If) and isinstance(node.test, ast.Compare) and len(node.test.ops) == 1 \
                and isinstance(node.test.ops[0], ast.In) and isinstance(node.test.left, ast.Name):
            keyvar = node.test.left.id
            tup = node.test.comparators[0]
            if not isinstance(tup, (ast.Tuple, ast.List, ast.Set)):
                raise ValueError('Rule.add: `key in <non-literal>`')
            keys = []
            for e in tup.elts:
                if not (isinstance(e, ast.Constant) and isinstance(e.value, str)):
                    raise ValueError('Rule.add: non-string key in the tuple')
                keys.append(e.value)
            # semantic shape: the `in` branch appends (key, value) to self.simple, the other branch sets the
            # attribute; extra statements (logging, comments) do not matter
            params = [a.arg for a in f.args.args]
            valvar = params[2] if len(params) > 2 else 'value'
            body = _stmts(node.body)
            orelse = _stmts(node.orelse)
            if 'self.simple.append((%s, %s))' % (keyvar, valvar) not in body:
                raise ValueError('Rule.add: the simple branch does not append (key, value): %r' % (body,))
            if 'setattr(self, %s, %s)' % (keyvar, valvar) not in orelse:
                raise ValueError('Rule.add: the other branch does not setattr(self, key, value): %r' % (orelse,))
            found.append(keys)
    if len(found) != 1:
        raise ValueError('Rule.add: expected exactly one `if key in (...)`, found %d' % len(found))
    return canon_sorted(found[0], CANON_SIMPLE)          # membership test: order is irrelevant


def add_keys(router):
    """[(param, key)] in canonical order, mtype lookup mode ('raw' | 'get')."""
    f = fn_ast(router.MessageRouter.addMatch)
    pairs = []
    lookup = None
    for node in f.body:
        if not isinstance(node, ast.If):
            continue
        if not isinstance(node.test, ast.Name) or node.orelse or len(node.body) != 1:
            raise ValueError('addMatch: unexpected `if` shape: ' + ast.unparse(node.test))
        p = node.test.id
        call = node.body[0]
        if not (isinstance(call, ast.Expr) and isinstance(call.value, ast.Call)
                and isinstance(call.value.func, ast.Attribute) and call.value.func.attr == 'add'
                and len(call.value.args) == 2
                and isinstance(call.value.args[0], ast.Constant) and isinstance(call.value.args[0].value, str)):
            raise ValueError('addMatch: unexpected body under `if %s`: %s' % (p, ast.unparse(call)))
        key = call.value.args[0].value
        val = ast.unparse(call.value.args[1])
        if val == p:
            mode = 'raw'
        elif val == '_mtypes.get(%s, %s)' % (p, p):
            mode = 'get'
        else:
            raise ValueError('addMatch: value of %r is computed in an unsupported way: %s' % (key, val))
        if p == 'mtype':
            lookup = mode
        elif mode != 'raw':
            raise ValueError('addMatch: only the message type may be translated through _mtypes')
        pairs.append((p, key))
    # id allocation, semantically: some name takes the value of self._id before self._id is incremented by one,
    # the rule is stored in self._rules under that name and that name is returned (variable names are free)
    idvar = None
    incremented = stored = returned = False
    for n in f.body:
        if isinstance(n, ast.Assign) and len(n.targets) == 1 and isinstance(n.targets[0], ast.Name) \
                and ast.unparse(n.value) == 'self._id' and not incremented:
            idvar = n.targets[0].id
        elif isinstance(n, ast.AugAssign) and ast.unparse(n.target) == 'self._id' and isinstance(n.op, ast.Add) \
                and ast.unparse(n.value) == '1':
            if incremented:
                raise ValueError('addMatch: self._id incremented twice')
            incremented = True
        elif isinstance(n, ast.Assign) and len(n.targets) == 1 and isinstance(n.targets[0], ast.Subscript) \
                and ast.unparse(n.targets[0].value) == 'self._rules':
            stored = idvar is not None and ast.unparse(n.targets[0].slice) == idvar
        elif isinstance(n, ast.Return):
            returned = idvar is not None and n.value is not None and ast.unparse(n.value) == idvar
    if not (idvar and incremented and stored and returned):
        raise ValueError('addMatch: id allocation differs from the modelled one (id := self._id; self._id += 1; '
                         'self._rules[id] = rule; return id)')
    if lookup is None:
        raise ValueError('addMatch: no `if mtype:` branch')
    return canon_sorted(pairs, CANON_PARAMS, key=lambda x: x[0]), lookup


_escapes = None


def _eval_expr(node, env):
    return eval(compile(ast.Expression(body=node), '<c12-table>', 'eval'), {'__builtins__': {}}, dict(env))


def client_text_keys(client):
    """[(text key, variable written under it)] in canonical order; the item format and the separator are
    checked by evaluating the source's own expressions on sample values."""
    f = fn_ast(client.DBusClientConnection.addMatch)
    pairs = []
    inner = None
    for node in ast.walk(f):
        if isinstance(node, ast.FunctionDef) and node.name == 'add' and node is not f:
            inner = node
        if isinstance(node, ast.Call) and isinstance(node.func, ast.Name) and node.func.id == 'add' and len(node.args) == 2:
            a, v = node.args
            if isinstance(a, ast.Constant) and isinstance(a.value, str):
                k = a.value
            elif isinstance(a, ast.BinOp) and isinstance(a.left, ast.Constant) and isinstance(a.op, ast.Mod):
                k = a.left.value
            else:
                raise ValueError('client.addMatch: unexpected key expression ' + ast.unparse(a))
            pairs.append((k, ast.unparse(v)))
    if inner is None:
        raise ValueError('client.addMatch: local function add(k, v) not found')
    # the item format: whatever expression is appended, it must produce k='v'
    appended = [n.args[0] for n in ast.walk(inner)
                if isinstance(n, ast.Call) and isinstance(n.func, ast.Attribute) and n.func.attr == 'append' and n.args]
    kn, vn = [a.arg for a in inner.args.args][:2]
    if len(appended) != 1 or _eval_expr(appended[0], {kn: 'K', vn: 'V'}) != "K='V'":
        raise ValueError("client.addMatch: an item is not written as k='v'")
    # escaping: the value may be rewritten before it is formatted; evaluate that expression on samples
    rewrites = [n.value for n in ast.walk(inner)
                if isinstance(n, ast.Assign) and len(n.targets) == 1 and ast.unparse(n.targets[0]) == vn]
    global _escapes
    if not rewrites:
        _escapes = False
    elif len(rewrites) == 1:
        def rw(x):
            return eval(compile(ast.Expression(body=rewrites[0]), '<c12-table>', 'eval'), {'__builtins__': {}, 'str': str}, {vn: x})
        if rw("a'b'") == "a'\\''b'\\''" and rw('plain,=\\') == 'plain,=\\':
            _escapes = True
        elif rw("a'b") == "a'b":
            _escapes = False
        else:
            raise ValueError("client.addMatch: the value is rewritten in an unsupported way: " + ast.unparse(rewrites[0]))
    else:
        raise ValueError('client.addMatch: the value is rewritten more than once')
    guards = [ast.unparse(n.test) for n in ast.walk(inner) if isinstance(n, ast.If)]
    if guards != ['%s is not None' % vn]:
        raise ValueError('client.addMatch: add() is not guarded by `v is not None`: %r' % (guards,))
    # the separator: the value assigned to `rule`, evaluated on a sample list
    joined = [n.value for n in f.body if isinstance(n, ast.Assign) and ast.unparse(n.targets[0]) == 'rule']
    lname = [ast.unparse(n.targets[0]) for n in f.body
             if isinstance(n, ast.Assign) and isinstance(n.value, ast.List) and not n.value.elts]
    if len(joined) != 1 or len(lname) != 1 or _eval_expr(joined[0], {lname[0]: ['A', 'B']}) != 'A,B':
        raise ValueError('client.addMatch: the items are not joined by a comma')
    return canon_sorted(pairs, CANON_TEXT, key=lambda x: x[0])


def bus_kwarg_keys(bus):
    f = fn_ast(bus.Bus.dbus_AddMatch)
    for node in ast.walk(f):
        if isinstance(node, ast.Assign) and ast.unparse(node.targets[0]) == 'kwargs' and isinstance(node.value, ast.Dict):
            keys = []
            for k, v in zip(node.value.keys, node.value.values):
                if not (isinstance(k, ast.Constant) and isinstance(k.value, str)
                        and isinstance(v, ast.Constant) and v.value is None):
                    raise ValueError('dbus_AddMatch: kwargs literal is not {str: None}')
                keys.append(k.value)
            return canon_sorted(keys, CANON_BUS)
    raise ValueError('dbus_AddMatch: kwargs literal not found')


def notify_kwargs(objects):
    """The keyword arguments of the addMatch call made by RemoteDBusObject.notifyOnSignal: [(keyword, source text)]."""
    f = fn_ast(objects.RemoteDBusObject.notifyOnSignal)
    calls = [n for n in ast.walk(f) if isinstance(n, ast.Call) and isinstance(n.func, ast.Attribute)
             and n.func.attr == 'addMatch']
    if len(calls) != 1 or len(calls[0].args) != 1:
        raise ValueError('notifyOnSignal: expected one addMatch(callback, **kw) call')
    return canon_sorted([(k.arg, ast.unparse(k.value)) for k in calls[0].keywords], CANON_PARAMS, key=lambda x: x[0])


def emit(repo):
    from txdbus import router, client, bus, objects
    mt = router._mtypes
    if not isinstance(mt, dict) or not all(isinstance(k, str) and isinstance(v, int) and not isinstance(v, bool) and v >= 0
                                           for k, v in mt.items()):
        raise ValueError('router._mtypes is not a dict str -> non-negative int')
    sk = simple_keys(router)
    pairs, lookup = add_keys(router)
    ck = client_text_keys(client)
    bk = bus_kwarg_keys(bus)
    nk = notify_kwargs(objects)
    L = []
    L.append('/-! GENERATED by tools/tables/c12_route.py from txdbus/router.py, client.py, bus.py - do not edit. -/')
    L.append('namespace Txdbus.Gen.Route')
    L.append('')
    L.append('/-- `router._mtypes`, sorted by code. -/')
    L.append('def mtypes : List (List Char × Nat) :=')
    L.append('  ' + llist('(%s, %d)' % (lstr(k), v) for k, v in sorted(mt.items(), key=lambda kv: (kv[1], kv[0]))))
    L.append('')
    L.append('/-- the tuple of `Rule.add`: keys compared with `getattr(m, key) != value`. -/')
    L.append('def simpleKeys : List (List Char) :=')
    L.append('  ' + llist(lstr(k) for k in sk))
    L.append('')
    L.append('/-- `MessageRouter.addMatch`: (parameter, key handed to `Rule.add`) canonical order (the order of the `if` chain is not observable). -/')
    L.append('def addKeys : List (List Char × List Char) :=')
    L.append('  ' + llist('(%s, %s)' % (lstr(p), lstr(k)) for p, k in pairs))
    L.append('')
    L.append('/-- `true`: the type constraint is stored as `_mtypes.get(mtype, mtype)`; `false`: as given. -/')
    L.append('def mtypeLookup : Bool := %s' % ('true' if lookup == 'get' else 'false'))
    L.append('')
    L.append("/-- `true`: `DBusClientConnection.addMatch` writes an apostrophe inside a value as '\\'' (DBus quoting rule). -/")
    L.append('def clientEscapes : Bool := %s' % ('true' if _escapes else 'false'))
    L.append('')
    L.append('/-- `DBusClientConnection.addMatch`: (key of the rule text, variable written under it), canonical order. -/')
    L.append('def clientTextKeys : List (List Char × List Char) :=')
    L.append('  ' + llist('(%s, %s)' % (lstr(k), lstr(v)) for k, v in ck))
    L.append('')
    L.append('/-- keyword arguments of the `addMatch` call in `RemoteDBusObject.notifyOnSignal`: (keyword, source text). -/')
    L.append('def notifyKwargs : List (List Char × List Char) :=')
    L.append('  ' + llist('(%s, %s)' % (lstr(k), lstr(v)) for k, v in nk))
    L.append('')
    L.append('/-- keys of the `kwargs` literal of `Bus.dbus_AddMatch`. -/')
    L.append('def busKwargKeys : List (List Char) :=')
    L.append('  ' + llist(lstr(k) for k in bk))
    L.append('')
    L.append('end Txdbus.Gen.Route')
    return '\n'.join(L) + '\n'
