"""Translator for C12: the tables the match-rule code depends on.

Every table is derived by PROBING the code of the tree under test over the table's whole (finite) domain;
where the source still has the shape a syntactic recogniser knows, the recogniser's reading is cross-checked
against the probe (disagreement = translator error).  An unknown shape is not an error: the probe is the
translator, and a sentence goes to ADVISORIES (the pipeline then widens the correspondence run).

  Gen.Route.mtypes          message type name -> code the type constraint is compared with
                            probe: a rule `mtype=<name>` against messages of every type code (cross-check: the module-level
                            table of type names, `router._mtypes` or whatever dict str -> int knows 'signal')
  Gen.Route.addKeys         for every parameter of MessageRouter.addMatch: the message attribute it is compared with,
  Gen.Route.simpleKeys      or `path_namespace` / `args` / `arg_paths` (evaluated as such), or its own name (not
  Gen.Route.mtypeLookup     evaluated).  probe: a rule with that parameter alone against duck-typed messages that
                            differ in one attribute (cross-check: the `if p: r.add('key', v)` chain + tuple of Rule.add)
  Gen.Route.evaluatesArg0ns does Rule.match evaluate arg0namespace (first argument a string in the bus-name namespace: the
                            router after fixes/C14-05) or ignore it (txdbus as found)?  probe: a rule arg0namespace='com.ex'
                            against bodies inside / outside the namespace, non-string, empty, absent; anything else than
                            "exactly the inside ones" or "all" is a translator error
  (id allocation)           probe: ids returned by addMatch over a history with removals are 0,1,2,... never reissued
                            (what the model does); anything else is a translator error
  Gen.Route.clientTextKeys  for every parameter of DBusClientConnection.addMatch: the key it is written under
  Gen.Route.clientEscapes   probe: the real addMatch with callRemote stubbed; item format k='v', comma separator,
                            None omitted, apostrophe written as '\''
  Gen.Route.busKwargKeys    rule-text keys that Bus.dbus_AddMatch hands to the router as they are
                            probe: dbus_AddMatch("<k>='v'") for every parameter name of MessageRouter.addMatch
  Gen.Route.notifyKwargs    what RemoteDBusObject.notifyOnSignal passes to addMatch
                            probe: a proxy on a recording connection, distinctive path / signal / interface names
"""
import ast
import inspect
import textwrap

MODULE = 'TxdbusModel.Gen.Route'
ADVISORIES = []


# ----------------------------------------------------------------------------------------------- Lean output
def lstr(s):
    """A Python str as a Lean `List Char` literal (explicit characters: reduces in the kernel)."""
    assert isinstance(s, str)
    out = []
    for ch in s:
        if ch in "'\\":
            out.append("'\\" + ch + "'")
        elif 32 <= ord(ch) < 127:
            out.append("'" + ch + "'")
        else:
            raise ValueError('unexpected character in a table string: %r' % (s,))
    return '[' + ', '.join(out) + ']'


def llist(items):
    return '[' + ', '.join(items) + ']'


CANON_PARAMS = ['mtype', 'sender', 'interface', 'member', 'path', 'destination', 'path_namespace', 'args',
                'arg_paths', 'arg0namespace']
CANON_SIMPLE = ['_messageType', 'mtype', 'sender', 'interface', 'member', 'path', 'destination']
CANON_BUS = ['mtype', 'sender', 'interface', 'member', 'path', 'path_namespace', 'destination', 'args', 'arg_paths',
             'arg0namespace']
CANON_TEXT = ['type', 'sender', 'interface', 'member', 'path', 'path_namespace', 'destination', 'arg%d', 'arg%dpath',
              'arg0namespace']
CANON_NOTIFY = ['mtype', 'interface', 'member', 'path']


def canon_sorted(items, order, key=lambda x: x):
    """Sort by position in `order` (unknown entries last, alphabetically): the order of the `if` chain in
    addMatch / of the `add(...)` calls in the client is not observable through the property."""
    return sorted(items, key=lambda x: (order.index(key(x)) if key(x) in order else len(order), key(x)))


# ----------------------------------------------------------------------------------------------- probing: router
class _Msg:
    """Duck-typed message: Rule.match only reads attributes."""
    def __init__(self, **kw):
        self.__dict__.update(kw)


_BASE = dict(_messageType=4, interface='i.f', member='Mem', path='/p/q', destination=':1.9', sender=':1.8',
             body=['b0', '/b/1'], signature='ss')
_ATTRS = ['interface', 'member', 'path', 'destination', 'sender']


class _Quiet:
    def err(self, *a, **k):
        pass

    def msg(self, *a, **k):
        pass


def _delivered(router_mod, kwargs, **attrs):
    """Does a fresh MessageRouter hand a message with these attributes to the callback of the rule `kwargs`?"""
    from twisted.python import log as twisted_log
    swapped = [(n, v) for n, v in list(vars(router_mod).items()) if v is twisted_log]
    for n, _ in swapped:
        setattr(router_mod, n, _Quiet())
    try:
        r = router_mod.MessageRouter()
        hits = []
        r.addMatch(hits.append, **kwargs)
        d = dict(_BASE)
        d.update(attrs)
        r.routeMessage(_Msg(**d))
        return len(hits) == 1
    finally:
        for n, v in swapped:
            setattr(router_mod, n, v)


def _router_params(router_mod):
    ps = list(inspect.signature(router_mod.MessageRouter.addMatch).parameters)
    return [p for p in ps if p not in ('self', 'callback')]


# first-argument probes for a namespace 'com.ex' (inside / outside it by the DBus specification)
_NS_INSIDE = [['com.ex'], ['com.ex.a'], ['com.ex.a.b', 'x']]
_NS_OUTSIDE = [['com.exx'], ['com.e'], ['org.other'], ['x', 'com.ex'], [7], [['com.ex']], [], None]


def probe_router(router_mod):
    """-> (addKeys [(param, key)], simpleKeys, mtypeLookup, mtypes [(name, code)], arg0namespace evaluated?)"""
    D = lambda kw, **a: _delivered(router_mod, kw, **a)
    pairs, simple = [], []
    lookup = None
    mtypes = []
    arg0ns_evaluated = False
    PV = 'Pv.probe'
    for p in _router_params(router_mod):
        kind = None
        # --- compared with the message type?
        try:
            by_code = D({p: 'signal'}, _messageType=4) and not D({p: 'signal'}, _messageType=3) \
                and not D({p: 'signal'}, _messageType='signal')
            by_name = D({p: 'signal'}, _messageType='signal') and not D({p: 'signal'}, _messageType=4) \
                and not D({p: 'signal'}, _messageType='error')
        except Exception:
            by_code = by_name = False
        if by_code or by_name:
            kind = '_messageType'
            simple.append(kind)
            lookup = bool(by_code)
            if by_code:
                for name in ('method_call', 'method_return', 'error', 'signal'):
                    codes = [c for c in range(0, 9) if D({p: name}, _messageType=c)]
                    if len(codes) != 1:
                        raise ValueError('probe: type name %r is compared with the codes %r' % (name, codes))
                    mtypes.append((name, codes[0]))
                if any(D({p: 'no_such_type'}, _messageType=c) for c in range(0, 9)):
                    raise ValueError('probe: an unknown type name matches a message')
        # --- compared with one string attribute of the message?
        if kind is None:
            try:
                hits = [x for x in _ATTRS if D({p: PV}, **{x: PV}) and not D({p: PV})
                        and not D({p: PV}, **{y: PV for y in _ATTRS if y != x})
                        and not D({p: PV}, **{x: PV + '/x'}) and not D({p: PV + '/'}, **{x: PV})
                        and not D({p: PV}, **{x: None})]
            except Exception:
                hits = []
            if len(hits) == 1:
                kind = hits[0]
                simple.append(kind)
            elif len(hits) > 1:
                raise ValueError('probe: parameter %r is compared with several attributes: %r' % (p, hits))
        # --- a path namespace?
        if kind is None:
            try:
                if D({p: '/p'}, path='/p/q') and D({p: '/p'}, path='/p') and not D({p: '/p'}, path='/pq') \
                        and not D({p: '/p'}, path='/x') and not D({p: '/p'}, path=None):
                    kind = 'path_namespace'
            except Exception:
                pass
        # --- argument constraints (a list of (index, value) pairs)?
        if kind is None:
            try:
                exact = D({p: [(0, 'b0')]}, body=['b0']) and not D({p: [(0, 'b0')]}, body=['b0x']) \
                    and not D({p: [(0, 'b0')]}, body=None) and not D({p: [(1, 'b0')]}, body=['b0'])
                if exact:
                    kind = 'arg_paths' if D({p: [(0, '/b/')]}, body=['/b/1']) else 'args'
            except Exception:
                pass
        # --- the namespace of the first argument (arg0namespace with the meaning of the DBus specification: the first
        #     argument is a string equal to the value or continuing it after a dot)?
        if kind is None:
            try:
                inside = all(D({p: 'com.ex'}, body=b) for b in _NS_INSIDE)
                outside = not any(D({p: 'com.ex'}, body=b) for b in _NS_OUTSIDE)
            except Exception:
                inside = outside = False
            if inside and outside:
                if p != 'arg0namespace':
                    raise ValueError('probe: the parameter %r of MessageRouter.addMatch is evaluated as a bus-name namespace '
                                     'of the first argument; the model knows that only for arg0namespace' % (p,))
                kind = p                # stored under its own name; the switch below says that it is evaluated
                arg0ns_evaluated = True
        # --- not evaluated at all?
        if kind is None:
            try:
                ignored = D({p: PV}) and D({p: '/zz'}, path='/p/q') and D({p: PV}, body=None)
            except Exception:
                ignored = False
            if not ignored:
                raise ValueError('probe: cannot classify the parameter %r of MessageRouter.addMatch' % (p,))
            kind = p
        pairs.append((p, kind))
    if lookup is None:
        # no parameter is compared with the message type (the tree before C12-01): the model needs a value
        # for the mode; `False` = "the value is stored as given" is what an unevaluated constraint amounts to
        lookup = False
    if not mtypes:
        mt = find_type_table(router_mod)
        if isinstance(mt, dict):
            mtypes = sorted(mt.items(), key=lambda kv: (kv[1], kv[0]))
        else:
            raise ValueError('probe: no type constraint is evaluated and the router has no table of type names')
    return (canon_sorted(pairs, CANON_PARAMS, key=lambda x: x[0]), canon_sorted(sorted(set(simple)), CANON_SIMPLE),
            lookup, sorted(mtypes, key=lambda kv: (kv[1], kv[0])), arg0ns_evaluated)


def find_type_table(router_mod):
    """The module-level table of type names (`router._mtypes` is its private name today; after a rename it is
    found by its shape: a dict str -> int that knows 'signal').  None when there is no such table."""
    mt = getattr(router_mod, '_mtypes', None)
    if isinstance(mt, dict):
        return mt
    cands = [v for k, v in vars(router_mod).items()
             if isinstance(v, dict) and v and all(isinstance(a, str) and isinstance(b, int) for a, b in v.items())
             and 'signal' in v]
    return cands[0] if len(cands) == 1 else None


def probe_ids(router_mod):
    """The model allocates 0, 1, 2, ... and never reissues an id; confirm on the real router."""
    r = router_mod.MessageRouter()
    cb = lambda m: None
    got = [r.addMatch(cb), r.addMatch(cb, member='x'), r.addMatch(cb)]
    r.delMatch(got[1])
    got.append(r.addMatch(cb))
    for i in list(got):
        if i != got[1]:
            r.delMatch(i)
    got.append(r.addMatch(cb))
    got.append(r.addMatch(cb))
    if got != [0, 1, 2, 3, 4, 5]:
        raise ValueError('probe: MessageRouter.addMatch hands out the ids %r over add,add,add,del,add,del*,add,add; '
                         'the model hands out 0..5' % (got,))
    try:
        r.delMatch(got[1])
    except KeyError:
        return
    raise ValueError('probe: delMatch of a removed id does not raise KeyError (the model does)')


# ----------------------------------------------------------------------------------------------- probing: client
def _probe_connection(client_mod):
    """A connection in the state in which an application calls addMatch: authenticated and Hello answered, by the
    public handshake on a StringTransport - so that whatever per-connection state addMatch consults (the local
    router, the table of rule texts, ...) exists.  Fallback: an uninitialised instance, enough for an addMatch
    that only formats the text and calls callRemote."""
    try:
        from twisted.internet.testing import StringTransport
        from txdbus import message
        c = client_mod.DBusClientConnection()
        c.factory = client_mod.DBusClientFactory()
        t = StringTransport()
        c.makeConnection(t)
        t.clear()
        c.dataReceived(b'OK 1234deadbeef\r\n')
        raw = t.value()
        hello = message.parseMessage(raw[raw.index(b'BEGIN\r\n') + 7:], [])
        c.dataReceived(message.MethodReturnMessage(hello.serial, body=[':1.7'], signature='s',
                                                   destination=':1.7').rawMessage)
        if c.busName == ':1.7':
            return c
    except Exception:
        pass
    return object.__new__(client_mod.DBusClientConnection)


def probe_client(client_mod):
    """-> ([(text key, parameter)], escapes)"""
    from twisted.internet import defer
    sent = []

    def call_remote(path, member, **kw):
        sent.append((member, kw.get('body')))
        return defer.Deferred()

    def text(**kw):
        # a fresh connection per probe: the text written for one rule must not depend on earlier probes
        c = _probe_connection(client_mod)
        c.callRemote = call_remote
        del sent[:]
        c.addMatch(lambda m: None, **kw)
        if len(sent) != 1 or sent[0][0] != 'AddMatch' or len(sent[0][1]) != 1:
            raise ValueError('probe: client.addMatch(%r) did not issue one AddMatch(text): %r' % (kw, sent))
        return sent[0][1][0]
    params = [p for p in inspect.signature(client_mod.DBusClientConnection.addMatch).parameters
              if p not in ('self', 'callback')]
    if text() != '':
        raise ValueError('probe: the rule without constraints is not the empty text')
    pairs = []
    for p in params:
        t = None
        try:
            t = text(**{p: 'Vv'})
            if t.endswith("='Vv'") and "'" not in t[:-5] and ',' not in t:
                pairs.append((t[:-5], p))
                continue
        except Exception:
            pass
        try:
            t = text(**{p: [(7, 'Vv'), (12, 'Ww')]})
        except Exception as e:
            raise ValueError('probe: client parameter %r accepts neither a string nor (index, value) pairs: %r' % (p, e))
        a, _, b = t.partition(',')
        if not (a.endswith("='Vv'") and b.endswith("='Ww'") and a[:-5].replace('7', '%d', 1) == b[:-5].replace('12', '%d', 1)
                and '7' in a[:-5]):
            raise ValueError('probe: unexpected text for %s=[(7, ..), (12, ..)]: %r' % (p, t))
        pairs.append((a[:-5].replace('7', '%d', 1), p))
        if text(**{p: []}) != '':
            raise ValueError('probe: an empty %s list is written into the text' % p)
    # separator, order-free: two parameters
    if len(pairs) >= 2:
        k1, p1 = pairs[0]
        k2, p2 = next((k, p) for k, p in pairs if '%d' not in k and p != p1)
        t = text(**{p1: 'A', p2: 'B'})
        if sorted(t.split(',')) != sorted(["%s='A'" % k1, "%s='B'" % k2]):
            raise ValueError('probe: two constraints are not written as two comma-separated items: %r' % (t,))
    # escaping
    k1, p1 = next((k, p) for k, p in pairs if '%d' not in k)
    t = text(**{p1: "a'b'"})
    if t == "%s='a'\\''b'\\'''" % k1:
        esc = True
    elif t == "%s='a'b''" % k1:
        esc = False
    else:
        raise ValueError('probe: a value with apostrophes is written in an unsupported way: %r' % (t,))
    if text(**{p1: 'x,=\\y'}) != "%s='x,=\\y'" % k1:
        raise ValueError('probe: comma / equals / backslash inside a value are rewritten')
    return canon_sorted(pairs, CANON_TEXT, key=lambda x: x[0]), esc


# ----------------------------------------------------------------------------------------------- probing: bus
def _bus_router(b):
    r = getattr(b, 'router', None)
    if r is not None and hasattr(r, 'addMatch'):
        return r
    for v in vars(b).values():
        if hasattr(v, 'addMatch') and hasattr(v, 'routeMessage') and hasattr(v, 'delMatch'):
            return v
    raise ValueError('probe: the router of the Bus object was not found')


def _bus_peer(bus_mod, b):
    """A connection the bus knows: a real BusProtocol announced through Bus.clientConnected; fallback a stand-in."""
    try:
        from twisted.internet.testing import StringTransport
        from twisted.internet.protocol import Factory
        f = Factory()
        f.protocol = bus_mod.BusProtocol
        f.bus = b
        p = f.buildProtocol(None)
        p.makeConnection(StringTransport())
        p._authenticated = True
        p.connectionAuthenticated()
        b.clientConnected(p)
        p.sendMessage = lambda m: None
        if isinstance(getattr(p, 'uniqueName', None), str):
            return p
    except Exception:
        pass

    class Peer:
        uniqueName = ':1.1'

        def __init__(self):
            self.matchRules = set()
            self.busNames = {}
            self.isConnected = True

        def sendMessage(self, m):
            pass
    peer = Peer()
    b.clients[peer.uniqueName] = peer
    return peer


def probe_bus(bus_mod, router_mod):
    """Keys of the rule text that dbus_AddMatch passes on under their own name (after type -> mtype)."""
    def run(text):
        b = bus_mod.Bus()
        peer = _bus_peer(bus_mod, b)
        rt = _bus_router(b)
        seen = []
        real = rt.addMatch

        def spy(cb, **kw):
            seen.append(kw)
            return real(cb)
        rt.addMatch = spy
        b.dbus_AddMatch(text, dbusCaller=peer.uniqueName)
        return seen
    seen = run("type='v'")
    if not seen or seen[0].get('mtype') != 'v':
        raise ValueError("probe: dbus_AddMatch does not pass type='v' on as mtype")
    keys = []
    for k in _router_params(router_mod):
        try:
            seen = run("%s='v'" % k)
        except Exception:
            continue
        if seen and seen[0].get(k) == 'v':
            keys.append(k)
    return canon_sorted(keys, CANON_BUS)


# ----------------------------------------------------------------------------------------------- probing: proxy
def probe_notify(objects_mod, interface_mod):
    class Conn:
        def __init__(self):
            self.calls = []

        def addMatch(self, cb, **kw):
            from twisted.internet import defer
            self.calls.append(kw)
            return defer.Deferred()

    class Handler:
        pass
    h = Handler()
    h.conn = Conn()
    iface = interface_mod.DBusInterface('probe.Iface', interface_mod.Signal('ProbeSig', 's'))
    ro = objects_mod.RemoteDBusObject(h, 'probe.bus', '/probe/obj', [iface])
    ro.notifyOnSignal('ProbeSig', lambda *a: None)
    if len(h.conn.calls) != 1:
        raise ValueError('probe: notifyOnSignal did not call addMatch once')
    roles = {'signal': "'signal'", '/probe/obj': 'objectPath', 'ProbeSig': 'signalName', 'probe.Iface': 'interfaceName',
             'probe.bus': 'busName'}
    out = []
    for k, v in h.conn.calls[0].items():
        if v is None:
            continue
        if v not in roles:
            raise ValueError('probe: notifyOnSignal passes %s=%r to addMatch' % (k, v))
        out.append((k, roles[v]))
    return canon_sorted(out, CANON_NOTIFY, key=lambda x: x[0])


# ----------------------------------------------------------------------------------------------- recognisers (cross-check)
def fn_ast(obj):
    src = textwrap.dedent(inspect.getsource(obj))
    return ast.parse(src).body[0]


def recognise_router(router):
    """The shape `if key in (<literals>)` in Rule.add and `if p: r.add('key', value)` in addMatch.
    -> (addKeys, simpleKeys, lookup) or raises ValueError('unrecognised ...')."""
    f = fn_ast(router.Rule.add)
    found = []
    for node in ast.walk(f):
        if isinstance(node, ast.If) and isinstance(node.test, ast.Compare) and len(node.test.ops) == 1 \
                and isinstance(node.test.ops[0], ast.In) and isinstance(node.test.left, ast.Name):
            tup = node.test.comparators[0]
            if not isinstance(tup, (ast.Tuple, ast.List, ast.Set)):
                raise ValueError('Rule.add: `key in <non-literal>`')
            keys = []
            for e in tup.elts:
                if not (isinstance(e, ast.Constant) and isinstance(e.value, str)):
                    raise ValueError('Rule.add: non-string key in the tuple')
                keys.append(e.value)
            found.append(keys)
    if len(found) != 1:
        raise ValueError('Rule.add: expected exactly one `if key in (...)`, found %d' % len(found))
    f = fn_ast(router.MessageRouter.addMatch)
    pairs, lookup = [], None
    for node in f.body:
        if not isinstance(node, ast.If):
            continue
        if not isinstance(node.test, ast.Name) or node.orelse or len(node.body) != 1:
            raise ValueError('addMatch: unexpected `if` shape: ' + ast.unparse(node.test))
        p = node.test.id
        call = node.body[0]
        if not (isinstance(call, ast.Expr) and isinstance(call.value, ast.Call)
                and isinstance(call.value.func, ast.Attribute) and call.value.func.attr == 'add'
                and len(call.value.args) == 2
                and isinstance(call.value.args[0], ast.Constant) and isinstance(call.value.args[0].value, str)):
            raise ValueError('addMatch: unexpected body under `if %s`: %s' % (p, ast.unparse(call)))
        key = call.value.args[0].value
        val = ast.unparse(call.value.args[1])
        if val == p:
            mode = False
        elif val == '_mtypes.get(%s, %s)' % (p, p):
            mode = True
        else:
            raise ValueError('addMatch: value of %r is computed in an unsupported way: %s' % (key, val))
        if p == 'mtype':
            lookup = mode
        pairs.append((p, key))
    if not pairs:
        raise ValueError('addMatch: no `if p: r.add(key, p)` chain')
    return (canon_sorted(pairs, CANON_PARAMS, key=lambda x: x[0]), canon_sorted(found[0], CANON_SIMPLE), lookup)


def behaviour_of(pairs, simple):
    """What a (param -> key, simple keys) reading means, in the probe's vocabulary."""
    out = []
    for p, k in pairs:
        if k in simple:
            out.append((p, k))
        elif k in ('path_namespace', 'args', 'arg_paths'):
            out.append((p, k))
        else:
            out.append((p, p))          # set as an attribute nobody reads: not evaluated
    return out


def recognise_bus(bus):
    f = fn_ast(bus.Bus.dbus_AddMatch)
    for node in ast.walk(f):
        if isinstance(node, ast.Assign) and ast.unparse(node.targets[0]) == 'kwargs' and isinstance(node.value, ast.Dict):
            keys = []
            for k, v in zip(node.value.keys, node.value.values):
                if not (isinstance(k, ast.Constant) and isinstance(k.value, str)
                        and isinstance(v, ast.Constant) and v.value is None):
                    raise ValueError('dbus_AddMatch: kwargs literal is not {str: None}')
                keys.append(k.value)
            return canon_sorted(keys, CANON_BUS)
    raise ValueError('dbus_AddMatch: kwargs literal not found')


def recognise_client(client):
    """Text keys in the literal `add('<key>', <var>)` calls of client.addMatch."""
    f = fn_ast(client.DBusClientConnection.addMatch)
    keys = []
    for node in ast.walk(f):
        if isinstance(node, ast.Call) and isinstance(node.func, ast.Name) and node.func.id == 'add' and len(node.args) == 2:
            a = node.args[0]
            if isinstance(a, ast.Constant) and isinstance(a.value, str):
                keys.append(a.value)
            elif isinstance(a, ast.BinOp) and isinstance(a.left, ast.Constant) and isinstance(a.op, ast.Mod):
                keys.append(a.left.value)
            else:
                raise ValueError('client.addMatch: unexpected key expression ' + ast.unparse(a))
    if not keys:
        raise ValueError('client.addMatch: no add(key, value) calls')
    return canon_sorted(keys, CANON_TEXT)


def cross_check(what, recogniser, probed, project=lambda x: x):
    """Run a recogniser; an unknown shape is an advisory, a different reading is an error."""
    try:
        seen = recogniser()
    except ValueError as e:
        ADVISORIES.append('%s: source shape not recognised (%s); table derived by probing the code' % (what, e))
        return
    except (OSError, TypeError) as e:
        ADVISORIES.append('%s: source not available (%r); table derived by probing the code' % (what, e))
        return
    if project(seen) != probed:
        raise ValueError('%s: the source reads as %r but the code behaves as %r' % (what, project(seen), probed))


# ----------------------------------------------------------------------------------------------- emit
def emit(repo):
    del ADVISORIES[:]
    from txdbus import router, client, bus, objects, interface
    pairs, simple, lookup, mtypes, arg0ns_evaluated = probe_router(router)
    probe_ids(router)
    ck, esc = probe_client(client)
    bk = probe_bus(bus, router)
    nk = probe_notify(objects, interface)

    def typed(prs, lk):
        # the translation mode only means something when a parameter is compared with the message type
        return (prs, lk if any(k == '_messageType' for _, k in prs) else None)
    cross_check('router.Rule.add / MessageRouter.addMatch', lambda: recognise_router(router), typed(pairs, lookup),
                project=lambda r: typed(behaviour_of(r[0], r[1]), r[2]))
    mt = find_type_table(router)
    if isinstance(mt, dict):
        if sorted(mt.items(), key=lambda kv: (kv[1], kv[0])) != mtypes:
            raise ValueError('the router\'s table of type names is %r but type constraints behave as %r' % (mt, mtypes))
    else:
        ADVISORIES.append('no module-level table of type names found in txdbus.router; the table was derived by probing '
                          'type constraints')
    cross_check('bus.Bus.dbus_AddMatch kwargs', lambda: recognise_bus(bus), bk)
    cross_check('client.DBusClientConnection.addMatch text keys', lambda: recognise_client(client), [k for k, _ in ck])

    L = []
    L.append('/-! GENERATED by tools/tables/c12_route.py from txdbus/router.py, client.py, bus.py, objects.py - do not edit. -/')
    L.append('namespace Txdbus.Gen.Route')
    L.append('')
    L.append('/-- type name -> the code a `type` constraint is compared with (`router._mtypes`), sorted by code. -/')
    L.append('def mtypes : List (List Char × Nat) :=')
    L.append('  ' + llist('(%s, %d)' % (lstr(k), v) for k, v in mtypes))
    L.append('')
    L.append('/-- message attributes that some parameter of `MessageRouter.addMatch` is compared with (`Rule.add`). -/')
    L.append('def simpleKeys : List (List Char) :=')
    L.append('  ' + llist(lstr(k) for k in simple))
    L.append('')
    L.append('/-- `MessageRouter.addMatch`: (parameter, what it is evaluated as): a message attribute, `path_namespace`,')
    L.append('`args`, `arg_paths`, or its own name when it is not evaluated.  Canonical order. -/')
    L.append('def addKeys : List (List Char × List Char) :=')
    L.append('  ' + llist('(%s, %s)' % (lstr(p), lstr(k)) for p, k in pairs))
    L.append('')
    L.append('/-- `true`: the type constraint is compared through the table of type names; `false`: as given. -/')
    L.append('def mtypeLookup : Bool := %s' % ('true' if lookup else 'false'))
    L.append('')
    L.append('/-- `true`: `Rule.match` evaluates a rule\'s `arg0namespace` with the meaning of the DBus specification (the first')
    L.append('argument is a string, equal to the value or continuing it after a dot: fixes/C14-05); `false`: the value is')
    L.append('stored and never evaluated (txdbus as found). -/')
    L.append('def evaluatesArg0ns : Bool := %s' % ('true' if arg0ns_evaluated else 'false'))
    L.append('')
    L.append("/-- `true`: `DBusClientConnection.addMatch` writes an apostrophe inside a value as '\\'' (DBus quoting rule). -/")
    L.append('def clientEscapes : Bool := %s' % ('true' if esc else 'false'))
    L.append('')
    L.append('/-- `DBusClientConnection.addMatch`: (key of the rule text, parameter written under it), canonical order. -/')
    L.append('def clientTextKeys : List (List Char × List Char) :=')
    L.append('  ' + llist('(%s, %s)' % (lstr(k), lstr(v)) for k, v in ck))
    L.append('')
    L.append('/-- what `RemoteDBusObject.notifyOnSignal` passes to `addMatch`: (keyword, role of the value). -/')
    L.append('def notifyKwargs : List (List Char × List Char) :=')
    L.append('  ' + llist('(%s, %s)' % (lstr(k), lstr(v)) for k, v in nk))
    L.append('')
    L.append('/-- rule-text keys that `Bus.dbus_AddMatch` hands to the router under their own name. -/')
    L.append('def busKwargKeys : List (List Char) :=')
    L.append('  ' + llist(lstr(k) for k in bk))
    L.append('')
    L.append('end Txdbus.Gen.Route')
    return '\n'.join(L) + '\n'
