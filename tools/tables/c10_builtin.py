"""Translator for C10 (extension 2026-09-30): the part of the dispatcher's input that the LIBRARY provides - the
class `DBusObject` every exported object derives from, as the dispatcher sees it (its `dbusInterfaces`: the
org.freedesktop.DBus.Properties interface, and the functions of its `__dict__` with their `@dbusMethod`
decorations and positional parameters), and what the three library methods behind Properties.Get / Set / GetAll
answer in the cases the code decides by itself (unknown property, wrong access, unknown interface).

Everything is derived from PUBLIC behaviour of the tree under test:
  * `vars(objects.DBusObject)` (documented class; `dbusInterfaces` is its documented attribute), decorations through
    harness/c10_locate.deco_of_library, `Method.sigIn/sigOut` (public), `nret` through `nret_of`;
  * the errors by sending real Properties calls (bytes, parsed back) to `handleMethodCallMessage` of a handler with a
    stub connection and reading the replies re-parsed from the wire.
Roles (which member is Get / Set / GetAll) are found by the DBus specification's signatures `ss` / `ssv` / `s`, the
interface by having exactly those three; names are pinned by `builtin_table_shape` in Properties/C10.lean.
"""
import inspect

from tables import c10_dispatch as D

MODULE = 'TxdbusModel.Gen.DispatchBuiltin'
ADVISORIES = []

LIB_FID_BASE = 10000


def library_functions(objects):
    """(attribute name, function) of `vars(DBusObject)` in dict order."""
    return [(n, f) for n, f in vars(objects.DBusObject).items() if inspect.isfunction(f)]


def library_fids(objects):
    """function object id -> model id of the functions of DBusObject (position in its __dict__)."""
    return {id(f): LIB_FID_BASE + k for k, (n, f) in enumerate(library_functions(objects))}


def _lean_opt_pair(d):
    if d is None:
        return 'none'
    return 'some (%s, %s)' % (D._lean_str(d[0]), D._lean_str(d[1]))


def _only_replies(replies):
    """method returns and errors (a PropertiesChanged signal sent during Set is not a reply)"""
    return [r for r in replies if D._is_ret(r) or D._is_err(r)]


def _err(replies, exc, what):
    replies = _only_replies(replies)
    if exc is not None or len(replies) != 1 or not D._is_err(replies[0]):
        raise D.TranslatorError('%s: expected exactly one error reply, got %r (raised %r)'
                                % (what, [type(r).__name__ for r in replies], exc))
    r = replies[0]
    return r.error_name, (r.body[0] if r.body else '')


def _ret(replies, exc, what):
    replies = _only_replies(replies)
    if exc is not None or len(replies) != 1 or not D._is_ret(replies[0]):
        raise D.TranslatorError('%s: expected exactly one method return, got %r (raised %r)'
                                % (what, [type(r).__name__ for r in replies], exc))
    return replies[0].signature or ''


def tables(repo):
    from txdbus import objects, interface, marshal
    from harness import c10_locate as L
    try:
        from twisted.logger import globalLogBeginner
        globalLogBeginner.beginLoggingTo([lambda e: None], redirectStandardIO=False, discardBuffer=True)
    except Exception:
        pass
    t = {}
    base = objects.DBusObject
    ifs = vars(base).get('dbusInterfaces')
    if not isinstance(ifs, (list, tuple)):
        raise D.TranslatorError('DBusObject has no dbusInterfaces list of its own')
    t['baseIfaces'] = [(i.name, [(mn, m.sigIn or '', m.sigOut or '', L.nret_of(marshal, m)) for mn, m in i.methods.items()])
                       for i in ifs]
    fids = library_fids(objects)
    t['baseFuncs'] = []
    for n, f in library_functions(objects):
        code = f.__code__
        t['baseFuncs'].append((n, fids[id(f)], L.deco_of_library(objects, f, ADVISORIES),
                               list(code.co_varnames[:code.co_argcount])))
    # the Properties interface: the one interface of DBusObject with members of signature ss / ssv / s
    props = None
    for name, ms in t['baseIfaces']:
        by_sig = {m[1]: m for m in ms}
        if {'ss', 'ssv', 's'} <= set(by_sig):
            props = (name, by_sig['ss'][0], by_sig['ssv'][0], by_sig['s'][0])
    if props is None:
        raise D.TranslatorError('no interface of DBusObject has members with the signatures ss / ssv / s')
    t['propsIface'], t['getMember'], t['setMember'], t['getAllMember'] = props

    def served_by(member):
        c = [(n, fid) for n, fid, d, ps in t['baseFuncs'] if d == (props[0], member)]
        if len(c) != 1:
            raise D.TranslatorError('%d functions of DBusObject are decorated for %s.%s' % (len(c), props[0], member))
        return c[0]
    t['getFunc'], t['setFunc'], t['getAllFunc'] = served_by(props[1]), served_by(props[2]), served_by(props[3])

    # ---- probes: a class with a read-only, a write-only and a read-write property
    PI = 'zq7.xk9.Props'
    iface = interface.DBusInterface(PI, interface.Property('ro', 's', writeable=False),
                                    interface.Property('wo', 's', readable=False, writeable=True),
                                    interface.Property('rw', 's', writeable=True), noRegister=True)

    class Zq7Exc(Exception):
        pass
    miface = interface.DBusInterface('zq7.xk9.M', interface.Method('boom', '', ''), noRegister=True)

    def dbus_boom(self):
        raise Zq7Exc('marker')
    cls = type('ProbeProps', (base,), {'dbusInterfaces': [iface, miface], 'ro': objects.DBusProperty('ro', PI),
                                       'wo': objects.DBusProperty('wo', PI), 'rw': objects.DBusProperty('rw', PI),
                                       'dbus_boom': dbus_boom})
    o = cls(D.MK_PATH)
    o.ro, o.wo, o.rw = 'a', 'b', 'c'
    h = D._mk_handler([o])
    P = props[0]
    n, _ = _err(*D._call(h, D.MK_PATH, 'boom', iface='zq7.xk9.M'), what='a raising method')
    if not n.endswith('Zq7Exc'):
        raise D.TranslatorError('the error name %r of a raised exception does not end in its class name' % n)
    prefix = n[:-len('Zq7Exc')]

    def cls_text(res, what):
        name, text = res
        if not name.startswith(prefix):
            raise D.TranslatorError('%s: error name %r is not %r + a class name' % (what, name, prefix))
        return name[len(prefix):], text
    g_unknown = cls_text(_err(*D._call(h, D.MK_PATH, props[1], iface=P, sig='ss', body=[PI, 'nosuch']), what='Get unknown'), 'Get unknown')
    s_unknown = cls_text(_err(*D._call(h, D.MK_PATH, props[2], iface=P, sig='ssv', body=[PI, 'nosuch', 'x']), what='Set unknown'), 'Set unknown')
    if g_unknown != s_unknown:
        raise D.TranslatorError('Get and Set answer an unknown property differently: %r vs %r' % (g_unknown, s_unknown))
    t['invalidProperty'] = g_unknown
    t['notReadable'] = cls_text(_err(*D._call(h, D.MK_PATH, props[1], iface=P, sig='ss', body=[PI, 'wo']), what='Get write-only'), 'Get write-only')
    t['notWritable'] = cls_text(_err(*D._call(h, D.MK_PATH, props[2], iface=P, sig='ssv', body=[PI, 'ro', 'x']), what='Set read-only'), 'Set read-only')
    t['invalidInterface'] = cls_text(_err(*D._call(h, D.MK_PATH, props[3], iface=P, sig='s', body=['zq7.nosuch']), what='GetAll unknown interface'), 'GetAll unknown interface')
    t['getReplySig'] = _ret(*D._call(h, D.MK_PATH, props[1], iface=P, sig='ss', body=[PI, 'ro']), what='Get')
    t['setReplySig'] = _ret(*D._call(h, D.MK_PATH, props[2], iface=P, sig='ssv', body=[PI, 'rw', 'y']), what='Set')
    t['getAllReplySig'] = _ret(*D._call(h, D.MK_PATH, props[3], iface=P, sig='s', body=[PI]), what='GetAll')
    # a Properties call with a wrong signature never reaches the library function
    r, exc = D._call(h, D.MK_PATH, props[1], iface=P, sig='s', body=[PI])
    t['wrongSignatureError'] = _err(r, exc, 'Get with signature s')[0]
    # ... and neither does one on a path that is not exported
    r, exc = D._call(h, D.MK_PATH + '/nosuch', props[1], iface=P, sig='ss', body=[PI, 'ro'])
    t['unexportedError'] = _err(r, exc, 'Get on an unexported path')[0]
    return t


def emit(repo):
    del ADVISORIES[:]
    t = tables(repo)
    S = D._lean_str
    out = ['/-',
           'GENERATED by tools/tables/c10_builtin.py from txdbus/objects.py of the repository under test: `DBusObject` as the',
           'dispatcher sees it, and the answers of the library methods behind org.freedesktop.DBus.Properties, derived by',
           'probing the real DBusObjectHandler.handleMethodCallMessage.  Do not edit: regenerated on every run.',
           '-/',
           'namespace Txdbus.Gen.DispatchBuiltin',
           '',
           '/-- `DBusObject.dbusInterfaces`: (interface name, [(member, sigIn, sigOut, nret)]) in declaration order. -/',
           'def baseIfaces : List (String × List (String × String × String × Nat)) :=',
           '  [' + ', '.join('(%s, [%s])' % (S(n), ', '.join('(%s, %s, %s, %d)' % (S(a), S(b), S(c), d) for a, b, c, d in ms))
                           for n, ms in t['baseIfaces']) + ']',
           '',
           '/-- The functions of `vars(DBusObject)` in dict order: (attribute name, id in the model, `@dbusMethod`',
           'decoration, positional parameter names with `self`). -/',
           'def baseFuncs : List (String × Nat × Option (String × String) × List String) :=',
           '  [' + ',\n   '.join('(%s, %d, %s, [%s])' % (S(n), fid, _lean_opt_pair(d), ', '.join(S(p) for p in ps))
                                 for n, fid, d, ps in t['baseFuncs']) + ']',
           '',
           '/-- The interface of DBusObject whose members have the signatures `ss` / `ssv` / `s`, and those members. -/',
           'def propsIface : String := ' + S(t['propsIface']),
           'def getMember : String := ' + S(t['getMember']),
           'def setMember : String := ' + S(t['setMember']),
           'def getAllMember : String := ' + S(t['getAllMember']),
           '/-- (attribute name, id) of the one function of DBusObject decorated for each of them. -/',
           'def getFunc : String × Nat := (%s, %d)' % (S(t['getFunc'][0]), t['getFunc'][1]),
           'def setFunc : String × Nat := (%s, %d)' % (S(t['setFunc'][0]), t['setFunc'][1]),
           'def getAllFunc : String × Nat := (%s, %d)' % (S(t['getAllFunc'][0]), t['getAllFunc'][1]),
           '',
           '/-- What the library methods raise where the code decides by itself: (exception class, text), read off the',
           'error replies (name = PythonException prefix + class).  Get / Set of a property the object does not have;',
           'Get of a write-only property; Set of a read-only property; GetAll of an interface the object does not have. -/',
           ]
    for k in ('invalidProperty', 'notReadable', 'notWritable', 'invalidInterface'):
        out.append('def %s : String × String := (%s, %s)' % (k, S(t[k][0]), S(t[k][1])))
    out += ['',
            '/-- `signature` header of the replies to successful Get / Set / GetAll calls ("" = none). -/',
            'def getReplySig : String := ' + S(t['getReplySig']),
            'def setReplySig : String := ' + S(t['setReplySig']),
            'def getAllReplySig : String := ' + S(t['getAllReplySig']),
            '',
            '/-- Error names of a Properties.Get call with signature `s`, and of one on a path that is not exported:',
            'neither reaches the library method. -/',
            'def wrongSignatureError : String := ' + S(t['wrongSignatureError']),
            'def unexportedError : String := ' + S(t['unexportedError']),
            '',
            'end Txdbus.Gen.DispatchBuiltin',
            '']
    return '\n'.join(out)
