"""Translator for C18: the five validator regular expressions of txdbus/marshal.py.

Reads the *compiled pattern objects* `invalid_obj_path_re`, `if_re`, `bus_re`, `mbr_re`,
`dot_digit_re` from the working tree's txdbus.marshal and writes
lean/TxdbusModel/Gen/Validators.lean.  The tables are derived from the BEHAVIOUR of the
compiled patterns under the regex engine (probing every one of the 1,114,112 code points), not
from the pattern syntax, so that a rewrite that matches the same strings (`re.ASCII`, `\\w`
inside a class, a trailing `+`, another order of the ranges, ...) yields the same table:

  * the four "character" patterns (`rx.search(n)` finds an offending character): the table is
    the list of inclusive code-point ranges of the characters `c` with `rx.search(c) is None`
    (= the characters the validator allows).  That the pattern really is a per-character
    predicate (`rx.search(s)` iff some character of `s` is an offending one, nothing matches the
    empty string) is checked on several thousand sample strings; if not -> TranslatorError.
  * `dot_digit_re` (`rx.search(n)` finds an offending adjacent PAIR): two tables `first`,
    `second` with `rx.search(a + b)` iff `a in first and b in second`; no single character and
    not the empty string matches; checked as a product and on sample strings of length 3-5
    (`rx.search(s)` iff some adjacent pair of `s` is in first x second); if not -> TranslatorError.

TranslatorError (the table obligation of C18 is then broken and the pipeline widens the
search) is therefore reserved for patterns whose behaviour has another SHAPE (anchors,
multi-character conditions, a non-regex object), which the hand-written model cannot mirror
through these tables anyway.
"""
import random
import re

MODULE = 'TxdbusModel.Gen.Validators'

MAXCP = 0x10FFFF


class TranslatorError(Exception):
    pass


_ALL = None


def _all_chars():
    global _ALL
    if _ALL is None:
        _ALL = ''.join(map(chr, range(MAXCP + 1)))
    return _ALL


def _ranges_of_set(cps):
    """iterable of code points -> sorted merged inclusive ranges"""
    out = []
    for c in sorted(cps):
        if out and c <= out[-1][1] + 1:
            out[-1][1] = max(out[-1][1], c)
        else:
            out.append([c, c])
    return [tuple(r) for r in out]


def _complement(ranges):
    out, nxt = [], 0
    for lo, hi in ranges:
        if lo > nxt:
            out.append((nxt, lo - 1))
        nxt = hi + 1
    if nxt <= MAXCP:
        out.append((nxt, MAXCP))
    return out


def _in(ranges, c):
    return any(lo <= c <= hi for lo, hi in ranges)


def _require_pattern(name, rx):
    if not isinstance(rx, re.Pattern):
        raise TranslatorError('%s is not a compiled regular expression: %r' % (name, rx))
    if not isinstance(rx.pattern, str):
        raise TranslatorError('%s is not a str pattern' % name)


def _sample_chars(ranges, rng, extra=40):
    """code points around every range boundary, fixed ASCII / non-ASCII probes, a few random ones"""
    cps = set()
    for lo, hi in ranges[:200]:
        for c in (lo - 1, lo, lo + 1, hi - 1, hi, hi + 1):
            if 0 <= c <= MAXCP:
                cps.add(c)
    cps.update(ord(ch) for ch in 'aZ09_.-:/ \n\x00\x7f\x80\u00e9\u0663\u00b2\uff15\u212a\u017f\u4e2d\U0001d7d8')
    for _ in range(extra):
        cps.add(rng.randrange(0, MAXCP + 1))
    return sorted(cps)


# --------------------------------------------------------------------------- character patterns
def char_predicate_table(name, rx):
    """ranges of the ALLOWED characters {c : rx.search(c) is None}; checks the per-character shape."""
    _require_pattern(name, rx)
    if rx.search('') is not None:
        raise TranslatorError('%s = %r matches the empty string: not a per-character test' % (name, rx.pattern))
    allc = _all_chars()
    # characters outside every match of the whole code-point string ...
    if rx.groups == 0:
        allowed = _ranges_of_set(ord(ch) for ch in set(''.join(rx.split(allc))))
    else:
        hit = set()
        for m in rx.finditer(allc):
            hit.update(m.group(0))
        allowed = _complement(_ranges_of_set(ord(ch) for ch in hit))
    # ... confirmed one by one on the (small) allowed side and on a sample of the offending side
    rng = random.Random(18)
    n_allowed = sum(hi - lo + 1 for lo, hi in allowed)
    if n_allowed <= 20000:
        for lo, hi in allowed:
            for c in range(lo, hi + 1):
                if rx.search(allc[c]) is not None:
                    raise TranslatorError('%s = %r: U+%04X matches alone but not inside the code-point string: '
                                          'not a per-character test' % (name, rx.pattern, c))
    sample = _sample_chars(allowed, rng)
    for c in sample:
        if (rx.search(allc[c]) is None) != _in(allowed, c):
            raise TranslatorError('%s = %r: behaviour on U+%04X alone differs from its behaviour in context: '
                                  'not a per-character test' % (name, rx.pattern, c))
    # per-character shape on strings: search(s) iff some character is offending
    off = {c: not _in(allowed, c) for c in sample}
    for a in sample:
        for b in sample:
            if (rx.search(allc[a] + allc[b]) is not None) != (off[a] or off[b]):
                raise TranslatorError('%s = %r is not a per-character test (pair U+%04X U+%04X)' % (name, rx.pattern, a, b))
    ok = [c for c in sample if not off[c]][:24]
    for a in ok:
        for b in ok:
            for c in ok:
                if rx.search(allc[a] + allc[b] + allc[c]) is not None:
                    raise TranslatorError('%s = %r is not a per-character test (triple U+%04X U+%04X U+%04X)'
                                          % (name, rx.pattern, a, b, c))
    for _ in range(4000):
        s = ''.join(allc[rng.choice(sample)] for _ in range(rng.randint(2, 5)))
        want = any(not _in(allowed, ord(ch)) for ch in s)
        if (rx.search(s) is not None) != want:
            raise TranslatorError('%s = %r is not a per-character test (sample %r)' % (name, rx.pattern, s))
    return allowed


# --------------------------------------------------------------------------- pair pattern
def pair_tables(name, rx):
    """(first, second) with rx.search(a+b) iff a in first and b in second; checks the pair shape."""
    _require_pattern(name, rx)
    allc = _all_chars()
    if rx.search('') is not None:
        raise TranslatorError('%s = %r matches the empty string: not an adjacent-pair test' % (name, rx.pattern))
    for c in range(128):
        if rx.search(allc[c]) is not None:
            raise TranslatorError('%s = %r matches the single character U+%04X: not an adjacent-pair test'
                                  % (name, rx.pattern, c))
    # a witness pair in ASCII
    wit = None
    for a in range(128):
        for b in range(128):
            if rx.search(allc[a] + allc[b]) is not None:
                wit = (a, b)
                break
        if wit:
            break
    if wit is None:
        raise TranslatorError('%s = %r: no ASCII pair matches: not an adjacent-pair test' % (name, rx.pattern))
    a0, b0 = allc[wit[0]], allc[wit[1]]
    second = _ranges_of_set(c for c in range(MAXCP + 1) if rx.search(a0 + allc[c]) is not None)
    first = _ranges_of_set(c for c in range(MAXCP + 1) if rx.search(allc[c] + b0) is not None)
    rng = random.Random(18)
    sa, sb = _sample_chars(first, rng), _sample_chars(second, rng)
    sample = sorted(set(sa) | set(sb))
    for c in sample:
        if rx.search(allc[c]) is not None:
            raise TranslatorError('%s = %r matches the single character U+%04X: not an adjacent-pair test'
                                  % (name, rx.pattern, c))
    for a in sample:
        for b in sample:
            if (rx.search(allc[a] + allc[b]) is not None) != (_in(first, a) and _in(second, b)):
                raise TranslatorError('%s = %r: the matched pairs are not a product first x second (U+%04X U+%04X)'
                                      % (name, rx.pattern, a, b))
    for _ in range(6000):
        s = [rng.choice(sample) for _ in range(rng.randint(3, 5))]
        want = any(_in(first, s[i]) and _in(second, s[i + 1]) for i in range(len(s) - 1))
        if (rx.search(''.join(allc[c] for c in s)) is not None) != want:
            raise TranslatorError('%s = %r is not an adjacent-pair test (sample %r)'
                                  % (name, rx.pattern, ''.join(allc[c] for c in s)))
    return first, second


# --------------------------------------------------------------------------- emission
def _lean_ranges(rs):
    return '[' + ', '.join('(%d, %d)' % r for r in rs) + ']'


def _wrapped(rs):
    items = ['(%d, %d)' % r for r in rs]
    lines, cur = [], '  ['
    for k, it in enumerate(items):
        piece = it + (', ' if k + 1 < len(items) else ']')
        if len(cur) + len(piece) > 100:
            lines.append(cur.rstrip())
            cur = '   '
        cur += piece
    if not items:
        cur += ']'
    lines.append(cur)
    return lines


def tables(marshal):
    t = {}
    for lean_name, attr in (('objPath', 'invalid_obj_path_re'), ('iface', 'if_re'),
                            ('bus', 'bus_re'), ('member', 'mbr_re')):
        if not hasattr(marshal, attr):
            raise TranslatorError('txdbus.marshal.%s no longer exists' % attr)
        t[lean_name] = (attr, char_predicate_table(attr, getattr(marshal, attr)))
    if not hasattr(marshal, 'dot_digit_re'):
        raise TranslatorError('txdbus.marshal.dot_digit_re no longer exists')
    t['dotDigit'] = ('dot_digit_re', pair_tables('dot_digit_re', marshal.dot_digit_re))
    return t


def emit(repo):
    from txdbus import marshal
    t = tables(marshal)
    out = []
    out.append('/-')
    out.append('GENERATED by tools/tables/c18_validators.py from the compiled regular expressions in')
    out.append('txdbus/marshal.py of the repository under test.  Do not edit: regenerated on every run.')
    out.append('The tables describe the BEHAVIOUR of the patterns under the regex engine (every code point')
    out.append('probed), so they do not depend on how a pattern is spelled.')
    out.append('')
    out.append('`<x>Allowed`: inclusive code-point ranges of the characters `c` for which `<re>.search(c)` is')
    out.append('None, i.e. the characters the validator allows (it rejects when `search` finds any other).')
    out.append('`dotDigitFirst` / `dotDigitSecond`: `dot_digit_re.search` finds a character of the first table')
    out.append('immediately followed by one of the second.')
    out.append('-/')
    out.append('namespace Txdbus.Gen.Validators')
    out.append('')
    for lean_name in ('objPath', 'iface', 'bus', 'member'):
        attr, allowed = t[lean_name]
        out.append('/-- allowed characters of `txdbus.marshal.%s` -/' % attr)
        if len(allowed) <= 8:
            out.append('def %sAllowed : List (Nat × Nat) := %s' % (lean_name, _lean_ranges(allowed)))
        else:
            out.append('def %sAllowed : List (Nat × Nat) :=' % lean_name)
            out.extend(_wrapped(allowed))
        out.append('')
    attr, (first, second) = t['dotDigit']
    out.append('/-- first and second character of a match of `txdbus.marshal.%s` -/' % attr)
    out.append('def dotDigitFirst : List (Nat × Nat) :=')
    out.extend(_wrapped(first))
    out.append('def dotDigitSecond : List (Nat × Nat) :=')
    out.extend(_wrapped(second))
    out.append('')
    out.append('end Txdbus.Gen.Validators')
    return '\n'.join(out) + '\n'


if __name__ == '__main__':
    import sys
    print(emit(sys.argv[1] if len(sys.argv) > 1 else '/repo'))
