r"""Translator for C18 (and every property whose model imports Gen.Validators): the character
tables of the name / path validators of txdbus/marshal.py -> lean/TxdbusModel/Gen/Validators.lean.

Two routes, both executed on every run, both translators source -> table (never an expected value):

ROUTE P (probing the public API, always possible).  A private copy of <repo>/txdbus/marshal.py is
loaded (own module globals, so probing cannot warm a cache of the copy the harness uses) and the
PUBLIC validators validateObjectPath / validateInterfaceName / validateBusName / validateMemberName
(/ validateErrorName as a cross-check) are called on short strings:
  * `<x>Allowed`  = the characters c for which the validator accepts a template that is valid for
    every allowed c in the middle of an element ('/a'+c+'a', 'a.a'+c+'a', 'a'+c+'a'; for bus names also
    c+'a.a', which is where ':' shows), for c over ALL of ASCII, every code point below U+0800, all
    Unicode decimal digits and a stride sample of the rest (PROBE_POINTS);
  * `dotDigitFirst/Second` = the adjacent pairs (x, b) of individually allowed characters for which
    'a.a'+x+b+'a' is rejected, which must form a product F x S; the doubled separator (F x F, modelled
    separately as the '..' rule) is taken out of S.  validateBusName must show the same pairs.
ROUTE R (reading compiled regular expressions, a cross-check and a refinement).  The module's globals
are scanned for re.Pattern objects WHATEVER THEIR NAMES (also behind bound `.search` methods and one
level inside tuples / lists / dicts); each is turned into a table from its behaviour under the regex
engine on all 1,114,112 code points (per-character test -> allowed set; adjacent-pair test ->
first/second; see char_predicate_table / pair_tables).  A pattern whose table agrees with a probed
table on every probe point is taken to be the one that validator uses, and ITS table (exact on all
code points, e.g. all 680 Unicode digits of `\d`) is emitted.
If no pattern agrees with a probed table (regexes renamed into something unscannable, replaced by
sets / str methods, ...) the probed table itself is emitted and a sentence is appended to ADVISORIES
(the pipeline then widens the correspondence streams instead of reporting a broken obligation).
TranslatorError remains for: a public validator missing, a probe template that is not accepted, pair
behaviour that is not a product, interface and bus validators disagreeing on the element-leading rule.
"""
import bisect
import importlib.util
import os
import random
import re

MODULE = 'TxdbusModel.Gen.Validators'
ADVISORIES = []

MAXCP = 0x10FFFF


class TranslatorError(Exception):
    pass


_ALL = None


def _all_chars():
    global _ALL
    if _ALL is None:
        _ALL = ''.join(map(chr, range(MAXCP + 1)))
    return _ALL


def _ranges_of_set(cps):
    """iterable of code points -> sorted merged inclusive ranges"""
    out = []
    for c in sorted(cps):
        if out and c <= out[-1][1] + 1:
            out[-1][1] = max(out[-1][1], c)
        else:
            out.append([c, c])
    return [tuple(r) for r in out]


def _complement(ranges):
    out, nxt = [], 0
    for lo, hi in ranges:
        if lo > nxt:
            out.append((nxt, lo - 1))
        nxt = hi + 1
    if nxt <= MAXCP:
        out.append((nxt, MAXCP))
    return out


def _in(ranges, c):
    return any(lo <= c <= hi for lo, hi in ranges)


def _require_pattern(name, rx):
    if not isinstance(rx, re.Pattern):
        raise TranslatorError('%s is not a compiled regular expression: %r' % (name, rx))
    if not isinstance(rx.pattern, str):
        raise TranslatorError('%s is not a str pattern' % name)


def _sample_chars(ranges, rng, extra=40):
    """code points around every range boundary, fixed ASCII / non-ASCII probes, a few random ones"""
    cps = set()
    for lo, hi in ranges[:200]:
        for c in (lo - 1, lo, lo + 1, hi - 1, hi, hi + 1):
            if 0 <= c <= MAXCP:
                cps.add(c)
    cps.update(ord(ch) for ch in 'aZ09_.-:/ \n\x00\x7f\x80\u00e9\u0663\u00b2\uff15\u212a\u017f\u4e2d\U0001d7d8')
    for _ in range(extra):
        cps.add(rng.randrange(0, MAXCP + 1))
    return sorted(cps)


# --------------------------------------------------------------------------- character patterns
def char_predicate_table(name, rx):
    """ranges of the ALLOWED characters {c : rx.search(c) is None}; checks the per-character shape."""
    _require_pattern(name, rx)
    if rx.search('') is not None:
        raise TranslatorError('%s = %r matches the empty string: not a per-character test' % (name, rx.pattern))
    allc = _all_chars()
    # characters outside every match of the whole code-point string ...
    if rx.groups == 0:
        allowed = _ranges_of_set(ord(ch) for ch in set(''.join(rx.split(allc))))
    else:
        hit = set()
        for m in rx.finditer(allc):
            hit.update(m.group(0))
        allowed = _complement(_ranges_of_set(ord(ch) for ch in hit))
    # ... confirmed one by one on the (small) allowed side and on a sample of the offending side
    rng = random.Random(18)
    n_allowed = sum(hi - lo + 1 for lo, hi in allowed)
    if n_allowed <= 20000:
        for lo, hi in allowed:
            for c in range(lo, hi + 1):
                if rx.search(allc[c]) is not None:
                    raise TranslatorError('%s = %r: U+%04X matches alone but not inside the code-point string: '
                                          'not a per-character test' % (name, rx.pattern, c))
    sample = _sample_chars(allowed, rng)
    for c in sample:
        if (rx.search(allc[c]) is None) != _in(allowed, c):
            raise TranslatorError('%s = %r: behaviour on U+%04X alone differs from its behaviour in context: '
                                  'not a per-character test' % (name, rx.pattern, c))
    # per-character shape on strings: search(s) iff some character is offending
    off = {c: not _in(allowed, c) for c in sample}
    for a in sample:
        for b in sample:
            if (rx.search(allc[a] + allc[b]) is not None) != (off[a] or off[b]):
                raise TranslatorError('%s = %r is not a per-character test (pair U+%04X U+%04X)' % (name, rx.pattern, a, b))
    ok = [c for c in sample if not off[c]][:24]
    for a in ok:
        for b in ok:
            for c in ok:
                if rx.search(allc[a] + allc[b] + allc[c]) is not None:
                    raise TranslatorError('%s = %r is not a per-character test (triple U+%04X U+%04X U+%04X)'
                                          % (name, rx.pattern, a, b, c))
    for _ in range(4000):
        s = ''.join(allc[rng.choice(sample)] for _ in range(rng.randint(2, 5)))
        want = any(not _in(allowed, ord(ch)) for ch in s)
        if (rx.search(s) is not None) != want:
            raise TranslatorError('%s = %r is not a per-character test (sample %r)' % (name, rx.pattern, s))
    return allowed


# --------------------------------------------------------------------------- pair pattern
def pair_tables(name, rx):
    """(first, second) with rx.search(a+b) iff a in first and b in second; checks the pair shape."""
    _require_pattern(name, rx)
    allc = _all_chars()
    if rx.search('') is not None:
        raise TranslatorError('%s = %r matches the empty string: not an adjacent-pair test' % (name, rx.pattern))
    for c in range(128):
        if rx.search(allc[c]) is not None:
            raise TranslatorError('%s = %r matches the single character U+%04X: not an adjacent-pair test'
                                  % (name, rx.pattern, c))
    # a witness pair in ASCII
    wit = None
    for a in range(128):
        for b in range(128):
            if rx.search(allc[a] + allc[b]) is not None:
                wit = (a, b)
                break
        if wit:
            break
    if wit is None:
        raise TranslatorError('%s = %r: no ASCII pair matches: not an adjacent-pair test' % (name, rx.pattern))
    a0, b0 = allc[wit[0]], allc[wit[1]]
    second = _ranges_of_set(c for c in range(MAXCP + 1) if rx.search(a0 + allc[c]) is not None)
    first = _ranges_of_set(c for c in range(MAXCP + 1) if rx.search(allc[c] + b0) is not None)
    rng = random.Random(18)
    sa, sb = _sample_chars(first, rng), _sample_chars(second, rng)
    sample = sorted(set(sa) | set(sb))
    for c in sample:
        if rx.search(allc[c]) is not None:
            raise TranslatorError('%s = %r matches the single character U+%04X: not an adjacent-pair test'
                                  % (name, rx.pattern, c))
    for a in sample:
        for b in sample:
            if (rx.search(allc[a] + allc[b]) is not None) != (_in(first, a) and _in(second, b)):
                raise TranslatorError('%s = %r: the matched pairs are not a product first x second (U+%04X U+%04X)'
                                      % (name, rx.pattern, a, b))
    for _ in range(6000):
        s = [rng.choice(sample) for _ in range(rng.randint(3, 5))]
        want = any(_in(first, s[i]) and _in(second, s[i + 1]) for i in range(len(s) - 1))
        if (rx.search(''.join(allc[c] for c in s)) is not None) != want:
            raise TranslatorError('%s = %r is not an adjacent-pair test (sample %r)'
                                  % (name, rx.pattern, ''.join(allc[c] for c in s)))
    return first, second


# --------------------------------------------------------------------------- emission
def _lean_ranges(rs):
    return '[' + ', '.join('(%d, %d)' % r for r in rs) + ']'


def _wrapped(rs):
    items = ['(%d, %d)' % r for r in rs]
    lines, cur = [], '  ['
    for k, it in enumerate(items):
        piece = it + (', ' if k + 1 < len(items) else ']')
        if len(cur) + len(piece) > 100:
            lines.append(cur.rstrip())
            cur = '   '
        cur += piece
    if not items:
        cur += ']'
    lines.append(cur)
    return lines


# --------------------------------------------------------------------------- route P: probing
def _probe_points():
    pts = set(range(0, 0x800))
    pts.update(c for c in range(0x800, MAXCP + 1, 97))
    pts.update(ord(ch) for ch in re.compile(r'\d').findall(_all_chars()))     # every Unicode decimal digit
    pts.update((0x212A, 0x017F, 0x0130, 0x4E2D, 0xFF21, 0xFF3F, 0x1F600, 0x10FFFF))
    return sorted(c for c in pts if not 0xD800 <= c <= 0xDFFF)       # lone surrogates are outside the str domain used


_PROBE_POINTS = None


def probe_points():
    global _PROBE_POINTS
    if _PROBE_POINTS is None:
        _PROBE_POINTS = _probe_points()
    return _PROBE_POINTS


def load_private_copy(repo, tag):
    """a second, independent instance of <repo>/txdbus/marshal.py (own globals)"""
    path = os.path.join(repo, 'txdbus', 'marshal.py')
    spec = importlib.util.spec_from_file_location('txdbus_marshal_c18probe_' + tag, path)
    mod = importlib.util.module_from_spec(spec)
    spec.loader.exec_module(mod)
    return mod


def _accepts(fn, s):
    try:
        fn(s)
        return True
    except Exception:
        return False


def _validator(mod, name):
    fn = getattr(mod, name, None)
    if not callable(fn):
        raise TranslatorError('public validator txdbus.marshal.%s no longer exists' % name)
    return fn


def probe_allowed(fn, templates, what):
    """{c in PROBE_POINTS : fn accepts one of the templates with c inserted}"""
    for pre, post in templates[:1]:
        if not _accepts(fn, pre + 'a' + post) or not _accepts(fn, pre + 'Z' + post):
            raise TranslatorError('%s: probe template %r rejected, the table cannot be derived' % (what, pre + 'a' + post))
    out = set()
    for c in probe_points():
        ch = chr(c)
        for pre, post in templates:
            if _accepts(fn, pre + ch + post):
                out.add(c)
                break
    return out


def probe_pairs(fn, allowed_mid, what):
    """adjacent pairs (x, b) of characters that are fine alone in the middle of 'a.a?a' but rejected together"""
    chars = sorted(allowed_mid)
    bad = set()
    for x in chars:
        for b in chars:
            if not _accepts(fn, 'a.a' + chr(x) + chr(b) + 'a'):
                bad.add((x, b))
    F = {x for x, _ in bad}
    S = {b for _, b in bad}
    if bad != {(x, b) for x in F for b in S}:
        raise TranslatorError('%s: the rejected adjacent pairs are not a product first x second' % what)
    return F, S


def probe_route(repo):
    t = {}
    m = load_private_copy(repo, 'path')
    t['objPath'] = probe_allowed(_validator(m, 'validateObjectPath'), [('/a', 'a')], 'validateObjectPath')
    m = load_private_copy(repo, 'member')
    t['member'] = probe_allowed(_validator(m, 'validateMemberName'), [('a', 'a')], 'validateMemberName')
    m = load_private_copy(repo, 'iface')
    fi = _validator(m, 'validateInterfaceName')
    t['iface'] = probe_allowed(fi, [('a.a', 'a')], 'validateInterfaceName')
    F, S = probe_pairs(fi, {c for c in t['iface'] if c < 0x800}, 'validateInterfaceName')
    m = load_private_copy(repo, 'bus')
    fb = _validator(m, 'validateBusName')
    bus_mid = probe_allowed(fb, [('a.a', 'a')], 'validateBusName')
    t['bus'] = bus_mid | probe_allowed(fb, [('a.a', 'a'), ('', 'a.a')], 'validateBusName')
    Fb, Sb = probe_pairs(fb, {c for c in bus_mid if c < 0x800}, 'validateBusName')
    common = {c for c in t['iface'] if c < 0x800} & bus_mid
    if (F & common, (S - F) & common) != (Fb & common, (Sb - Fb) & common):
        raise TranslatorError('validateInterfaceName and validateBusName reject different (separator, element-leading) '
                              'pairs: one dot-digit table cannot describe both (%r vs %r)'
                              % (sorted(map(chr, (S - F) & common)), sorted(map(chr, (Sb - Fb) & common))))
    t['first'], t['second'] = F, S - F          # F x F is the doubled-separator rule, modelled on its own
    # validateErrorName: same accept set as validateInterfaceName on the probe strings (not a table; a cross-check)
    m = load_private_copy(repo, 'error')
    fe = _validator(m, 'validateErrorName')
    fi2 = _validator(m, 'validateInterfaceName')
    for c in sorted(t['iface'] | set(range(128))):
        s = 'a.a' + chr(c) + 'a'
        if _accepts(fe, s) != _accepts(fi2, s):
            ADVISORIES.append('validateErrorName and validateInterfaceName differ on %r' % s)
            break
    return t


# --------------------------------------------------------------------------- route R: compiled patterns
def find_patterns(mod):
    """(where, pattern) for every re.Pattern reachable from the module's globals, whatever the name"""
    found, seen = [], set()

    def add(where, v, depth):
        if isinstance(v, re.Pattern):
            if id(v) not in seen and isinstance(v.pattern, str):
                seen.add(id(v))
                found.append((where, v))
        elif isinstance(getattr(v, '__self__', None), re.Pattern):
            add(where + '.__self__', v.__self__, depth)
        elif depth < 2 and isinstance(v, (tuple, list, set, frozenset)):
            for k, x in enumerate(v):
                add('%s[%d]' % (where, k), x, depth + 1)
        elif depth < 2 and isinstance(v, dict):
            for k, x in v.items():
                add('%s[%r]' % (where, k), x, depth + 1)

    for name in sorted(vars(mod)):
        if not name.startswith('__'):
            add(name, vars(mod)[name], 0)
    return found


def _restrict(ranges, pts):
    """{c in pts : c in ranges}, pts sorted"""
    out = set()
    for lo, hi in ranges:
        a = bisect.bisect_left(pts, lo)
        b = bisect.bisect_right(pts, hi)
        out.update(pts[a:b])
    return out


def regex_route(repo):
    """-> (char tables [(where, pattern text, allowed ranges)], pair tables [(where, text, first, second)], skipped)"""
    mod = load_private_copy(repo, 'regex')
    chars, pairs, skipped = [], [], []
    for where, rx in find_patterns(mod):
        try:
            if rx.search('') is None and any(rx.search(chr(c)) for c in range(128)):
                chars.append((where, rx.pattern, char_predicate_table(where, rx)))
            else:
                f, s2 = pair_tables(where, rx)
                pairs.append((where, rx.pattern, f, s2))
        except TranslatorError as e:
            skipped.append('%s = %r: %s' % (where, rx.pattern, e))
    return chars, pairs, skipped


# --------------------------------------------------------------------------- both routes
_KINDS = (('objPath', 'validateObjectPath'), ('iface', 'validateInterfaceName'),
          ('bus', 'validateBusName'), ('member', 'validateMemberName'))


def tables(repo):
    """-> {'objPath'|'iface'|'bus'|'member': (ranges, source), 'dotDigit': (first, second, source)}"""
    del ADVISORIES[:]
    P = probe_route(repo)
    try:
        chars, pairs, skipped = regex_route(repo)
    except Exception as e:          # the regex reading is a cross-check; the probe stands
        chars, pairs, skipped = [], [], ['regex route failed: %r' % (e,)]
    pts = probe_points()
    t = {}
    for kind, fn in _KINDS:
        hit = [(w, pat, tab) for w, pat, tab in chars if _restrict(tab, pts) == P[kind]]
        if hit:
            w, pat, tab = hit[0]
            t[kind] = (tab, 'compiled pattern %s = %r (agrees with %s on all %d probe points)' % (w, pat, fn, len(pts)))
        else:
            t[kind] = (_ranges_of_set(P[kind]), 'probing %s' % fn)
            ADVISORIES.append('allowed characters of %s: no compiled regular expression in txdbus.marshal reproduces the '
                              'probed behaviour (patterns seen: %s); the table was derived by probing the public validator '
                              'on %d code points (all below U+0800, all decimal digits, a stride sample above)'
                              % (fn, ', '.join('%s=%r' % (w, pat) for w, pat, _ in chars) or 'none', len(pts)))
    A = sorted(c for c in P['iface'] if c < 0x800)
    hit = [(w, pat, f, s2) for w, pat, f, s2 in pairs
           if _restrict(f, A) == P['first'] and _restrict(s2, A) - P['first'] == P['second']]
    if hit:
        w, pat, f, s2 = hit[0]
        t['dotDigit'] = (f, s2, 'compiled pattern %s = %r (agrees with validateInterfaceName / validateBusName on all pairs '
                                'of allowed characters)' % (w, pat))
    else:
        t['dotDigit'] = (_ranges_of_set(P['first']), _ranges_of_set(P['second']), 'probing validateInterfaceName / validateBusName')
        ADVISORIES.append('element-leading rule (separator, digit): no compiled two-step regular expression in txdbus.marshal '
                          'reproduces the probed behaviour (patterns seen: %s); the tables were derived by probing all pairs of '
                          'allowed characters' % (', '.join('%s=%r' % (w, pat) for w, pat, _, _ in pairs) or 'none'))
    t['skipped'] = skipped
    return t


def object_path_allowed(repo):
    """For other translators (e.g. Gen.C17Props) that need the object-path character class: the same
    two-route derivation, independent of the private name `invalid_obj_path_re`.  -> inclusive ranges"""
    saved = list(ADVISORIES)
    try:
        return list(tables(repo)['objPath'][0])
    finally:
        ADVISORIES[:] = saved


def emit(repo):
    t = tables(repo)
    out = []
    out.append('/-')
    out.append('GENERATED by tools/tables/c18_validators.py from txdbus/marshal.py of the repository under test.')
    out.append('Do not edit: regenerated on every run.  The tables describe BEHAVIOUR: the public validators are')
    out.append('probed, and a compiled regular expression found in the module (under whatever name) that reproduces')
    out.append('the probed behaviour supplies the exact table over all code points.')
    out.append('')
    out.append('`<x>Allowed`: inclusive code-point ranges of the characters the validator allows (it rejects when any')
    out.append('other character occurs).  `dotDigitFirst` / `dotDigitSecond`: a character of the first table')
    out.append('immediately followed by one of the second is rejected (element beginning with a digit).')
    out.append('-/')
    out.append('namespace Txdbus.Gen.Validators')
    out.append('')
    names = {'objPath': 'validateObjectPath', 'iface': 'validateInterfaceName / validateErrorName',
             'bus': 'validateBusName', 'member': 'validateMemberName'}
    for lean_name in ('objPath', 'iface', 'bus', 'member'):
        allowed, _src = t[lean_name]
        out.append('/-- allowed characters of `%s` -/' % names[lean_name])
        if len(allowed) <= 8:
            out.append('def %sAllowed : List (Nat × Nat) := %s' % (lean_name, _lean_ranges(allowed)))
        else:
            out.append('def %sAllowed : List (Nat × Nat) :=' % lean_name)
            out.extend(_wrapped(allowed))
        out.append('')
    first, second, _src = t['dotDigit']
    out.append('/-- separator and element-leading character that interface / well-known bus names reject as a pair -/')
    out.append('def dotDigitFirst : List (Nat × Nat) :=')
    out.extend(_wrapped(first))
    out.append('def dotDigitSecond : List (Nat × Nat) :=')
    out.extend(_wrapped(second))
    out.append('')
    out.append('end Txdbus.Gen.Validators')
    return '\n'.join(out) + '\n'


if __name__ == '__main__':
    import sys
    import time
    _repo = sys.argv[1] if len(sys.argv) > 1 else '/repo'
    sys.path.insert(0, _repo)
    _t0 = time.time()
    _t = tables(_repo)
    for _k in ('objPath', 'iface', 'bus', 'member'):
        print(_k, _t[_k][0] if len(_t[_k][0]) < 10 else '%d ranges' % len(_t[_k][0]), '<-', _t[_k][1])
    print('dotDigit', _t['dotDigit'][0], '%d ranges' % len(_t['dotDigit'][1]), '<-', _t['dotDigit'][2])
    for _a in ADVISORIES:
        print('ADVISORY', _a)
    for _a in _t['skipped']:
        print('skipped', _a)
    print('%.2f s' % (time.time() - _t0))
