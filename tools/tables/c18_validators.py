"""Translator for C18: the five validator regular expressions of txdbus/marshal.py.

Reads the *compiled pattern objects* `invalid_obj_path_re`, `if_re`, `bus_re`, `mbr_re`,
`dot_digit_re` from the working tree's txdbus.marshal and writes
lean/TxdbusModel/Gen/Validators.lean:

  * a negated character class `[^...]` (the only form accepted for the first four) is parsed
    from the pattern string into the sorted, merged list of inclusive code-point ranges of the
    characters it *lists* (= the characters the validator allows);
  * `\\.\\d` style two-step patterns (the only form accepted for `dot_digit_re`) are parsed into
    two positive code-point range lists (first step, second step).  `\\d` in a `str` pattern
    without re.ASCII is Unicode category Nd; its ranges are taken from the re engine itself.

Anything outside that restricted form (other flags, anchors, quantifiers, alternation, a
non-negated class where a negated one is expected, ...) raises TranslatorError: the table
obligation of C18 is then broken and the pipeline widens the search.

Every parsed class is cross-checked against the regex engine on all 1,114,112 code points.
"""
import re

MODULE = 'TxdbusModel.Gen.Validators'

MAXCP = 0x10FFFF


class TranslatorError(Exception):
    pass


# --------------------------------------------------------------------------- parsing
_SPECIAL = set('.^$*+?{}[]\\|()')


def _merge(ranges):
    out = []
    for lo, hi in sorted(ranges):
        if lo > hi:
            raise TranslatorError('bad character range %r-%r' % (chr(lo), chr(hi)))
        if out and lo <= out[-1][1] + 1:
            out[-1] = (out[-1][0], max(out[-1][1], hi))
        else:
            out.append((lo, hi))
    return out


_ALL = None


def _all_chars():
    global _ALL
    if _ALL is None:
        _ALL = ''.join(map(chr, range(MAXCP + 1)))
    return _ALL


def _ranges_of_set(cps):
    """sorted list of code points -> merged inclusive ranges"""
    return _merge((c, c) for c in cps)


def _digit_ranges():
    return _ranges_of_set(ord(ch) for ch in re.compile(r'\d').findall(_all_chars()))


def _parse_class_item(pat, i):
    """one literal inside [...] starting at pat[i]; returns (code point, next index)"""
    ch = pat[i]
    if ch == '\\':
        if i + 1 >= len(pat):
            raise TranslatorError('dangling backslash in %r' % pat)
        e = pat[i + 1]
        if e.isalnum():
            raise TranslatorError('escape \\%s inside a character class is outside the supported form (%r)' % (e, pat))
        return ord(e), i + 2
    if ch in '[]':
        raise TranslatorError('unsupported %r inside a character class (%r)' % (ch, pat))
    return ord(ch), i + 1


def _parse_class(pat, i):
    """pat[i] == '['.  Returns (negated, ranges, next index)."""
    assert pat[i] == '['
    i += 1
    neg = False
    if i < len(pat) and pat[i] == '^':
        neg = True
        i += 1
    ranges = []
    first = True
    while True:
        if i >= len(pat):
            raise TranslatorError('unterminated character class in %r' % pat)
        if pat[i] == ']' and not first:
            i += 1
            break
        first = False
        lo, i = _parse_class_item(pat, i)
        if i + 1 < len(pat) and pat[i] == '-' and pat[i + 1] != ']':
            hi, i = _parse_class_item(pat, i + 1)
            ranges.append((lo, hi))
        else:
            ranges.append((lo, lo))
    if not ranges:
        raise TranslatorError('empty character class in %r' % pat)
    return neg, _merge(ranges), i


def _parse_atom(pat, i):
    """One atom of a sequence pattern: `\\d`, an escaped punctuation character, a plain
    alphanumeric literal, or a positive class.  Returns (ranges, next index)."""
    ch = pat[i]
    if ch == '\\':
        if i + 1 >= len(pat):
            raise TranslatorError('dangling backslash in %r' % pat)
        e = pat[i + 1]
        if e == 'd':
            return _digit_ranges(), i + 2
        if e.isalnum():
            raise TranslatorError('escape \\%s is outside the supported form (%r)' % (e, pat))
        return [(ord(e), ord(e))], i + 2
    if ch == '[':
        neg, ranges, j = _parse_class(pat, i)
        if neg:
            raise TranslatorError('negated class as a step of a sequence pattern is outside the supported form (%r)' % pat)
        return ranges, j
    if ch in _SPECIAL:
        raise TranslatorError('regex operator %r is outside the supported form (%r)' % (ch, pat))
    return [(ord(ch), ord(ch))], i + 1


def _check_flags(name, rx):
    if not isinstance(rx, re.Pattern):
        raise TranslatorError('%s is not a compiled pattern: %r' % (name, rx))
    if not isinstance(rx.pattern, str):
        raise TranslatorError('%s is not a str pattern' % name)
    if rx.flags != re.UNICODE:
        raise TranslatorError('%s compiled with flags %r; only the default (re.UNICODE) is supported' % (name, rx.flags))


def parse_negated_class(name, rx):
    """`[^...]` -> ranges of the listed (= allowed) characters, cross-checked with the engine."""
    _check_flags(name, rx)
    pat = rx.pattern
    if not pat.startswith('['):
        raise TranslatorError('%s = %r is not a single character class' % (name, pat))
    neg, allowed, j = _parse_class(pat, 0)
    if j != len(pat):
        raise TranslatorError('%s = %r: trailing %r after the character class' % (name, pat, pat[j:]))
    if not neg:
        raise TranslatorError('%s = %r is not a negated class' % (name, pat))
    # engine cross-check: the characters the pattern matches are exactly the complement
    matched = rx.findall(_all_chars())
    if any(len(m) != 1 for m in matched):
        raise TranslatorError('%s: engine returned a non-single-character match' % name)
    n_allowed = sum(hi - lo + 1 for lo, hi in allowed)
    if len(matched) != MAXCP + 1 - n_allowed:
        raise TranslatorError('%s = %r: parsed class and regex engine disagree (count)' % (name, pat))
    for lo, hi in allowed:
        for c in range(lo, hi + 1):
            if rx.search(chr(c)):
                raise TranslatorError('%s = %r: parsed class and regex engine disagree at U+%04X' % (name, pat, c))
    return allowed


def parse_two_step(name, rx):
    """a sequence of exactly two single-character atoms -> (first ranges, second ranges)"""
    _check_flags(name, rx)
    pat = rx.pattern
    steps = []
    i = 0
    while i < len(pat):
        r, i = _parse_atom(pat, i)
        steps.append(r)
    if len(steps) != 2:
        raise TranslatorError('%s = %r has %d steps, expected 2' % (name, pat, len(steps)))
    first, second = steps
    # engine cross-check, one position at a time
    a0, b0 = chr(first[0][0]), chr(second[0][0])
    allc = _all_chars()
    got_second = _ranges_of_set(c for c in range(MAXCP + 1) if rx.fullmatch(a0 + allc[c]))
    if got_second != second:
        raise TranslatorError('%s = %r: second step disagrees with the regex engine' % (name, pat))
    # first step: only a modest window is scanned exhaustively (the step is a literal in practice)
    got_first = _ranges_of_set(c for c in range(0x3000) if rx.fullmatch(allc[c] + b0))
    want_first = _merge((lo, min(hi, 0x2FFF)) for lo, hi in first if lo < 0x3000)
    if got_first != want_first:
        raise TranslatorError('%s = %r: first step disagrees with the regex engine' % (name, pat))
    return first, second


# --------------------------------------------------------------------------- emission
def _lean_ranges(rs):
    return '[' + ', '.join('(%d, %d)' % r for r in rs) + ']'


def _lean_str(s):
    return '"' + s.replace('\\', '\\\\').replace('"', '\\"') + '"'


def tables(marshal):
    t = {}
    for lean_name, attr in (('objPath', 'invalid_obj_path_re'), ('iface', 'if_re'),
                            ('bus', 'bus_re'), ('member', 'mbr_re')):
        rx = getattr(marshal, attr, None)
        if rx is None:
            raise TranslatorError('txdbus.marshal.%s no longer exists' % attr)
        t[lean_name] = (attr, rx.pattern if hasattr(rx, 'pattern') else repr(rx), parse_negated_class(attr, rx))
    rx = getattr(marshal, 'dot_digit_re', None)
    if rx is None:
        raise TranslatorError('txdbus.marshal.dot_digit_re no longer exists')
    t['dotDigit'] = ('dot_digit_re', rx.pattern if hasattr(rx, 'pattern') else repr(rx), parse_two_step('dot_digit_re', rx))
    return t


def emit(repo):
    from txdbus import marshal
    t = tables(marshal)
    out = []
    out.append('/-')
    out.append('GENERATED by tools/tables/c18_validators.py from the compiled regular expressions in')
    out.append('txdbus/marshal.py of the repository under test.  Do not edit: regenerated on every run.')
    out.append('')
    out.append('For the four negated classes `[^...]` the table is the list of inclusive code-point ranges')
    out.append('of the characters the class LISTS, i.e. the characters the validator allows (a validator')
    out.append('rejects when `re.search` finds a character outside them).  `dot_digit_re` is a two-step')
    out.append('pattern: a character of the first table immediately followed by one of the second.')
    out.append('-/')
    out.append('namespace Txdbus.Gen.Validators')
    out.append('')
    for lean_name in ('objPath', 'iface', 'bus', 'member'):
        attr, pat, allowed = t[lean_name]
        out.append('/-- `%s = re.compile(%s)` -/' % (attr, _lean_str(pat).replace('-/', '- /')))
        out.append('def %sSrc : String := %s' % (lean_name, _lean_str(pat)))
        out.append('def %sAllowed : List (Nat × Nat) := %s' % (lean_name, _lean_ranges(allowed)))
        out.append('')
    attr, pat, (first, second) = t['dotDigit']
    out.append('/-- `%s = re.compile(%s)`; `\\d` is Unicode category Nd (str pattern, no re.ASCII) -/' % (attr, _lean_str(pat)))
    out.append('def dotDigitSrc : String := %s' % _lean_str(pat))
    out.append('def dotDigitFirst : List (Nat × Nat) := %s' % _lean_ranges(first))
    out.append('def dotDigitSecond : List (Nat × Nat) :=')
    # wrap the long list
    items = ['(%d, %d)' % r for r in second]
    lines, cur = [], '  ['
    for k, it in enumerate(items):
        piece = it + (', ' if k + 1 < len(items) else ']')
        if len(cur) + len(piece) > 100:
            lines.append(cur.rstrip())
            cur = '   '
        cur += piece
    lines.append(cur)
    out.extend(lines)
    out.append('')
    out.append('end Txdbus.Gen.Validators')
    return '\n'.join(out) + '\n'


if __name__ == '__main__':
    import sys
    print(emit(sys.argv[1] if len(sys.argv) > 1 else '/repo'))
