"""Translator for C08 (also read by C11): the constants of the pending-call machinery.

Writes lean/TxdbusModel/Gen/C08Client.lean.  Every entry is derived by PROBING the code of the tree under
test (the modules are imported from it; `vlib.ctx.use_repo(repo)` has been called by extract_tables.run),
over the whole finite domain of the entry; where the source also has the shape this translator knows, the
entry is read from the AST as well and the two must agree (disagreement = TranslatorError).  A shape that is
not recognised is not an error: the probe stands, and a sentence goes into ADVISORIES (the pipeline then
runs the correspondence streams widened).

  * `noCheckReturn`  : the default of `callRemote`'s `returnSignature` parameter when it is a `str` (`none`: some other object;
                       no `str` return signature is equal to it).  AST: module-level assignment of a constant.
  * `structOpen`     : the one character c such that a single value comes back as a LIST when the reply
                       signature starts with c - found by converting a one-value reply (through the callback
                       `callRemote` adds, or end to end) for every first character 0..127.  AST: the `Compare` of `<x>.signature[0]` / `signature[0]`
                       with a one-character constant, wherever in the class it now lives.
  * `serialStep`     : a message constructed while `DBusMessage._nextSerial == N` gets serial N and leaves the
                       counter at N + step - measured on real `MethodCallMessage` constructions at several N.
                       AST: under `if newSerial:` the read `self.serial = DBusMessage._nextSerial` precedes
                       `DBusMessage._nextSerial += <positive int>`.
  * `dcGuarded`      : does `connectionLost` survive a disconnect callback that raises?  Probed on a real
                       connection object with a raising callback.  AST: the call of the loop variable of the
                       loop over `self._dcCallbacks` is inside a `try` catching Exception.

The wording of the exceptions the client generates locally (`RemoteError('Unexpected return value
signature...')`, `TimeOut('Method call timed out')`) is not part of any property and is no longer a table
entry: the correspondence compares exception class, DBus error name and the values that came from the peer.
"""
import ast
import os

MODULE = 'TxdbusModel.Gen.C08Client'
ADVISORIES = []


class TranslatorError(Exception):
    pass


def _parse(repo, rel):
    path = os.path.join(repo, 'txdbus', rel)
    with open(path, encoding='utf-8') as f:
        return ast.parse(f.read(), path)


def _class(tree, cls):
    for node in tree.body:
        if isinstance(node, ast.ClassDef) and node.name == cls:
            return node
    return None


def _method(tree, cls, name):
    c = _class(tree, cls)
    if c is not None:
        for sub in c.body:
            if isinstance(sub, ast.FunctionDef) and sub.name == name:
                return sub
    return None


def lean_str(s):
    out = ['"']
    for ch in s:
        if ch == '"':
            out.append('\\"')
        elif ch == '\\':
            out.append('\\\\')
        elif ch == '\n':
            out.append('\\n')
        elif 32 <= ord(ch) < 127:
            out.append(ch)
        else:
            out.append('\\u{%x}' % ord(ch))
    out.append('"')
    return ''.join(out)


def _quiet_log():
    try:
        from twisted.logger import globalLogBeginner
        globalLogBeginner.beginLoggingTo([lambda event: None], redirectStandardIO=False, discardBuffer=True)
    except Exception:
        pass


# --------------------------------------------------------------------------- probes
# Everything is reached through public behaviour (harness/c08_locate.py): no private helper is named.
def _loc():
    from harness import c08_locate
    return c08_locate


def probe_sentinel():
    import txdbus.client as client
    try:
        v = _loc().default_return_signature(client)
    except _loc().LocateError as e:
        raise TranslatorError(str(e))
    return str(v) if isinstance(v, str) else None


def probe_struct_open():
    """The set of first characters of a reply signature for which ONE value comes back wrapped in the list."""
    import types
    import txdbus.client as client
    from txdbus import message
    L = _loc()
    try:
        conv = L.Converter(client, message)
    except L.LocateError as e:
        raise TranslatorError('reply converter not found: %s' % e)
    marker = object()
    wraps = []
    for cp in range(128):
        c = chr(cp)
        body = [marker]
        msg = types.SimpleNamespace(signature=c + 'i', body=body)
        try:
            r = conv.convert(msg, conv.NOCHECK)
        except Exception as e:
            raise TranslatorError('the reply conversion raised %r on a one-value reply with signature %r' % (e, c + 'i'))
        if r is marker:
            continue
        if r is body or (isinstance(r, list) and len(r) == 1 and r[0] is marker):
            wraps.append(c)
        else:
            raise TranslatorError('the reply conversion returned neither the value nor the list for signature %r' % (c + 'i'))
    if len(wraps) != 1:
        raise TranslatorError('the single-value convention is not "one character marks a struct": wrapped for %r'
                              % (wraps,))
    return wraps[0]


def probe_serial_step():
    from txdbus import message
    counter = _loc().SerialCounter(message)
    steps = set()

    def build_all():
        last = None
        for kw in ({}, {'expectReply': False}, {'autoStart': False}, None):
            m = message.MethodReturnMessage(5) if kw is None else message.MethodCallMessage('/p', 'M', **kw)
            if last is not None:
                steps.add(m.serial - last)
            last = m.serial
        return last

    if counter.settable():
        saved = counter.peek()
        try:
            for n in (1, 7, 255, 65535, 2 ** 31):
                counter.set(n)
                first = message.MethodCallMessage('/p', 'M')
                if first.serial != n:
                    raise TranslatorError('a message built while the counter is %d got serial %r' % (n, first.serial))
                steps.add(counter.peek() - n)
                build_all()
        finally:
            counter.set(max(saved, 1))
    else:
        ADVISORIES.append('serialStep: no settable serial counter attribute found; consecutive constructions only')
        for _ in range(8):
            build_all()
    if len(steps) != 1:
        raise TranslatorError('the serial counter does not advance by a constant: %r' % sorted(steps))
    step = steps.pop()
    if not isinstance(step, int) or step <= 0:
        raise TranslatorError('the serial counter advances by %r' % (step,))
    return step


def probe_dc_guarded():
    """connectionLost on a ready connection with one raising disconnect callback and one call outstanding."""
    _quiet_log()
    from twisted.python.failure import Failure
    from twisted.internet.error import ConnectionDone
    import txdbus.client as client
    from txdbus import message

    class Boom(Exception):
        pass

    conn, tr, factory, hello = _loc().ready_connection(client, message)
    conn.callRemote('/obj', 'Method', interface='org.t.Iface', destination='org.t.Dest').addErrback(lambda f: None)

    def raiser(c, reason):
        raise Boom()
    conn.notifyOnDisconnect(raiser)
    try:
        conn.connectionLost(Failure(ConnectionDone()))
    except Boom:
        return False
    return True


# --------------------------------------------------------------------------- AST readings (cross-checks)
def ast_sentinel(ctree):
    for node in ctree.body:
        if isinstance(node, ast.Assign) and len(node.targets) == 1 and \
                isinstance(node.targets[0], ast.Name) and node.targets[0].id == '_NO_CHECK_RETURN':
            if isinstance(node.value, ast.Constant) and isinstance(node.value.value, str):
                return ('str', node.value.value)
            return ('other', None)
    return None


def ast_struct_open(ctree):
    c = _class(ctree, 'DBusClientConnection')
    if c is None:
        return None
    found = []
    for node in ast.walk(c):
        if isinstance(node, ast.Compare) and len(node.comparators) == 1:
            sides = [node.left, node.comparators[0]]
            sub = [s for s in sides if isinstance(s, ast.Subscript)
                   and isinstance(s.slice, ast.Constant) and s.slice.value == 0
                   and ((isinstance(s.value, ast.Attribute) and s.value.attr == 'signature')
                        or (isinstance(s.value, ast.Name) and 'sig' in s.value.id.lower()))]
            con = [s for s in sides if isinstance(s, ast.Constant) and isinstance(s.value, str) and len(s.value) == 1]
            if sub and con:
                found.append(con[0].value)
    return found[0] if len(found) == 1 else None


def ast_serial_step(mtree):
    marshal = _method(mtree, 'DBusMessage', '_marshal')
    if marshal is None:
        return None
    for node in ast.walk(marshal):
        if isinstance(node, ast.If) and isinstance(node.test, ast.Name) and node.test.id == 'newSerial':
            read_at = step_at = step = None
            for i, st in enumerate(node.body):
                if isinstance(st, ast.Assign) and len(st.targets) == 1 and isinstance(st.targets[0], ast.Attribute) \
                        and st.targets[0].attr == 'serial' and isinstance(st.value, ast.Attribute) \
                        and st.value.attr == '_nextSerial':
                    read_at = i
                if isinstance(st, ast.AugAssign) and isinstance(st.target, ast.Attribute) \
                        and st.target.attr == '_nextSerial' and isinstance(st.op, ast.Add) \
                        and isinstance(st.value, ast.Constant) and type(st.value.value) is int:
                    step_at, step = i, st.value.value
            if read_at is not None and step_at is not None and read_at < step_at:
                return step
    return None


def ast_dc_guarded(ctree):
    lost = _method(ctree, 'DBusClientConnection', 'connectionLost')
    if lost is None:
        return None
    result = []

    def walk(node, in_try, var):
        if isinstance(node, ast.Try):
            catches = False
            for h in node.handlers:
                if h.type is None:
                    catches = True
                else:
                    elts = h.type.elts if isinstance(h.type, ast.Tuple) else [h.type]
                    names = [getattr(e, 'id', getattr(e, 'attr', None)) for e in elts]
                    if 'Exception' in names or 'BaseException' in names:
                        catches = True
            for b in node.body:
                walk(b, in_try or catches, var)
            for part in (node.handlers, node.orelse, node.finalbody):
                for b in part:
                    walk(b, in_try, var)
            return
        if isinstance(node, ast.Call) and isinstance(node.func, ast.Name) and node.func.id == var:
            result.append(in_try)
        for child in ast.iter_child_nodes(node):
            walk(child, in_try, var)

    loops = 0
    for node in ast.walk(lost):
        if isinstance(node, ast.For) and isinstance(node.target, ast.Name) and \
                any(isinstance(n, ast.Attribute) and n.attr == '_dcCallbacks' for n in ast.walk(node.iter)):
            loops += 1
            for b in node.body:
                walk(b, False, node.target.id)
    if loops != 1 or len(result) != 1:
        return None
    return result[0]


def _cross(name, probed, read):
    """`read` is None when the source does not have the known shape."""
    if read is None:
        ADVISORIES.append('%s: source shape not recognised, entry derived by probing the code (%r)' % (name, probed))
    elif read != probed:
        raise TranslatorError('%s: the source reads %r but the code behaves as %r' % (name, read, probed))


def emit(repo):
    del ADVISORIES[:]
    ctree = _parse(repo, 'client.py')
    mtree = _parse(repo, 'message.py')

    sentinel = probe_sentinel()
    a = ast_sentinel(ctree)
    _cross('noCheckReturn', ('str', sentinel) if sentinel is not None else ('other', None), a)

    paren = probe_struct_open()
    _cross('structOpen', paren, ast_struct_open(ctree))

    step = probe_serial_step()
    _cross('serialStep', step, ast_serial_step(mtree))

    guarded = probe_dc_guarded()
    _cross('dcGuarded', guarded, ast_dc_guarded(ctree))

    L = []
    L.append('/-')
    L.append('GENERATED by tools/tables/c08_client.py from txdbus/client.py and txdbus/message.py of the repository')
    L.append('under test (probed on the running code, cross-checked against the source).  Do not edit.')
    L.append('-/')
    L.append('namespace Txdbus.Gen.C08Client')
    L.append('')
    L.append('/-- `_NO_CHECK_RETURN` when it is a string (`none`: some other object, equal to no string) -/')
    L.append('def noCheckReturn : Option String := %s' % ('none' if sentinel is None else 'some ' + lean_str(sentinel)))
    L.append('')
    L.append('/-- the first character of a reply signature for which one value is handed back as a list -/')
    L.append('def structOpen : Char := %s' % ("'" + paren + "'" if paren not in "'\\" else "'\\" + paren + "'"))
    L.append('')
    L.append('/-- a message built while the counter is N gets serial N and leaves the counter at N + serialStep -/')
    L.append('def serialStep : Nat := %d' % step)
    L.append('')
    L.append('/-- `connectionLost` survives a disconnect callback that raises -/')
    L.append('def dcGuarded : Bool := %s' % ('true' if guarded else 'false'))
    L.append('')
    L.append('end Txdbus.Gen.C08Client')
    L.append('')
    return '\n'.join(L)
