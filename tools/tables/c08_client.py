"""Translator for C08: the constants of the pending-call machinery.

Reads the SOURCE (AST) of txdbus/client.py and txdbus/message.py of the working tree and writes
lean/TxdbusModel/Gen/C08Client.lean:

  * `_NO_CHECK_RETURN` (the sentinel default of callRemote's returnSignature);
  * the texts `_cbCvtReply` raises RemoteError with: the plain text, the '{}' format (emitted as
    the three pieces around its two '{}' fields) and the '%s' wrapper (two pieces); and the
    character the single-value test compares `msg.signature[0]` with;
  * the text `_onMethodTimeout` builds TimeOut with;
  * the initial value and the increment of the process-wide serial counter
    (`DBusMessage._nextSerial = 1`, `DBusMessage._nextSerial += 1`).

Anything outside that restricted shape (another number of string constants, another number of
format fields, a counter that is not `+= <int>`) raises TranslatorError: the table obligation of
C08 is then broken and the pipeline widens the search.
"""
import ast
import os

MODULE = 'TxdbusModel.Gen.C08Client'


class TranslatorError(Exception):
    pass


def _parse(repo, rel):
    path = os.path.join(repo, 'txdbus', rel)
    with open(path, encoding='utf-8') as f:
        return ast.parse(f.read(), path)


def _find_method(tree, cls, name):
    for node in tree.body:
        if isinstance(node, ast.ClassDef) and node.name == cls:
            for sub in node.body:
                if isinstance(sub, ast.FunctionDef) and sub.name == name:
                    return sub
    raise TranslatorError('%s.%s not found' % (cls, name))


def _strings(fn):
    """String constants of a function body in source order, the docstring excluded."""
    body = list(fn.body)
    if body and isinstance(body[0], ast.Expr) and isinstance(body[0].value, ast.Constant) \
            and isinstance(body[0].value.value, str):
        body = body[1:]
    out = []
    for stmt in body:
        for node in ast.walk(stmt):
            if isinstance(node, ast.Constant) and isinstance(node.value, str):
                out.append((node.lineno, node.col_offset, node.value))
    return [s for _, _, s in sorted(out)]


def lean_str(s):
    out = ['"']
    for ch in s:
        if ch == '"':
            out.append('\\"')
        elif ch == '\\':
            out.append('\\\\')
        elif ch == '\n':
            out.append('\\n')
        elif 32 <= ord(ch) < 127:
            out.append(ch)
        else:
            out.append('\\u{%x}' % ord(ch))
    out.append('"')
    return ''.join(out)


def emit(repo):
    ctree = _parse(repo, 'client.py')
    mtree = _parse(repo, 'message.py')

    # _NO_CHECK_RETURN
    sentinel = None
    for node in ctree.body:
        if isinstance(node, ast.Assign) and len(node.targets) == 1 and \
                isinstance(node.targets[0], ast.Name) and node.targets[0].id == '_NO_CHECK_RETURN':
            if isinstance(node.value, ast.Constant) and isinstance(node.value.value, str):
                sentinel = node.value.value
    if sentinel is None:
        raise TranslatorError('_NO_CHECK_RETURN is not a module-level string constant')

    cvt = _find_method(ctree, 'DBusClientConnection', '_cbCvtReply')
    strs = _strings(cvt)
    if len(strs) != 4:
        raise TranslatorError('_cbCvtReply: expected 4 string constants, found %r' % (strs,))
    plain, fmt, wrap, paren = strs
    fparts = fmt.split('{}')
    if len(fparts) != 3 or '{' in ''.join(fparts) or '}' in ''.join(fparts):
        raise TranslatorError('_cbCvtReply: format %r does not have exactly two {} fields' % (fmt,))
    wparts = wrap.split('%s')
    if len(wparts) != 2 or '%' in ''.join(wparts):
        raise TranslatorError('_cbCvtReply: wrapper %r does not have exactly one %%s field' % (wrap,))
    if len(paren) != 1:
        raise TranslatorError('_cbCvtReply: struct marker %r is not one character' % (paren,))

    tmo = _find_method(ctree, 'DBusClientConnection', '_onMethodTimeout')
    tstrs = _strings(tmo)
    if len(tstrs) != 1:
        raise TranslatorError('_onMethodTimeout: expected 1 string constant, found %r' % (tstrs,))

    # serial counter
    init = None
    for node in mtree.body:
        if isinstance(node, ast.ClassDef) and node.name == 'DBusMessage':
            for sub in node.body:
                if isinstance(sub, ast.Assign) and len(sub.targets) == 1 and \
                        isinstance(sub.targets[0], ast.Name) and sub.targets[0].id == '_nextSerial':
                    if isinstance(sub.value, ast.Constant) and type(sub.value.value) is int:
                        init = sub.value.value
    if init is None:
        raise TranslatorError('DBusMessage._nextSerial is not an integer class constant')
    marshal = _find_method(mtree, 'DBusMessage', '_marshal')
    incs = []
    reads = 0
    for node in ast.walk(marshal):
        if isinstance(node, ast.AugAssign) and isinstance(node.target, ast.Attribute) \
                and node.target.attr == '_nextSerial':
            if not (isinstance(node.op, ast.Add) and isinstance(node.value, ast.Constant)
                    and type(node.value.value) is int):
                raise TranslatorError('_nextSerial is not advanced by `+= <int>`')
            incs.append(node.value.value)
        elif isinstance(node, ast.Assign) and any(
                isinstance(t, ast.Attribute) and t.attr == '_nextSerial' for t in node.targets):
            raise TranslatorError('_nextSerial is assigned inside _marshal')
        elif isinstance(node, ast.Attribute) and node.attr == '_nextSerial' and isinstance(node.ctx, ast.Load):
            reads += 1
    if len(incs) != 1:
        raise TranslatorError('expected exactly one `_nextSerial += n` in _marshal, found %d' % len(incs))

    L = []
    L.append('/-')
    L.append('GENERATED by tools/tables/c08_client.py from the source of txdbus/client.py and')
    L.append('txdbus/message.py of the repository under test.  Do not edit: regenerated on every run.')
    L.append('-/')
    L.append('namespace Txdbus.Gen.C08Client')
    L.append('')
    L.append('/-- `_NO_CHECK_RETURN` -/')
    L.append('def noCheckReturn : String := %s' % lean_str(sentinel))
    L.append('')
    L.append('/-- `raise error.RemoteError(...)` for an undeclared return value -/')
    L.append('def unexpectedSig : String := %s' % lean_str(plain))
    L.append('/-- the three pieces of the `.format` string around its two `{}` fields -/')
    L.append('def expectedPre : String := %s' % lean_str(fparts[0]))
    L.append('def expectedMid : String := %s' % lean_str(fparts[1]))
    L.append('def expectedPost : String := %s' % lean_str(fparts[2]))
    L.append('/-- the two pieces of the `%` wrapper around its `%s` field -/')
    L.append('def wrapPre : String := %s' % lean_str(wparts[0]))
    L.append('def wrapPost : String := %s' % lean_str(wparts[1]))
    L.append('/-- the character `msg.signature[0]` is compared with -/')
    L.append('def structOpen : Char := %s' % ("'" + paren + "'" if paren not in "'\\" else "'\\" + paren + "'"))
    L.append('')
    L.append('/-- `error.TimeOut(...)` in `_onMethodTimeout` -/')
    L.append('def timeoutText : String := %s' % lean_str(tstrs[0]))
    L.append('')
    L.append('/-- `DBusMessage._nextSerial = ...` and the `+=` in `_marshal` -/')
    if init < 0 or incs[0] < 0:
        raise TranslatorError('negative serial counter start or step (%d, %d)' % (init, incs[0]))
    L.append('def serialInit : Nat := %d' % init)
    L.append('def serialStep : Nat := %d' % incs[0])
    L.append('')
    L.append('end Txdbus.Gen.C08Client')
    L.append('')
    return '\n'.join(L)
