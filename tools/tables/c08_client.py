"""Translator for C08: the constants of the pending-call machinery.

Reads the SOURCE (AST) of txdbus/client.py and txdbus/message.py of the working tree and writes
lean/TxdbusModel/Gen/C08Client.lean.  Everything is located structurally, not by position:

  * `_NO_CHECK_RETURN`: a module-level string constant -> `some "<text>"`; any other expression (e.g.
    `object()`) -> `none` (no `str` return signature can be equal to it);
  * `_cbCvtReply`: the arguments of the `raise error.RemoteError(...)` statements are evaluated
    symbolically into templates: a list of literal pieces and holes (`str(returnSignature)`,
    `str(msg.signature)`).  `%`-formatting with `%s`, `str.format` with `{}`, f-strings, `+`
    concatenation and local names assigned once before use are understood.  The first `raise` in
    source order is the "no value declared" text, the second the "declared signature differs" text;
    the character `msg.signature[0]` is compared with comes from that `Compare` node;
  * `_onMethodTimeout`: the template of the argument of `error.TimeOut(...)` (must be hole-free);
  * `DBusMessage._marshal`: under `if newSerial:` the serial is READ from `DBusMessage._nextSerial`
    into `self.serial` and only then advanced by `+= <positive int>` (the step is emitted; the
    read-before-step order and the source of the read are checked);
  * `connectionLost`: is the call of each disconnect callback (`cb(self, reason)` inside the loop over
    `self._dcCallbacks`) guarded by a `try` whose handler catches `Exception` / `BaseException` /
    everything?  -> `dcGuarded`.

Anything outside that (another number of `raise RemoteError`, a hole of another kind, a counter that
is not advanced by a positive integer constant, ...) raises TranslatorError: the table obligation of
C08 is then broken and the pipeline widens the search.
"""
import ast
import os

MODULE = 'TxdbusModel.Gen.C08Client'


class TranslatorError(Exception):
    pass


def _parse(repo, rel):
    path = os.path.join(repo, 'txdbus', rel)
    with open(path, encoding='utf-8') as f:
        return ast.parse(f.read(), path)


def _find_method(tree, cls, name):
    for node in tree.body:
        if isinstance(node, ast.ClassDef) and node.name == cls:
            for sub in node.body:
                if isinstance(sub, ast.FunctionDef) and sub.name == name:
                    return sub
    raise TranslatorError('%s.%s not found' % (cls, name))


def lean_str(s):
    out = ['"']
    for ch in s:
        if ch == '"':
            out.append('\\"')
        elif ch == '\\':
            out.append('\\\\')
        elif ch == '\n':
            out.append('\\n')
        elif 32 <= ord(ch) < 127:
            out.append(ch)
        else:
            out.append('\\u{%x}' % ord(ch))
    out.append('"')
    return ''.join(out)


# --------------------------------------------------------------------------- symbolic templates
LIT, RS, SIG = 0, 1, 2      # literal text / str(returnSignature) / str(msg.signature)


def _norm(parts):
    out = []
    for tag, text in parts:
        if tag == LIT:
            if not text:
                continue
            if out and out[-1][0] == LIT:
                out[-1] = (LIT, out[-1][1] + text)
                continue
        out.append((tag, text))
    return out


class Templates:
    """Symbolic evaluation of string expressions inside one function."""

    def __init__(self, fn):
        self.fn = fn
        self.assigns = {}
        for node in ast.walk(fn):
            if isinstance(node, ast.Assign) and len(node.targets) == 1 and isinstance(node.targets[0], ast.Name):
                self.assigns.setdefault(node.targets[0].id, []).append(node)

    def lookup(self, name, lineno):
        cands = [a for a in self.assigns.get(name, []) if a.lineno < lineno]
        if not cands:
            raise TranslatorError('name %r is not assigned before line %d' % (name, lineno))
        return max(cands, key=lambda a: a.lineno).value

    def hole(self, node):
        """str(returnSignature) / str(msg.signature), with or without the str()."""
        if isinstance(node, ast.Call) and isinstance(node.func, ast.Name) and node.func.id == 'str' \
                and len(node.args) == 1 and not node.keywords:
            node = node.args[0]
        if isinstance(node, ast.Name) and node.id == 'returnSignature':
            return [(RS, '')]
        if isinstance(node, ast.Attribute) and node.attr == 'signature' and isinstance(node.value, ast.Name):
            return [(SIG, '')]
        return None

    def ev(self, node):
        h = self.hole(node)
        if h is not None:
            return h
        if isinstance(node, ast.Constant) and isinstance(node.value, str):
            return [(LIT, node.value)]
        if isinstance(node, ast.Name):
            return self.ev(self.lookup(node.id, node.lineno))
        if isinstance(node, ast.JoinedStr):
            out = []
            for v in node.values:
                if isinstance(v, ast.Constant):
                    out.append((LIT, v.value))
                elif isinstance(v, ast.FormattedValue) and v.format_spec is None and v.conversion in (-1, 115):
                    out += self.ev(v.value)
                else:
                    raise TranslatorError('unsupported f-string piece at line %d' % node.lineno)
            return out
        if isinstance(node, ast.BinOp) and isinstance(node.op, ast.Add):
            return self.ev(node.left) + self.ev(node.right)
        if isinstance(node, ast.BinOp) and isinstance(node.op, ast.Mod):
            fmt = self.ev(node.left)
            args = node.right.elts if isinstance(node.right, ast.Tuple) else [node.right]
            return self.fill(fmt, '%s', [self.ev(a) for a in args], node.lineno)
        if isinstance(node, ast.Call) and isinstance(node.func, ast.Attribute) and node.func.attr == 'format' \
                and not node.keywords:
            fmt = self.ev(node.func.value)
            return self.fill(fmt, '{}', [self.ev(a) for a in node.args], node.lineno)
        raise TranslatorError('unsupported string expression at line %d: %s' % (node.lineno, ast.dump(node)[:120]))

    @staticmethod
    def fill(fmt, marker, args, lineno):
        out = []
        args = list(args)
        for tag, text in fmt:
            if tag != LIT:
                out.append((tag, text))
                continue
            pieces = text.split(marker)
            for i, p in enumerate(pieces):
                if i:
                    if not args:
                        raise TranslatorError('more %r fields than arguments at line %d' % (marker, lineno))
                    out += args.pop(0)
                out.append((LIT, p))
        if args:
            raise TranslatorError('more arguments than %r fields at line %d' % (marker, lineno))
        joined = ''.join(t for tag, t in out if tag == LIT)
        if marker == '%s' and '%' in joined.replace('%%', ''):
            raise TranslatorError('unsupported %% directive at line %d' % lineno)
        return out


def _raises_of(fn, exc_attr):
    """Argument nodes of `raise <x>.<exc_attr>(arg)` in source order."""
    out = []
    for node in ast.walk(fn):
        if isinstance(node, ast.Raise) and isinstance(node.exc, ast.Call):
            f = node.exc.func
            name = f.attr if isinstance(f, ast.Attribute) else (f.id if isinstance(f, ast.Name) else None)
            if name == exc_attr:
                if len(node.exc.args) != 1 or node.exc.keywords:
                    raise TranslatorError('raise %s(...) with other than one argument at line %d' % (exc_attr, node.lineno))
                out.append((node.lineno, node.exc.args[0]))
    return [a for _, a in sorted(out, key=lambda x: x[0])]


def _lean_template(parts):
    return '[' + ', '.join('(%d, %s)' % (tag, lean_str(text)) for tag, text in _norm(parts)) + ']'


def emit(repo):
    ctree = _parse(repo, 'client.py')
    mtree = _parse(repo, 'message.py')

    # ---- _NO_CHECK_RETURN
    sentinel = 'missing'
    for node in ctree.body:
        if isinstance(node, ast.Assign) and len(node.targets) == 1 and \
                isinstance(node.targets[0], ast.Name) and node.targets[0].id == '_NO_CHECK_RETURN':
            if isinstance(node.value, ast.Constant) and isinstance(node.value.value, str):
                sentinel = node.value.value
            else:
                sentinel = None
    if sentinel == 'missing':
        raise TranslatorError('_NO_CHECK_RETURN is not assigned at module level')

    # ---- _cbCvtReply
    cvt = _find_method(ctree, 'DBusClientConnection', '_cbCvtReply')
    tpl = Templates(cvt)
    raises = _raises_of(cvt, 'RemoteError')
    if len(raises) != 2:
        raise TranslatorError('_cbCvtReply: expected 2 `raise error.RemoteError(...)`, found %d' % len(raises))
    plain = _norm(tpl.ev(raises[0]))
    mismatch = _norm(tpl.ev(raises[1]))
    if any(tag != LIT for tag, _ in plain):
        raise TranslatorError('_cbCvtReply: the first RemoteError text is not a constant')
    paren = None
    for node in ast.walk(cvt):
        if isinstance(node, ast.Compare) and len(node.comparators) == 1:
            sides = [node.left, node.comparators[0]]
            sub = [s for s in sides if isinstance(s, ast.Subscript) and isinstance(s.value, ast.Attribute)
                   and s.value.attr == 'signature']
            con = [s for s in sides if isinstance(s, ast.Constant) and isinstance(s.value, str)]
            if sub and con:
                idx = sub[0].slice
                if not (isinstance(idx, ast.Constant) and idx.value == 0) or len(con[0].value) != 1:
                    raise TranslatorError('_cbCvtReply: unexpected comparison on msg.signature at line %d' % node.lineno)
                if paren is not None:
                    raise TranslatorError('_cbCvtReply: two comparisons on msg.signature[0]')
                paren = con[0].value
    if paren is None:
        raise TranslatorError('_cbCvtReply: no comparison of msg.signature[0] with a character')

    # ---- _onMethodTimeout
    tmo = _find_method(ctree, 'DBusClientConnection', '_onMethodTimeout')
    ttext = None
    ttpl = Templates(tmo)
    for node in ast.walk(tmo):
        if isinstance(node, ast.Call):
            f = node.func
            name = f.attr if isinstance(f, ast.Attribute) else (f.id if isinstance(f, ast.Name) else None)
            if name == 'TimeOut':
                if len(node.args) != 1:
                    raise TranslatorError('_onMethodTimeout: TimeOut(...) with other than one argument')
                parts = _norm(ttpl.ev(node.args[0]))
                if any(tag != LIT for tag, _ in parts) or ttext is not None:
                    raise TranslatorError('_onMethodTimeout: TimeOut text not a single constant')
                ttext = ''.join(t for _, t in parts)
    if ttext is None:
        raise TranslatorError('_onMethodTimeout: no error.TimeOut(...)')

    # ---- serial counter: read, then step, under `if newSerial:`
    marshal = _find_method(mtree, 'DBusMessage', '_marshal')
    step = None
    for node in ast.walk(marshal):
        if isinstance(node, ast.If) and isinstance(node.test, ast.Name) and node.test.id == 'newSerial':
            read_at = step_at = None
            for i, st in enumerate(node.body):
                if isinstance(st, ast.Assign) and len(st.targets) == 1 and isinstance(st.targets[0], ast.Attribute) \
                        and st.targets[0].attr == 'serial' and isinstance(st.targets[0].value, ast.Name) \
                        and st.targets[0].value.id == 'self':
                    if not (isinstance(st.value, ast.Attribute) and st.value.attr == '_nextSerial'):
                        raise TranslatorError('self.serial is not read from DBusMessage._nextSerial')
                    read_at = i
                if isinstance(st, ast.AugAssign) and isinstance(st.target, ast.Attribute) \
                        and st.target.attr == '_nextSerial':
                    if not (isinstance(st.op, ast.Add) and isinstance(st.value, ast.Constant)
                            and type(st.value.value) is int and st.value.value > 0):
                        raise TranslatorError('_nextSerial is not advanced by `+= <positive int>`')
                    step_at, step = i, st.value.value
            if read_at is None or step_at is None or not read_at < step_at:
                raise TranslatorError('under `if newSerial:` the serial is not read and then advanced')
    if step is None:
        raise TranslatorError('no `if newSerial:` block advancing _nextSerial in _marshal')
    others = [n for n in ast.walk(marshal) if isinstance(n, (ast.Assign, ast.AugAssign))
              and any(isinstance(t, ast.Attribute) and t.attr == '_nextSerial'
                      for t in (n.targets if isinstance(n, ast.Assign) else [n.target]))]
    if len(others) != 1:
        raise TranslatorError('_nextSerial is written %d times in _marshal' % len(others))

    # ---- connectionLost: are the disconnect callbacks guarded?
    lost = _find_method(ctree, 'DBusClientConnection', 'connectionLost')
    guarded = None

    def walk(node, in_try):
        nonlocal guarded
        if isinstance(node, ast.Try):
            catches = False
            for h in node.handlers:
                names = []
                if h.type is None:
                    catches = True
                elif isinstance(h.type, ast.Tuple):
                    names = [getattr(e, 'id', getattr(e, 'attr', None)) for e in h.type.elts]
                else:
                    names = [getattr(h.type, 'id', getattr(h.type, 'attr', None))]
                if 'Exception' in names or 'BaseException' in names:
                    catches = True
            for b in node.body:
                walk(b, in_try or catches)
            for part in (node.handlers, node.orelse, node.finalbody):
                for b in part:
                    walk(b, in_try)
            return
        if isinstance(node, ast.Call) and isinstance(node.func, ast.Name) and node.func.id == loopvar[0] \
                and loopvar[0] is not None:
            if guarded is not None:
                raise TranslatorError('connectionLost: the disconnect callback is called twice')
            guarded = in_try
        for child in ast.iter_child_nodes(node):
            walk(child, in_try)

    loopvar = [None]
    loops = 0
    for node in ast.walk(lost):
        if isinstance(node, ast.For) and isinstance(node.target, ast.Name) and \
                any(isinstance(n, ast.Attribute) and n.attr == '_dcCallbacks' for n in ast.walk(node.iter)):
            loops += 1
            loopvar[0] = node.target.id
            for b in node.body:
                walk(b, False)
    if loops != 1 or guarded is None:
        raise TranslatorError('connectionLost: no single loop over self._dcCallbacks calling each callback')

    L = []
    L.append('/-')
    L.append('GENERATED by tools/tables/c08_client.py from the source of txdbus/client.py and')
    L.append('txdbus/message.py of the repository under test.  Do not edit: regenerated on every run.')
    L.append('-/')
    L.append('namespace Txdbus.Gen.C08Client')
    L.append('')
    L.append('/-- `_NO_CHECK_RETURN` when it is a string constant (`none`: some other object, equal to no string) -/')
    L.append('def noCheckReturn : Option String := %s' % ('none' if sentinel is None else 'some ' + lean_str(sentinel)))
    L.append('')
    L.append('/-- `raise error.RemoteError(...)` for an undeclared return value -/')
    L.append('def unexpectedSig : String := %s' % lean_str(''.join(t for _, t in plain)))
    L.append('/-- the text for a declared signature that differs: pieces (0, literal), (1, _) = str(returnSignature),')
    L.append('(2, _) = str(msg.signature) -/')
    L.append('def mismatchTemplate : List (Nat × String) := %s' % _lean_template(mismatch))
    L.append('/-- the character `msg.signature[0]` is compared with -/')
    L.append('def structOpen : Char := %s' % ("'" + paren + "'" if paren not in "'\\" else "'\\" + paren + "'"))
    L.append('')
    L.append('/-- `error.TimeOut(...)` in `_onMethodTimeout` -/')
    L.append('def timeoutText : String := %s' % lean_str(ttext))
    L.append('')
    L.append('/-- `self.serial = DBusMessage._nextSerial` and then `DBusMessage._nextSerial += serialStep` -/')
    L.append('def serialStep : Nat := %d' % step)
    L.append('')
    L.append('/-- `connectionLost` calls each disconnect callback inside a `try` that catches its exception -/')
    L.append('def dcGuarded : Bool := %s' % ('true' if guarded else 'false'))
    L.append('')
    L.append('end Txdbus.Gen.C08Client')
    L.append('')
    return '\n'.join(L)
