"""C07 translator: the client authenticator's tables.

  ClientAuthenticator.preference          mechanism names in the order they are offered
  BasicDBusProtocol.MAX_AUTH_LENGTH       longest accepted authentication line
  BasicDBusProtocol.authDelimiter         line delimiter of the handshake
  handler words                           route 1: the words W for which a method `_auth_W` exists (dir);
                                          route 2 (behaviour): candidate words that a real ClientAuthenticator
                                          does not refuse the way it refuses an unknown word, in at least one of
                                          three states (fresh; fresh on a UNIX transport; after OK on a UNIX
                                          transport, i.e. negotiating).  Both must agree; found only by route 2
                                          (handlers renamed / table-driven dispatch) -> ADVISORIES; neither -> error.

Anything outside the expected shape (a non-bytes name, a name with a byte that would break the
line protocol, a non-integer limit) is a translator failure, not a silently different table.
"""
MODULE = 'TxdbusModel.Gen.ClientAuth'

# Filled by emit(): entries derived by probing the real code because the source shape was not the known one.
ADVISORIES = []


def _probe_handler_words(authentication):
    """Words the client authenticator has a handler for, by behaviour: `handleAuthMessage(W ...)` on a real
    ClientAuthenticator that does NOT end in the refusal an unknown word gets (DBusAuthenticationFailed in every
    state, nothing sent)."""
    import inspect
    import re
    from twisted.internet import interfaces
    from zope.interface import implementer
    from txdbus.error import DBusAuthenticationFailed

    @implementer(interfaces.IUNIXTransport)
    class UnixT:
        def write(self, d):
            pass

        def writeSequence(self, d):
            pass

        def loseConnection(self):
            pass

        def getPeer(self):
            pass

        def getHost(self):
            pass

        def sendFileDescriptor(self, fd):
            pass

    class Proto:
        def __init__(self, unix):
            self.sent = []
            if unix:
                self.transport = UnixT()

        def sendAuthMessage(self, m):
            self.sent.append(m)

    def fresh(unix, prelude):
        pr = Proto(unix)
        ca = authentication.ClientAuthenticator()
        ca.beginAuthentication(pr)
        for l in prelude:
            try:
                ca.handleAuthMessage(l)
            except Exception:
                return None, None
        return ca, pr
    states = [(False, []), (True, []), (True, [b'OK 3031'])]
    cands = {'OK', 'REJECTED', 'ERROR', 'DATA', 'AGREE_UNIX_FD', 'AUTH', 'BEGIN', 'CANCEL', 'NEGOTIATE_UNIX_FD'}
    try:
        for w in re.findall(r'[A-Z][A-Z0-9_]{1,40}', inspect.getsource(authentication.ClientAuthenticator)):
            cands.add(w)
            for k in range(1, len(w)):
                if w[k - 1] == '_':
                    cands.add(w[k:])
    except (OSError, TypeError):
        pass

    def refused_everywhere(word):
        for unix, prelude in states:
            for arg in (b'', b' 3031'):
                ca, pr = fresh(unix, prelude)
                if ca is None:
                    continue
                n = len(pr.sent)
                try:
                    ca.handleAuthMessage(word + arg)
                except DBusAuthenticationFailed:
                    if len(pr.sent) == n:
                        continue
                    return False
                except Exception:
                    return False
                return False
        return True
    if not refused_everywhere(b'NO_SUCH_WORD_xq'):
        return None            # the probe cannot tell handled from unknown words
    return sorted(w.encode('ascii') for w in cands if not refused_everywhere(w.encode('ascii')))


def _bytes(bs):
    return '[' + ', '.join(str(b) for b in bs) + ']'


def emit(repo):
    from txdbus import authentication, protocol
    pref = authentication.ClientAuthenticator.preference
    if not isinstance(pref, (list, tuple)):
        raise ValueError('ClientAuthenticator.preference is not a list: %r' % (pref,))
    for m in pref:
        if not isinstance(m, bytes):
            raise ValueError('mechanism name is not bytes: %r' % (m,))
        if not m or any(b <= 32 or b >= 127 for b in m):
            raise ValueError('mechanism name outside printable ASCII without spaces: %r' % (m,))
    mx = protocol.BasicDBusProtocol.MAX_AUTH_LENGTH
    if type(mx) is not int or mx < 0:
        raise ValueError('MAX_AUTH_LENGTH is not a natural number: %r' % (mx,))
    delim = protocol.BasicDBusProtocol.authDelimiter
    if not isinstance(delim, bytes):
        raise ValueError('authDelimiter is not bytes: %r' % (delim,))
    del ADVISORIES[:]
    by_dir = sorted(n[len('_auth_'):].encode('utf-8') for n in dir(authentication.ClientAuthenticator)
                    if n.startswith('_auth_'))
    try:
        by_probe = _probe_handler_words(authentication)
    except Exception:
        by_probe = None
    if by_dir and by_probe is not None:
        if by_dir != by_probe:
            raise ValueError('handler words: `_auth_*` methods say %r, the behaviour of the real authenticator %r'
                             % (by_dir, by_probe))
        handlers = by_dir
    elif by_dir:
        handlers = by_dir
    elif by_probe:
        handlers = by_probe
        ADVISORIES.append('ClientAuthenticator has no `_auth_<WORD>` methods any more; the handler words %r were '
                          'found by probing the real authenticator' % (by_probe,))
    else:
        raise ValueError('handler words: no `_auth_*` methods and the behavioural probe is inconclusive')
    out = []
    out.append('/- GENERATED by tools/tables/c07_client_auth.py from txdbus/authentication.py and')
    out.append('   txdbus/protocol.py - do not edit. -/')
    out.append('namespace Txdbus.Gen.ClientAuth')
    out.append('')
    out.append('/-- `ClientAuthenticator.preference`: %s -/' % ', '.join(m.decode('ascii') for m in pref))
    out.append('def preference : List (List UInt8) :=')
    out.append('  [' + ',\n   '.join(_bytes(m) for m in pref) + ']')
    out.append('')
    out.append('/-- `BasicDBusProtocol.MAX_AUTH_LENGTH` -/')
    out.append('def maxAuthLength : Nat := %d' % mx)
    out.append('')
    out.append('/-- `BasicDBusProtocol.authDelimiter` -/')
    out.append('def authDelimiter : List UInt8 := %s' % _bytes(delim))
    out.append('')
    out.append('/-- the words `W` with a handler `ClientAuthenticator._auth_W` (what `getattr` can find), sorted:')
    out.append('    %s -/' % ', '.join(h.decode('utf-8', 'replace') for h in handlers))
    out.append('def handlerWords : List (List UInt8) :=')
    out.append('  [' + ',\n   '.join(_bytes(h) for h in handlers) + ']')
    out.append('')
    out.append('end Txdbus.Gen.ClientAuth')
    return '\n'.join(out) + '\n'
