"""Translator for C01 / C02: the tables of the wire codec in txdbus/marshal.py.

Runtime objects:
  * `dbus_types`                 -> `alignTable : List (Char × Nat)` (type code, alignment), in source order
  * `marshallers`/`unmarshallers`-> `inductive Fn` + `marshallers`/`unmarshallers : List (Char × Fn)`: type code and the
                                    `__name__` of the function it dispatches to (`marshal_dictionary` is the
                                    object `marshal_struct`), sorted by code
  * `padding`                    -> `maxPad`: the keys must be exactly 0..maxPad, the value of key k must be k NULs
  * `pad`                        -> its keys must be the type codes of `dbus_types` plus 'header'

From the AST of every function named in the two dispatch tables (restricted shapes; anything else is a
TranslatorError, which breaks the table obligation):
  * every format selected by `lendian` (`lendian and L or B`, `L if lendian else B`, with literals or names bound
    to string constants)                                      -> `formats`: function name ↦ [(little, big)] in source order
  * for the functions ending in `return N, ...` (N a literal or a name bound to an int constant)
                                                              -> `fixedSize`: function name ↦ N
  * for the functions ending in `return <a + b + ...>, ...`   -> `frameConst`: function name ↦ sum of the int constants
"""
import ast
import inspect
import textwrap

MODULE = 'TxdbusModel.Gen.Wire'


class TranslatorError(Exception):
    pass


def _chr(c):
    if len(c) != 1 or not (32 < ord(c) < 127) or c in "'\\":
        raise TranslatorError('type code outside printable ASCII: %r' % (c,))
    return "'%s'" % c


def _ident(s):
    if not isinstance(s, str) or not s.isidentifier() or not s.isascii():
        raise TranslatorError('function name is not a plain identifier: %r' % (s,))
    return '.' + s


def _fmt(s):
    """A two-character struct format: byte-order mark and type letter -> Lean `(Char × Char)`."""
    if not isinstance(s, str) or len(s) != 2:
        raise TranslatorError('struct format is not <byte order><letter>: %r' % (s,))
    return '(%s, %s)' % (_chr(s[0]), _chr(s[1]))


def _str_const(node, fn, local):
    """A string known at translation time: a literal, or a name bound to a string literal in the function
    or to a module-level string of txdbus.marshal."""
    if isinstance(node, ast.Constant) and isinstance(node.value, str):
        return node.value
    if isinstance(node, ast.Name):
        if node.id in local and isinstance(local[node.id], str):
            return local[node.id]
        v = fn.__globals__.get(node.id)
        if isinstance(v, str):
            return v
    return None


def _int_const(node, fn, local):
    if isinstance(node, ast.Constant) and type(node.value) is int:
        return node.value
    if isinstance(node, ast.Name):
        if node.id in local and type(local[node.id]) is int:
            return local[node.id]
        v = fn.__globals__.get(node.id)
        if type(v) is int:
            return v
    return None


def _format_pair(node, fn, local):
    """(little, big) if `node` selects a struct format by `lendian`:
    `lendian and L or B`  |  `L if lendian else B`  |  `B if not lendian else L`."""
    if isinstance(node, ast.BoolOp) and isinstance(node.op, ast.Or) and len(node.values) == 2:
        left, right = node.values
        if (isinstance(left, ast.BoolOp) and isinstance(left.op, ast.And) and len(left.values) == 2
                and isinstance(left.values[0], ast.Name) and left.values[0].id == 'lendian'):
            le, be = _str_const(left.values[1], fn, local), _str_const(right, fn, local)
            if le is None or be is None:
                raise TranslatorError('unexpected format expression in %s: %s' % (fn.__name__, ast.dump(node)))
            return le, be
    if isinstance(node, ast.IfExp):
        t = node.test
        neg = False
        if isinstance(t, ast.UnaryOp) and isinstance(t.op, ast.Not):
            t, neg = t.operand, True
        if isinstance(t, ast.Name) and t.id == 'lendian':
            x, y = _str_const(node.body, fn, local), _str_const(node.orelse, fn, local)
            if x is None or y is None:
                raise TranslatorError('unexpected format expression in %s: %s' % (fn.__name__, ast.dump(node)))
            return (y, x) if neg else (x, y)
    return None


def _add_constants(node, fn, local):
    """Sum of the integer constants of a `+` chain (`4 + len(var) + 1` -> 5); None if there is none."""
    if isinstance(node, ast.BinOp) and isinstance(node.op, ast.Add):
        a, b = _add_constants(node.left, fn, local), _add_constants(node.right, fn, local)
        if a is None and b is None:
            return None
        return (a or 0) + (b or 0)
    return _int_const(node, fn, local)


def _formats(fn):
    """([(little, big)] for every format selected by `lendian` in the function, in source order;
    the constant of a `return N, ...` (fixed-size functions) or None;
    the sum of the integer constants of `return <a + b + ...>, ...` (framing overhead) or None)."""
    src = textwrap.dedent(inspect.getsource(fn))
    tree = ast.parse(src).body[0]
    if not isinstance(tree, ast.FunctionDef):
        raise TranslatorError('not a plain function: %s' % fn.__name__)
    local = {}
    for node in ast.walk(tree):           # simple local constants: `size = 4`, `fmt_le = '<I'`
        if isinstance(node, ast.Assign) and len(node.targets) == 1 and isinstance(node.targets[0], ast.Name) \
                and isinstance(node.value, ast.Constant) and type(node.value.value) in (int, str):
            name = node.targets[0].id
            local[name] = None if name in local else node.value.value     # assigned twice: not a constant
    found = []
    for node in ast.walk(tree):
        pair = _format_pair(node, fn, local)
        if pair is not None:
            found.append((node.lineno, node.col_offset) + pair)
        elif isinstance(node, ast.Call) and isinstance(node.func, ast.Attribute) and node.func.attr in (
                'pack', 'unpack', 'unpack_from', 'pack_into') and isinstance(node.func.value, ast.Name) \
                and node.func.value.id == 'struct':
            a0 = node.args[0] if node.args else None
            if a0 is None or _format_pair(a0, fn, local) is None:
                raise TranslatorError('struct call in %s whose format is not selected by `lendian`: %s'
                                      % (fn.__name__, ast.dump(node)))
    found.sort()
    fmts = [(le, be) for _, _, le, be in found]
    size = frame = None
    body = [s for s in tree.body if not (isinstance(s, ast.Expr) and isinstance(s.value, ast.Constant))]
    rets = [s for s in ast.walk(tree) if isinstance(s, ast.Return)]
    if body and isinstance(body[-1], ast.Return) and isinstance(body[-1].value, ast.Tuple) and len(rets) == 1:
        first = body[-1].value.elts[0]
        size = _int_const(first, fn, local)
        if size is None:
            frame = _add_constants(first, fn, local)
    return fmts, size, frame


def emit(repo):
    from txdbus import marshal as m
    out = []
    out.append('/- GENERATED by tools/tables/wire_tables.py from txdbus/marshal.py - do not edit. -/')
    out.append('namespace Txdbus.Gen.Wire')
    out.append('')
    # ---- alignment table
    rows = []
    seen = set()
    for row in m.dbus_types:
        if not (isinstance(row, tuple) and len(row) == 3):
            raise TranslatorError('dbus_types row of unexpected shape: %r' % (row,))
        name, code, align = row
        if type(align) is not int or align < 0:
            raise TranslatorError('alignment is not a natural number: %r' % (row,))
        if code in seen:
            raise TranslatorError('duplicate type code in dbus_types: %r' % (code,))
        seen.add(code)
        rows.append((name, code, align))
    out.append('/-- `dbus_types`: (type code, alignment), in source order. -/')
    out.append('def alignTable : List (Char × Nat) :=')
    out.append('  [' + ',\n   '.join('(%s, %d)  /- %s -/' % (_chr(c), a, n) for n, c, a in rows) + ']')
    out.append('')
    # ---- pad / padding
    want = set(c for _, c, _ in rows)
    if not want <= set(m.pad.keys()):
        raise TranslatorError('`pad` lacks a type code of dbus_types: %r' % (sorted(want - set(m.pad.keys())),))
    padding = getattr(m, 'padding', None)
    if padding is None:
        # no lookup table any more (padding computed): no pad length can raise a KeyError
        out.append('/-- No `padding` table in the source: pads are computed, none is refused. -/')
        out.append('def maxPad : Nat := 1000000')
    else:
        keys = sorted(padding.keys())
        if keys != list(range(len(keys))) or any(padding[k] != b'\0' * k for k in keys) or not keys:
            raise TranslatorError('`padding` is not {k: k NUL bytes for k in 0..n}: %r' % (padding,))
        out.append('/-- `padding`: keys 0..maxPad, key k ↦ k NUL bytes (a larger pad is a KeyError). -/')
        out.append('def maxPad : Nat := %d' % keys[-1])
    out.append('')
    # ---- dispatch tables
    fns = {}
    for table in (m.marshallers, m.unmarshallers):
        for code in table:
            fn = table[code]
            if not inspect.isfunction(fn):
                raise TranslatorError('dispatch table entry %r is not a plain function' % (code,))
            fns[fn.__name__] = fn
    out.append('/-- The functions the two dispatch tables refer to (by `__name__`). -/')
    out.append('inductive Fn where')
    for name in sorted(fns):
        out.append('  | ' + _ident(name)[1:])
    out.append('  deriving DecidableEq, Repr')
    out.append('')
    for tname, table in (('marshallers', m.marshallers), ('unmarshallers', m.unmarshallers)):
        items = []
        for code in sorted(table.keys()):
            fn = table[code]
            if not inspect.isfunction(fn):
                raise TranslatorError('%s[%r] is not a plain function' % (tname, code))
            items.append((code, fn.__name__))
            fns[fn.__name__] = fn
        out.append('/-- `%s`: type code ↦ name of the function, sorted by code. -/' % tname)
        out.append('def %s : List (Char × Fn) :=' % tname)
        out.append('  [' + ',\n   '.join('(%s, %s)' % (_chr(c), _ident(n)) for c, n in items) + ']')
        out.append('')
    # ---- struct formats and fixed sizes
    fm, fs, fr = [], [], []
    for name in sorted(fns):
        fmts, size, frame = _formats(fns[name])
        if fmts:
            fm.append((name, fmts))
        if size is not None:
            fs.append((name, size))
        if frame is not None:
            fr.append((name, frame))
    out.append('/-- Every `lendian and L or B` format pair of each function, in source order. -/')
    out.append('def formats : List (Fn × List ((Char × Char) × (Char × Char))) :=')
    out.append('  [' + ',\n   '.join('(%s, [%s])' % (_ident(n), ', '.join('(%s, %s)' % (_fmt(a), _fmt(b)) for a, b in f))
                                     for n, f in fm) + ']')
    out.append('')
    out.append('/-- The constant byte count returned by the fixed-size functions (`return N, ...`). -/')
    out.append('def fixedSize : List (Fn × Nat) :=')
    out.append('  [' + ',\n   '.join('(%s, %d)' % (_ident(n), s) for n, s in fs) + ']')
    out.append('')
    out.append('/-- Framing overhead: the sum of the integer constants of the byte count a variable-size function returns')
    out.append("(`4 + len(var) + 1` ↦ 5, `2 + len(var)` ↦ 2, `4 + len(initial_padding) + data_len` ↦ 4, `1 + slen + 1` ↦ 2). -/")
    out.append('def frameConst : List (Fn × Nat) :=')
    out.append('  [' + ',\n   '.join('(%s, %d)' % (_ident(n), s) for n, s in fr) + ']')
    out.append('')
    out.append('end Txdbus.Gen.Wire')
    out.append('')
    return '\n'.join(out)
