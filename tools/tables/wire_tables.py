"""Translator for C01 / C02: the tables of the wire codec in txdbus/marshal.py.

Runtime objects:
  * `dbus_types`                 -> `alignTable : List (Char × Nat)` (type code, alignment), in source order
  * `marshallers`/`unmarshallers`-> `inductive Fn` + `marshallers`/`unmarshallers : List (Char × Fn)`: type code and the
                                    `__name__` of the function it dispatches to (`marshal_dictionary` is the
                                    object `marshal_struct`), sorted by code
  * `padding`                    -> `maxPad`: the keys must be exactly 0..maxPad, the value of key k must be k NULs
  * `pad`                        -> its keys must be the type codes of `dbus_types` plus 'header'

The per-function entries (`formats`, `fixedSize`, `frameConst`) are derived by PROBING the real functions of the
dispatch tables (the translator of record: it does not depend on how the functions are written - literal
formats, precompiled `struct.Struct` objects, factories, delegation to another codec):
  * fixed-size (un)marshallers: the function is run on boundary values in both byte orders and compared with
    `struct.pack` / `struct.unpack_from` for every candidate format letter (B H I Q h i q d); exactly the
    letters that reproduce bytes, values and `struct.error`s on ALL probes remain, the canonical one is
    recorded (unsigned before signed when the probes cannot tell them apart: BOOLEAN only ever packs 0 / 1,
    UNIX_FD an index); the size is the byte count the function reports (must equal the bytes produced);
  * string / signature / array functions: the width and byte order of the length prefix (the letter whose
    `struct.pack` of the length equals the prefix produced / accepted) and the framing overhead
    `nbytes - len(payload)`, constant over the probes.
The AST route below is kept as a CROSS-CHECK: where the syntactic shape is recognised its result must agree
with the probes (disagreement = TranslatorError); where it is not recognised an entry is added to `ADVISORIES`
(the pipeline then widens the correspondence streams) and the probed value stands.

From the AST of every function named in the two dispatch tables (restricted shapes):
  * every format selected by `lendian` (`lendian and L or B`, `L if lendian else B`, with literals or names bound
    to string constants)                                      -> `formats`: function name ↦ [(little, big)] in source order
  * for the functions ending in `return N, ...` (N a literal or a name bound to an int constant)
                                                              -> `fixedSize`: function name ↦ N
  * for the functions ending in `return <a + b + ...>, ...`   -> `frameConst`: function name ↦ sum of the int constants
"""
import ast
import inspect
import textwrap

MODULE = 'TxdbusModel.Gen.Wire'
ADVISORIES = []


class TranslatorError(Exception):
    pass


def _chr(c):
    if len(c) != 1 or not (32 < ord(c) < 127) or c in "'\\":
        raise TranslatorError('type code outside printable ASCII: %r' % (c,))
    return "'%s'" % c


def _ident(s):
    if not isinstance(s, str) or not s.isidentifier() or not s.isascii():
        raise TranslatorError('function name is not a plain identifier: %r' % (s,))
    return '.' + s


def _fmt(s):
    """A two-character struct format: byte-order mark and type letter -> Lean `(Char × Char)`."""
    if not isinstance(s, str) or len(s) != 2:
        raise TranslatorError('struct format is not <byte order><letter>: %r' % (s,))
    return '(%s, %s)' % (_chr(s[0]), _chr(s[1]))


def _str_const(node, fn, local):
    """A string known at translation time: a literal, or a name bound to a string literal in the function
    or to a module-level string of txdbus.marshal."""
    if isinstance(node, ast.Constant) and isinstance(node.value, str):
        return node.value
    if isinstance(node, ast.Name):
        if node.id in local and isinstance(local[node.id], str):
            return local[node.id]
        v = fn.__globals__.get(node.id)
        if isinstance(v, str):
            return v
    return None


def _int_const(node, fn, local):
    if isinstance(node, ast.Constant) and type(node.value) is int:
        return node.value
    if isinstance(node, ast.Name):
        if node.id in local and type(local[node.id]) is int:
            return local[node.id]
        v = fn.__globals__.get(node.id)
        if type(v) is int:
            return v
    return None


def _format_pair(node, fn, local):
    """(little, big) if `node` selects a struct format by `lendian`:
    `lendian and L or B`  |  `L if lendian else B`  |  `B if not lendian else L`."""
    if isinstance(node, ast.BoolOp) and isinstance(node.op, ast.Or) and len(node.values) == 2:
        left, right = node.values
        if (isinstance(left, ast.BoolOp) and isinstance(left.op, ast.And) and len(left.values) == 2
                and isinstance(left.values[0], ast.Name) and left.values[0].id == 'lendian'):
            le, be = _str_const(left.values[1], fn, local), _str_const(right, fn, local)
            if le is None or be is None:
                raise TranslatorError('unexpected format expression in %s: %s' % (fn.__name__, ast.dump(node)))
            return le, be
    if isinstance(node, ast.IfExp):
        t = node.test
        neg = False
        if isinstance(t, ast.UnaryOp) and isinstance(t.op, ast.Not):
            t, neg = t.operand, True
        if isinstance(t, ast.Name) and t.id == 'lendian':
            x, y = _str_const(node.body, fn, local), _str_const(node.orelse, fn, local)
            if x is None or y is None:
                raise TranslatorError('unexpected format expression in %s: %s' % (fn.__name__, ast.dump(node)))
            return (y, x) if neg else (x, y)
    return None


def _add_constants(node, fn, local):
    """Sum of the integer constants of a `+` chain (`4 + len(var) + 1` -> 5); None if there is none."""
    if isinstance(node, ast.BinOp) and isinstance(node.op, ast.Add):
        a, b = _add_constants(node.left, fn, local), _add_constants(node.right, fn, local)
        if a is None and b is None:
            return None
        return (a or 0) + (b or 0)
    return _int_const(node, fn, local)


def _formats(fn):
    """([(little, big)] for every format selected by `lendian` in the function, in source order;
    the constant of a `return N, ...` (fixed-size functions) or None;
    the sum of the integer constants of `return <a + b + ...>, ...` (framing overhead) or None)."""
    src = textwrap.dedent(inspect.getsource(fn))
    tree = ast.parse(src).body[0]
    if not isinstance(tree, ast.FunctionDef):
        raise TranslatorError('not a plain function: %s' % fn.__name__)
    local = {}
    for node in ast.walk(tree):           # simple local constants: `size = 4`, `fmt_le = '<I'`
        if isinstance(node, ast.Assign) and len(node.targets) == 1 and isinstance(node.targets[0], ast.Name) \
                and isinstance(node.value, ast.Constant) and type(node.value.value) in (int, str):
            name = node.targets[0].id
            local[name] = None if name in local else node.value.value     # assigned twice: not a constant
    found = []
    for node in ast.walk(tree):
        pair = _format_pair(node, fn, local)
        if pair is not None:
            found.append((node.lineno, node.col_offset) + pair)
        elif isinstance(node, ast.Call) and isinstance(node.func, ast.Attribute) and node.func.attr in (
                'pack', 'unpack', 'unpack_from', 'pack_into') and isinstance(node.func.value, ast.Name) \
                and node.func.value.id == 'struct':
            a0 = node.args[0] if node.args else None
            if a0 is None or _format_pair(a0, fn, local) is None:
                raise TranslatorError('struct call in %s whose format is not selected by `lendian`: %s'
                                      % (fn.__name__, ast.dump(node)))
    found.sort()
    fmts = [(le, be) for _, _, le, be in found]
    size = frame = None
    body = [s for s in tree.body if not (isinstance(s, ast.Expr) and isinstance(s.value, ast.Constant))]
    rets = [s for s in ast.walk(tree) if isinstance(s, ast.Return)]
    if body and isinstance(body[-1], ast.Return) and isinstance(body[-1].value, ast.Tuple) and len(rets) == 1:
        first = body[-1].value.elts[0]
        size = _int_const(first, fn, local)
        if size is None:
            frame = _add_constants(first, fn, local)
    return fmts, size, frame


# ------------------------------------------------------------------------------------------ probing
import struct as _struct

_LETTERS = 'BHIQhiqd'               # preference order when the probes cannot tell two letters apart
_INT_PROBES = [0, 1, 2, 127, 128, 255, 256, 32767, 32768, 65535, 65536, 2 ** 31 - 1, 2 ** 31, 2 ** 32 - 1, 2 ** 32,
               2 ** 63 - 1, 2 ** 63, 2 ** 64 - 1, 2 ** 64, -1, -128, -129, -32768, -32769, -2 ** 31, -2 ** 31 - 1,
               -2 ** 63, -2 ** 63 - 1]
_FLOAT_PROBES = [0.0, -0.0, 1.5, -2.25, 1e300, float('inf'), 3.0]
_PATTERNS = [bytes(range(1, 9)), b'\0' * 8, b'\xff' * 8, b'\x80' + b'\0' * 7, b'\0' * 7 + b'\x80', b'\x01' + b'\0' * 7,
             b'\0' * 7 + b'\x01', bytes([0x3f, 0xf8, 0, 0, 0, 0, 0, 0]), bytes([0, 0, 0, 0, 0, 0, 0xf8, 0x3f]),
             bytes([5, 0, 0, 0, 0, 0, 0, 0]), bytes([0, 0, 0, 5, 0, 0, 0, 0]), bytes([0, 5, 0, 0, 0, 0, 0, 0])]


def _join(chunks):
    return b''.join(bytes(c) for c in chunks)


def _probe_fixed_marshal(fn, code):
    """(letter, size) of a fixed-size marshaller, by running it."""
    def run(v, le):
        oob = None
        arg = v
        if code == 'h':
            oob, arg = list(range(v)), 'fd'
        try:
            n, chunks = fn(code, arg, 0, le, oob)
            return ('ok', n, _join(chunks))
        except _struct.error:
            return ('struct.error',)
    if code == 'b':
        probes = [(False, 0), (True, 1), (0, 0), (5, 1), ('', 0), ('x', 1)]
    elif code == 'h':
        probes = [(k, k) for k in (0, 1, 2, 5, 300)]
    elif code == 'd':
        probes = [(v, v) for v in _FLOAT_PROBES]
    else:
        probes = [(v, v) for v in _INT_PROBES]
    results = {(i, le): run(arg, le) for i, (arg, _) in enumerate(probes) for le in (True, False)}
    sizes = set(r[1] for r in results.values() if r[0] == 'ok')
    if len(sizes) != 1:
        raise TranslatorError('%s reports no constant byte count: %r' % (fn.__name__, sorted(sizes)))
    size = sizes.pop()
    ok = []
    for L in _LETTERS:
        good = True
        for i, (_, packed) in enumerate(probes):
            for le in (True, False):
                try:
                    want = ('ok', _struct.calcsize('<' + L), _struct.pack(('<' if le else '>') + L, packed))
                except _struct.error:
                    want = ('struct.error',)
                if results[(i, le)] != want:
                    good = False
        if good:
            ok.append(L)
    if not ok:
        raise TranslatorError('%s does not behave like struct.pack with any of the formats %s' % (fn.__name__, _LETTERS))
    return ok, size


def _probe_fixed_unmarshal(fn, code):
    oob = list(range(100, 400))

    def post(raw):
        if code == 'b':
            return raw != 0
        if code == 'h':
            if isinstance(raw, float):
                return ('not-an-index', raw)
            return oob[raw] if 0 <= raw < len(oob) else None
        return raw
    results = {}
    for i, pat in enumerate(_PATTERNS):
        for le in (True, False):
            try:
                n, v = fn(code, b'\xee\xee\xee' + pat + b'\xdd', 3, le, oob)
                results[(i, le)] = ('ok', n, _struct.pack('>d', v) if isinstance(v, float) else v, type(v).__name__)
            except _struct.error:
                results[(i, le)] = ('struct.error',)
    sizes = set(r[1] for r in results.values() if r[0] == 'ok')
    if len(sizes) != 1:
        raise TranslatorError('%s reports no constant byte count: %r' % (fn.__name__, sorted(sizes)))
    size = sizes.pop()
    ok = []
    for L in _LETTERS:
        good = True
        for i, pat in enumerate(_PATTERNS):
            for le in (True, False):
                raw = _struct.unpack_from(('<' if le else '>') + L, pat, 0)[0]
                v = post(raw)
                want = ('ok', _struct.calcsize('<' + L), _struct.pack('>d', v) if isinstance(v, float) else v,
                        type(v).__name__)
                if results[(i, le)] != want:
                    good = False
        if good:
            ok.append(L)
    if not ok:
        raise TranslatorError('%s does not behave like struct.unpack_from with any of the formats %s'
                              % (fn.__name__, _LETTERS))
    # reading past the end must be a struct.error
    try:
        fn(code, b'\0' * (size - 1), 0, True, oob)
        raise TranslatorError('%s reads %d bytes from a %d-byte buffer without struct.error' % (fn.__name__, size, size - 1))
    except _struct.error:
        pass
    return ok, size


def _prefix_letter(pairs, name):
    """The unsigned letters L with struct.pack(order + L, length) == prefix for all (prefix, length, le)."""
    ok = [L for L in 'BHIQ'
          if all(len(p) == _struct.calcsize('<' + L) and _struct.pack(('<' if le else '>') + L, n) == p
                 for p, n, le in pairs)]
    if not ok:
        raise TranslatorError('%s: the length prefix is not a B/H/I/Q integer in the requested byte order' % name)
    return ok


def _probe_text_marshal(fn, code):
    """(letters, frame) of marshal_string / marshal_signature: prefix width+order, nbytes - len(payload)."""
    values = {'s': ['', 'a', 'abc', 'h\u00e9', 'x' * 70, 'y' * 200], 'g': ['', 'i', 'a{sv}', 'i' * 70, 'u' * 200]}[code]
    pairs, frames = [], set()
    for v in values:
        body = v.encode('utf-8')
        for le in (True, False):
            n, chunks = fn(code, v, 0, le, None)
            b = _join(chunks)
            if not b.endswith(body + b'\0') or n != len(b):
                raise TranslatorError('%s(%r): not <prefix><payload><NUL> with the reported byte count' % (fn.__name__, v))
            pairs.append((b[:len(b) - len(body) - 1], len(body), le))
            frames.add(n - len(body))
    if len(frames) != 1:
        raise TranslatorError('%s: framing overhead not constant: %r' % (fn.__name__, sorted(frames)))
    return _prefix_letter(pairs, fn.__name__), frames.pop()


def _probe_text_unmarshal(fn, code):
    values = {'s': ['', 'a', 'abc', 'h\u00e9', 'x' * 70, 'y' * 200], 'g': ['', 'i', 'a{sv}', 'i' * 70, 'u' * 200]}[code]
    ok, frames = [], set()
    for L in 'BHIQ':
        good = True
        fr = set()
        for v in values:
            body = v.encode('utf-8')
            for le in (True, False):
                data = b'\xee' * 4 + _struct.pack(('<' if le else '>') + L, len(body)) + body + b'\0\xdd'
                try:
                    n, got = fn(code, data, 4, le, None)
                except Exception:       # noqa: BLE001 - a wrong candidate letter makes the function misread
                    good = False
                    continue
                if got != v:
                    good = False
                fr.add(n - len(body))
        if good and len(fr) == 1:
            ok.append(L)
            frames |= fr
    if not ok or len(frames) != 1:
        raise TranslatorError('%s: no B/H/I/Q length prefix in the requested byte order decodes the probes' % fn.__name__)
    return ok, frames.pop()


def _probe_array_marshal(fn):
    pairs, frames = [], set()
    for items in ([], [7], [1, 2, 3], list(range(40))):
        for le in (True, False):
            n, chunks = fn('ay', items, 0, le, None)
            b = _join(chunks)
            if not b.endswith(bytes(items)) or n != len(b):
                raise TranslatorError('marshal_array("ay", %r): unexpected layout' % (items,))
            pairs.append((b[:len(b) - len(items)], len(items), le))
            frames.add(n - len(items))
    if len(frames) != 1:
        raise TranslatorError('marshal_array: framing overhead not constant: %r' % (sorted(frames),))
    return _prefix_letter(pairs, fn.__name__), frames.pop()


def _probe_array_unmarshal(fn):
    ok = []
    for L in 'BHIQ':
        good = True
        for items in ([], [7], [1, 2, 3], list(range(40))):
            for le in (True, False):
                data = b'\xee' * 4 + _struct.pack(('<' if le else '>') + L, len(items)) + bytes(items) + b'\xdd'
                try:
                    n, got = fn('ay', data, 4, le, None)
                except Exception:       # noqa: BLE001
                    good = False
                    continue
                if got != items or n != _struct.calcsize('<' + L) + len(items):
                    good = False
        if good:
            ok.append(L)
    if not ok:
        raise TranslatorError('unmarshal_array: no B/H/I/Q length prefix in the requested byte order decodes the probes')
    return ok


_FIXED_CODES = 'ybnqiuxtdh'
_KIND = {'y': 'byte', 'b': 'boolean', 'n': 'int16', 'q': 'uint16', 'i': 'int32', 'u': 'uint32', 'x': 'int64',
         't': 'uint64', 'd': 'double', 's': 'string', 'o': 'object_path', 'g': 'signature', 'a': 'array',
         '(': 'struct', 'v': 'variant', '{': 'struct', 'h': 'unix_fd'}


def _canon(tname, code):
    """The label under which the hand-written model keeps the body of the function serving `code`."""
    kind = _KIND.get(code)
    if kind is None:
        return None
    if tname == 'unmarshallers' and kind == 'object_path':
        kind = 'string'                  # one decoder for 's' and 'o'
    return ('marshal_' if tname == 'marshallers' else 'unmarshal_') + kind


_ALL_CANON = set(_canon(t, c) for t in ('marshallers', 'unmarshallers') for c in _KIND)


def _class_probe(tname, code, fn):
    """A renamed function is only accepted under the canonical label of its type code if it behaves as that
    kind of function (the fixed-size / string / signature / array kinds are probed in full by `_probe`)."""
    from txdbus.error import MarshallingError
    try:
        if tname == 'marshallers':
            if code == 'o':
                ok = _join(fn('o', '/a', 0, True, None)[1]) == b'\x02\0\0\0/a\0'
                for bad in ('a', '/a/', '//'):
                    try:
                        fn('o', bad, 0, True, None)
                        ok = False
                    except MarshallingError:
                        pass
                return ok
            if code in '({':
                return _join(fn(code + 'yy' + {'(': ')', '{': '}'}[code], [5, 6], 0, True, None)[1]) == b'\x05\x06'
            if code == 'v':
                return _join(fn('v', 5, 0, True, None)[1]) == b'\x01i\0\0\x05\0\0\0'
        else:
            if code in '({':
                return fn(code + 'yy' + {'(': ')', '{': '}'}[code], b'\x05\x06', 0, True, None) == (2, [5, 6])
            if code == 'v':
                return fn('v', b'\x01i\0\0\x05\0\0\0', 0, True, None) == (8, 5)
    except Exception:      # noqa: BLE001
        return False
    return True


def _fn_name(tname, code, fn):
    """`__name__` when it is one of the names the model knows (so that a type code wired to the WRONG known
    function shows up in the dispatch table); a function under any other name is labelled by the kind of its
    type code after probing that it behaves as that kind (renaming a helper is representation)."""
    name = getattr(fn, '__name__', None)
    canon = _canon(tname, code)
    if name in _ALL_CANON or canon is None:
        if not isinstance(name, str):
            raise TranslatorError('%s[%r] has no usable name' % (tname, code))
        return name
    if not _class_probe(tname, code, fn):
        raise TranslatorError('%s[%r] (%r) does not behave like %s' % (tname, code, name, canon))
    note = '%s[%r] is named %r: treated as %s after probing its behaviour' % (tname, code, name, canon)
    if note not in ADVISORIES:
        ADVISORIES.append(note)
    return canon


def _probe(table_name, code, fn):
    """{'letters': [...], 'size': N or None, 'frame': N or None} for the function behind `code`, or None
    for the functions without table entries (struct, variant, object path)."""
    marsh = table_name == 'marshallers'
    if code in _FIXED_CODES:
        letters, size = (_probe_fixed_marshal if marsh else _probe_fixed_unmarshal)(fn, code)
        return {'letters': letters, 'size': size, 'frame': None}
    if code in 'sg':
        letters, frame = (_probe_text_marshal if marsh else _probe_text_unmarshal)(fn, code)
        return {'letters': letters, 'size': None, 'frame': frame}
    if code == 'a':
        if marsh:
            letters, frame = _probe_array_marshal(fn)
            return {'letters': letters, 'size': None, 'frame': frame}
        return {'letters': _probe_array_unmarshal(fn), 'size': None, 'frame': None}
    return None


def _reconcile(name, probed, astres):
    """Combine the probed entry with the AST reading of the same function (cross-check)."""
    letter = probed['letters'][0]
    if astres is None:
        return letter
    fmts, size, frame = astres
    if fmts:
        le, be = fmts[0]
        if not (len(le) == 2 and len(be) == 2 and le[0] == '<' and be[0] == '>' and le[1] == be[1]
                and le[1] in probed['letters']):
            raise TranslatorError('%s: the format read from the source %r disagrees with its behaviour (%s)'
                                  % (name, fmts[0], '/'.join(probed['letters'])))
    if size is not None and probed['size'] is not None and size != probed['size']:
        raise TranslatorError('%s: `return %d, ...` in the source but %d bytes reported when run' % (name, size, probed['size']))
    if frame is not None and probed['frame'] is not None and frame != probed['frame']:
        raise TranslatorError('%s: framing constants %d in the source but overhead %d when run' % (name, frame, probed['frame']))
    return letter


def emit(repo):
    del ADVISORIES[:]
    from txdbus import marshal as m
    out = []
    out.append('/- GENERATED by tools/tables/wire_tables.py from txdbus/marshal.py - do not edit. -/')
    out.append('namespace Txdbus.Gen.Wire')
    out.append('')
    # ---- alignment table
    rows = []
    seen = set()
    for row in m.dbus_types:
        if not (isinstance(row, tuple) and len(row) == 3):
            raise TranslatorError('dbus_types row of unexpected shape: %r' % (row,))
        name, code, align = row
        if type(align) is not int or align < 0:
            raise TranslatorError('alignment is not a natural number: %r' % (row,))
        if code in seen:
            raise TranslatorError('duplicate type code in dbus_types: %r' % (code,))
        seen.add(code)
        rows.append((name, code, align))
    # cross-check by probing: the padding function of every code behaves as the alignment its row declares
    for name, code, align in rows:
        try:
            got = [len(m.pad[code](o)) for o in range(64)]
        except Exception as e:      # noqa: BLE001
            raise TranslatorError('pad[%r] cannot be run on offsets 0..63: %r' % (code, e))
        if align == 0 or got != [(align - o % align) % align for o in range(64)]:
            raise TranslatorError('pad[%r] does not pad to the alignment %d that dbus_types declares: %r'
                                  % (code, align, got[:17]))
    out.append('/-- `dbus_types`: (type code, alignment), in source order. -/')
    out.append('def alignTable : List (Char × Nat) :=')
    out.append('  [' + ',\n   '.join('(%s, %d)  /- %s -/' % (_chr(c), a, n) for n, c, a in rows) + ']')
    out.append('')
    # ---- pad / padding
    want = set(c for _, c, _ in rows)
    if not want <= set(m.pad.keys()):
        raise TranslatorError('`pad` lacks a type code of dbus_types: %r' % (sorted(want - set(m.pad.keys())),))
    padding = getattr(m, 'padding', None)
    if padding is None:
        # no lookup table any more (padding computed): no pad length can raise a KeyError
        out.append('/-- No `padding` table in the source: pads are computed, none is refused. -/')
        out.append('def maxPad : Nat := 1000000')
    else:
        keys = sorted(padding.keys())
        if keys != list(range(len(keys))) or any(padding[k] != b'\0' * k for k in keys) or not keys:
            raise TranslatorError('`padding` is not {k: k NUL bytes for k in 0..n}: %r' % (padding,))
        out.append('/-- `padding`: keys 0..maxPad, key k ↦ k NUL bytes (a larger pad is a KeyError). -/')
        out.append('def maxPad : Nat := %d' % keys[-1])
    out.append('')
    # ---- dispatch tables
    fns = {}
    for tname, table in (('marshallers', m.marshallers), ('unmarshallers', m.unmarshallers)):
        for code in table:
            fn = table[code]
            if not callable(fn):
                raise TranslatorError('dispatch table entry %r is not callable' % (code,))
            fns[_fn_name(tname, code, fn)] = fn
    for name in _ALL_CANON:          # the labels the model matches on always exist
        fns.setdefault(name, None)
    out.append('/-- The functions the two dispatch tables refer to (by `__name__`). -/')
    out.append('inductive Fn where')
    for name in sorted(fns):
        out.append('  | ' + _ident(name)[1:])
    out.append('  deriving DecidableEq, Repr')
    out.append('')
    for tname, table in (('marshallers', m.marshallers), ('unmarshallers', m.unmarshallers)):
        items = []
        for code in sorted(table.keys()):
            fn = table[code]
            items.append((code, _fn_name(tname, code, fn)))
        out.append('/-- `%s`: type code ↦ name of the function, sorted by code. -/' % tname)
        out.append('def %s : List (Char × Fn) :=' % tname)
        out.append('  [' + ',\n   '.join('(%s, %s)' % (_chr(c), _ident(n)) for c, n in items) + ']')
        out.append('')
    # ---- struct formats and fixed sizes
    fm, fs, fr = [], [], []
    by_name = {}
    for tname, table in (('marshallers', m.marshallers), ('unmarshallers', m.unmarshallers)):
        for code in sorted(table.keys()):
            fn = table[code]
            name = _fn_name(tname, code, fn)
            if code == 'o' and tname == 'marshallers':
                continue                    # marshal_object_path: no entry (delegates to the string marshaller)
            probed = _probe(tname, 's' if code == 'o' else code, fn)
            if probed is None:
                continue
            try:
                astres = _formats(fn)
                if not astres[0] and astres[1] is None and astres[2] is None:
                    astres = None
            except (TranslatorError, OSError, TypeError, SyntaxError, IndexError) as e:
                astres = None
                ADVISORIES.append('%s: source shape not recognised (%s); formats/sizes taken from probing the function'
                                  % (name, str(e)[:120]))
            if astres is None and not any(a.startswith(name + ':') for a in ADVISORIES):
                ADVISORIES.append('%s: no struct format / size found in its source; entries taken from probing the function'
                                  % name)
            letter = _reconcile(name, probed, astres)
            entry = (letter, probed['size'], probed['frame'])
            if name in by_name and by_name[name] != entry:
                raise TranslatorError('%s serves several type codes with different layouts: %r / %r'
                                      % (name, by_name[name], entry))
            by_name[name] = entry
    for name in sorted(by_name):
        letter, size, frame = by_name[name]
        fm.append((name, [('<' + letter, '>' + letter)]))
        if size is not None:
            fs.append((name, size))
        if frame is not None:
            fr.append((name, frame))
    out.append('/-- The struct format (little, big) of each function: value format of the fixed-size ones, length prefix of the others. -/')
    out.append('def formats : List (Fn × List ((Char × Char) × (Char × Char))) :=')
    out.append('  [' + ',\n   '.join('(%s, [%s])' % (_ident(n), ', '.join('(%s, %s)' % (_fmt(a), _fmt(b)) for a, b in f))
                                     for n, f in fm) + ']')
    out.append('')
    out.append('/-- The constant byte count returned by the fixed-size functions (`return N, ...`). -/')
    out.append('def fixedSize : List (Fn × Nat) :=')
    out.append('  [' + ',\n   '.join('(%s, %d)' % (_ident(n), s) for n, s in fs) + ']')
    out.append('')
    out.append('/-- Framing overhead: the sum of the integer constants of the byte count a variable-size function returns')
    out.append("(`4 + len(var) + 1` ↦ 5, `2 + len(var)` ↦ 2, `4 + len(initial_padding) + data_len` ↦ 4, `1 + slen + 1` ↦ 2). -/")
    out.append('def frameConst : List (Fn × Nat) :=')
    out.append('  [' + ',\n   '.join('(%s, %d)' % (_ident(n), s) for n, s in fr) + ']')
    out.append('')
    out.append('end Txdbus.Gen.Wire')
    out.append('')
    return '\n'.join(out)
