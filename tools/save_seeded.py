#!/venv/bin/python
"""Owner tool: file a confirmed seeded change under seeded/<ID>/ (patch.diff, demo.py, meta.json).
usage: tools/save_seeded.py <ID> <patch> <demo> <agent-meta.json> <try_seeded-result.json>"""
import json, os, shutil, sys
sid, patch, demo, ameta, res = sys.argv[1:6]
d = os.path.join('/verif/seeded', sid)
os.makedirs(d, exist_ok=True)
shutil.copy(patch, os.path.join(d, 'patch.diff'))
shutil.copy(demo, os.path.join(d, 'demo.py'))
am = json.load(open(ameta)) if os.path.exists(ameta) else {}
r = json.load(open(res))
meta = {
    'id': sid,
    'property': am.get('property', sid[:3]),
    'summary': am.get('summary'),
    'needs_to_manifest': am.get('needs_to_manifest'),
    'files': am.get('files'),
    'author': 'independent sub-agent given only the property text and a scratch worktree',
    'confirmed_by_owner': {
        'how': 'tools/try_seeded.py: fresh worktree of /repo HEAD; demo on unchanged tree; patch applied; unedited suite; demo on changed tree; checks run from an isolated copy of /verif with TXDBUS_REPO=<worktree>',
        'repo_head': os.popen('git -C /repo log --format=%h -1').read().strip(),
        'demo_unchanged_rc': r.get('demo_unchanged_rc'), 'demo_unchanged': r.get('demo_unchanged_tail'),
        'suite_with_change': r.get('suite'), 'demo_changed_rc': r.get('demo_changed_rc'), 'demo_changed': r.get('demo_changed_tail'),
    },
    'checks': {p: {'exit': c['rc'], 'verdict': c['verdict'], 'failing_inputs': c['detail']} for p, c in r.get('checks', {}).items()},
}
json.dump(meta, open(os.path.join(d, 'meta.json'), 'w'), indent=1)
print('saved', d)
