#!/venv/bin/python
"""Write MANIFEST.json from the harness modules that exist (harness/cXX.py with a non-stub
Properties/CXX.lean).  Properties without a built check are listed under not_applicable with the
reason 'check not built yet' (temporary state during construction)."""
import importlib
import json
import os
import re
import sys

HERE = os.path.dirname(os.path.abspath(__file__))
VERIF = os.path.dirname(HERE)
sys.path.insert(0, VERIF)

props = [json.loads(l) for l in open(os.path.join(VERIF, 'properties.jsonl'))]
checks, na = [], []
for p in props:
    pid = p['id']
    low = pid.lower()
    hpath = os.path.join(VERIF, 'harness', low + '.py')
    ppath = os.path.join(VERIF, 'lean', 'TxdbusModel', 'Properties', pid + '.lean')
    has_thm = os.path.exists(ppath) and re.search(r'^\s*theorem\s', open(ppath).read(), re.M)
    if not (os.path.exists(hpath) and has_thm):
        na.append({'property_id': pid, 'reason': 'check not built yet (construction in progress; see DESIGN.md section 5 for the planned Lean model and theorems)'})
        continue
    h = importlib.import_module('harness.' + low)
    thms = re.findall(r'^\s*theorem\s+([A-Za-z0-9_.\']+)', open(ppath).read(), re.M)
    thms = sorted(thms, key=lambda t: (t.startswith('table') or t.startswith('tables') or t.startswith('prefix') or t.startswith('orig') or '_table' in t, ))
    partial = [t for t in thms if 'partial' in t]
    streams = list(getattr(h, 'STREAMS', []))
    default_text = ('Machine-checked proof in Lean 4: %d theorems in lean/TxdbusModel/Properties/%s.lean (%s%s) about an executable '
                    'model of the anchored code, for all inputs / histories / schedules the property quantifies over. The model is tied to the '
                    'current source on every run by tables regenerated from /repo (tools/tables) and by %d correspondence streams that run the '
                    'compiled model driver and the real txdbus on the same generated cases (%s); a property oracle written from the statement is '
                    'evaluated on the implementation alone for every case and yields the concrete failing input. A broken theorem, table or '
                    'stream without a failing input is reported as no-failing-input-found.'
                    % (len(thms), pid, ', '.join(thms[:6]) + (', ...' if len(thms) > 6 else ''),
                       ('; partial: ' + ', '.join(partial)) if partial else '; none partial',
                       len(streams), ', '.join(streams[:5]) + (', ...' if len(streams) > 5 else '')))
    tb = list(getattr(h, 'TRUSTED_BASE', []))
    asm = list(getattr(h, 'ASSUMPTIONS', []))
    default_note = ('Trusted: Lean 4.33 kernel; axioms limited to propext, Classical.choice, Quot.sound (audited per run); the spec definitions '
                    '(transcribed from the DBus specification / property text); the translators and the correspondence harness (differential testing: '
                    'generators bound what it sees). Modelled, not verified: ' + ('; '.join(tb) if tb else 'CPython / Twisted runtime semantics mirrored by the model')
                    + ('. Assumes: ' + '; '.join(asm) if asm else '') + '. Details: notes/%s.md.' % pid)
    checks.append({
        'property_id': pid,
        'quick_cmd': '/venv/bin/python check.py %s --tier quick' % pid,
        'thorough_cmd': '/venv/bin/python check.py %s --tier thorough' % pid,
        'evidence_file': 'evidence/%s.json' % pid,
        'replay_cmd_template': '/venv/bin/python check.py %s --replay {path}' % pid,
        'engine': 'lean4-proof+correspondence',
        'level_claimed': {
            'category': 'proof',
            'text': getattr(h, 'LEVEL_TEXT', default_text),
            'design_ref': 'DESIGN.md section 5, ' + pid,
        },
        'level_note': getattr(h, 'LEVEL_NOTE', default_note)[:3000],
        'technique': getattr(h, 'TECHNIQUE', 'Lean 4 machine-checked proof over a hand model + generated tables; correspondence (differential) check model vs real code; failing-input search on the real code'),
    })

man = {
    'version': 1,
    'setup_cmd': 'bash tools/setup.sh',
    'hooks': {
        'guard': 'TXDBUS_VERIF',
        'enable': 'no source hooks are needed: the harness substitutes the reactor, wraps dispatch tables and installs fake transports from outside (check.py sets TXDBUS_VERIF=1 for uniformity; nothing in /repo reads it)',
        'baseline_off_cmd': 'cd /repo && /venv/bin/python -m pytest -ra -q -p no:cacheprovider --timeout=900 --continue-on-collection-errors',
        'source_commits': [],
        'add_only': True,
    },
    'engines': [{
        'name': 'lean4-proof+correspondence',
        'path': 'check.py',
        'serves_properties': [c['property_id'] for c in checks],
        'kind_free_text': 'Lean 4 theorems (lean/TxdbusModel/Properties/Cxx.lean) about executable models; tables regenerated from /repo (tools/tables); correspondence check of the compiled model drivers (lean/Driver) against the real txdbus in-process (harness/); verdict in vlib/pipeline.py',
    }],
    'checks': checks,
    'not_applicable': na,
    'notes': 'Repairs of genuine defects are unguarded "fix:" commits in /repo, recorded in known_findings.json (status fixed). See DESIGN.md.',
}
with open(os.path.join(VERIF, 'MANIFEST.json'), 'w') as f:
    json.dump(man, f, indent=1)
    f.write('\n')
print('checks:', [c['property_id'] for c in checks])
print('not yet:', [n['property_id'] for n in na])
