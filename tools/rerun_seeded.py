#!/venv/bin/python
"""Owner tool: run a filed seeded change again (after a check was strengthened) and update its meta.json:
the previous verdict moves to `checks_first_run` (kept if already present), `checks` is replaced.
usage: tools/rerun_seeded.py <ID> [<ID> ...]"""
import json, os, subprocess, sys
for sid in sys.argv[1:]:
    d = os.path.join('/verif/seeded', sid)
    r = subprocess.run(['/venv/bin/python', '/verif/tools/try_seeded.py', sid, os.path.join(d, 'patch.diff'),
                        os.path.join(d, 'demo.py')], capture_output=True)
    out = r.stdout.decode()
    res = json.loads(out[out.index('{'):])
    meta = json.load(open(os.path.join(d, 'meta.json')))
    new = {p: {'exit': c['rc'], 'verdict': c['verdict'], 'failing_inputs': c['detail']} for p, c in res.get('checks', {}).items()}
    if not new:
        print(sid, 'NOT RUN', res)
        continue
    if 'checks_first_run' not in meta:
        meta['checks_first_run'] = meta['checks']
        meta['note'] = 'first run missed or saw only a disagreement; check strengthened, run again'
    meta['checks'] = new
    meta['repo_head_last_run'] = os.popen('git -C /repo log --format=%h -1').read().strip()
    json.dump(meta, open(os.path.join(d, 'meta.json'), 'w'), indent=1)
    for p, c in new.items():
        print(sid, p, 'exit', c['exit'], [f.get('key') for f in c['failing_inputs'] if f.get('kind') == 'failing-input'],
              'suite:', res.get('suite'), 'demo', res.get('demo_unchanged_rc'), res.get('demo_changed_rc'))
