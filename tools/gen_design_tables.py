#!/venv/bin/python
"""Owner tool: print the markdown tables of DESIGN.md sections 13 (findings) and 14 (seeded changes)
from known_findings.json and seeded/*/meta.json."""
import glob, json, os
kf = json.load(open('/verif/known_findings.json'))['findings']
print('| property | key | status | commit | what failed |')
print('|---|---|---|---|---|')
for e in sorted(kf, key=lambda e: (e['property'], e.get('commit', ''))):
    what = e['what']
    pre = 'fixed: property=%s %s ' % (e['property'], e.get('commit', ''))
    if what.startswith(pre):
        what = what[len(pre):]
    print('| %s | `%s` | %s | %s | %s |' % (e['property'], e['key'], e['status'], e.get('commit', ''), what.replace('|', '\\|')))
print()
print('| id | property | what the change does / what it needs to manifest | caught by | how |')
print('|---|---|---|---|---|')
for d in sorted(glob.glob('/verif/seeded/*/meta.json')):
    m = json.load(open(d))
    summ = (m.get('summary') or '').replace('\n', ' ').replace('|', '\\|')
    need = (m.get('needs_to_manifest') or '').replace('\n', ' ').replace('|', '\\|')
    if len(summ) > 260: summ = summ[:257] + '...'
    if len(need) > 200: need = need[:197] + '...'
    for p, c in m['checks'].items():
        keys = [f['key'] for f in c['failing_inputs'] if f.get('kind') == 'failing-input']
        how = ('failing input: ' + ', '.join('`%s`' % k for k in keys[:4])) if keys else ('no-failing-input-found (broken: %s)' % ', '.join(sum([f.get('broken', []) for f in c['failing_inputs']], [])[:2]) if c['exit'] else 'MISSED')
        first = ''
        if m.get('checks_first_run'):
            first = ' (first run missed; check strengthened)'
        print('| %s | %s | %s **Needs:** %s | check %s, exit %s | %s%s |' % (m['id'], m['property'], summ, need, p, c['exit'], how, first))
