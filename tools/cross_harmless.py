#!/venv/bin/python
"""Owner tool: run every filed harmless patch against the quick checks of the OTHER properties anchored in the files
the patch touches (a refactoring of marshal.py written for C01 must not alarm C02, C03, C05, C17, C18, C19, C20 either).
Results go to harmless/<id>/meta.json under `cross_checks`.
usage: tools/cross_harmless.py [-j 6] [--only C01h2,C10h2] [--props C03,C05]"""
import glob, json, os, re, subprocess, sys
from concurrent.futures import ThreadPoolExecutor
V = '/verif'
args = sys.argv[1:]
j = int(args[args.index('-j') + 1]) if '-j' in args else 6
only = args[args.index('--only') + 1].split(',') if '--only' in args else None
fprops = args[args.index('--props') + 1].split(',') if '--props' in args else None
anch = {}
for l in open(os.path.join(V, 'properties.jsonl')):
    r = json.loads(l)
    anch[r['id']] = set(re.sub(r':.*', '', f) for f in r['anchors']['files'])
jobs = []
for d in sorted(glob.glob(os.path.join(V, 'harmless/*'))):
    sid = os.path.basename(d)
    if only and sid not in only:
        continue
    own = re.match(r'(C\d+)', sid).group(1)
    touched = set(re.findall(r'^\+\+\+ b/(\S+)', open(os.path.join(d, 'patch.diff')).read(), re.M))
    props = sorted(p for p, fs in anch.items() if p != own and fs & touched)
    if fprops:
        props = [p for p in props if p in fprops]
    if props:
        jobs.append((sid, d, props))


def run(job):
    sid, d, props = job
    r = subprocess.run(['/venv/bin/python', os.path.join(V, 'tools/try_harmless.py'), sid, os.path.join(d, 'patch.diff'),
                        '--props', ','.join(props)], capture_output=True)
    out = r.stdout.decode()
    try:
        res = json.loads(out[out.index('{'):])
    except Exception:
        return sid, None, out[-300:] + r.stderr.decode()[-300:]
    return sid, res, None


with ThreadPoolExecutor(j) as ex:
    for sid, res, err in ex.map(run, jobs):
        if res is None:
            print(sid, 'TOOL ERROR', err)
            continue
        mp = os.path.join(V, 'harmless', sid, 'meta.json')
        meta = json.load(open(mp))
        cc = meta.get('cross_checks', {})
        for p, c in res.get('checks', {}).items():
            prev = cc.get(p)
            cc[p] = {'exit': c['rc'], 'verdict': c['verdict'], 'violations': c['violations'], 'detail': c['detail']}
            if prev and prev.get('verdict') != 'quiet' and 'first_run' not in cc[p]:
                cc[p]['first_run'] = {k: prev[k] for k in ('exit', 'verdict', 'violations', 'detail') if k in prev}
            elif prev and 'first_run' in prev:
                cc[p]['first_run'] = prev['first_run']
            tag = c['verdict']
            extra = ''
            if tag != 'quiet':
                extra = '; '.join('%s %s %s' % (x.get('kind'), x.get('key'), [b[0] for b in x.get('broken', [])]) for x in c['detail'])[:300]
                if not extra:
                    extra = ' | '.join(c.get('tail', []))[-300:]
            print(sid, p, tag, extra)
        meta['cross_checks'] = cc
        json.dump(meta, open(mp, 'w'), indent=1)
