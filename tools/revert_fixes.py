#!/venv/bin/python
"""Owner tool: a `fixed` entry of known_findings.json must suppress nothing.  For every repair commit in /repo, revert it
alone in a scratch worktree of HEAD (`git revert --no-commit`; skipped when it no longer reverts cleanly because later
repairs build on it), run the quick check of each property that lists a `fixed` key for that commit (isolated copy of
/verif, TXDBUS_REPO=<worktree>) and see whether the violation comes back under one of those keys.
usage: tools/revert_fixes.py [-j 4] [--only <commit>,<commit>]      results: notes/revert_fixes.json"""
import json, os, re, shutil, subprocess, sys
from concurrent.futures import ThreadPoolExecutor
V = '/verif'
args = sys.argv[1:]
j = int(args[args.index('-j') + 1]) if '-j' in args else 4
only = args[args.index('--only') + 1].split(',') if '--only' in args else None
kf = json.load(open(os.path.join(V, 'known_findings.json')))['findings']
by_commit = {}
for e in kf:
    if e['status'] == 'fixed' and e.get('commit'):
        by_commit.setdefault(e['commit'][:7], []).append(e)
commits = subprocess.run(['git', '-C', '/repo', 'log', '--reverse', '--format=%h %s', '4c62642..HEAD'],
                         capture_output=True).stdout.decode().strip().split('\n')


def sh(cmd, cwd=None, env=None, timeout=3600):
    p = subprocess.run(cmd, cwd=cwd, env=env, stdout=subprocess.PIPE, stderr=subprocess.STDOUT, timeout=timeout)
    return p.returncode, p.stdout.decode('utf-8', 'replace')


def run(line):
    h, subj = line.split(' ', 1)
    h7 = h[:7]
    ents = by_commit.get(h7, [])
    res = {'commit': h7, 'subject': subj, 'listed_keys': [(e['property'], e['key']) for e in ents]}
    if not ents:
        res['verdict'] = 'no fixed entry lists this commit'
        return res
    wt = '/tmp/revtest-%s-%d' % (h7, os.getpid())
    vcopy = '/tmp/verif-rev-%s-%d' % (h7, os.getpid())
    subprocess.run(['git', '-C', '/repo', 'worktree', 'remove', '--force', wt], capture_output=True)
    rc, out = sh(['git', '-C', '/repo', 'worktree', 'add', '--detach', wt, 'HEAD'])
    try:
        rc, out = sh(['git', 'revert', '--no-commit', h], cwd=wt)
        if rc != 0:
            res['verdict'] = 'does not revert cleanly (later repairs build on it)'
            return res
        rc, out = sh(['bash', '-c', '/venv/bin/python -m pytest -q -p no:cacheprovider 2>&1 | tail -1'], cwd=wt)
        res['suite_with_revert'] = out.strip()
        sh(['rsync', '-a', '--exclude', '.git', '--exclude', 'replays', V + '/', vcopy + '/'])
        res['checks'] = {}
        allback = True
        for p in sorted({e['property'] for e in ents}):
            env = dict(os.environ, TXDBUS_REPO=wt, VERIF_SEED='0')
            rc, out = sh(['/venv/bin/python', 'check.py', p, '--tier', 'quick'], cwd=vcopy, env=env, timeout=7200)
            keys = []
            for m in re.finditer(r'^VIOLATION .*replay=(\S+)', out, re.M):
                f = os.path.join(vcopy, m.group(1))
                if os.path.exists(f):
                    d = json.load(open(f))
                    if d.get('kind') == 'failing-input':
                        keys.append(d.get('key'))
            want = [e['key'] for e in ents if e['property'] == p]
            back = sorted(set(want) & set(keys))
            res['checks'][p] = {'exit': rc, 'violation_keys': keys, 'listed': want, 'returned_under_listed_key': back}
            if not back:
                allback = False
        res['verdict'] = 'violation returns under the listed key' if allback else (
            'violation reported, other key' if all(c['violation_keys'] for c in res['checks'].values()) else 'NOT REPORTED')
        return res
    finally:
        subprocess.run(['git', '-C', '/repo', 'worktree', 'remove', '--force', wt], capture_output=True)
        shutil.rmtree(vcopy, ignore_errors=True)


todo = [c for c in commits if not only or c.split(' ')[0][:7] in only]
out = []
with ThreadPoolExecutor(j) as ex:
    for r in ex.map(run, todo):
        out.append(r)
        print(r['commit'], r['verdict'], '|', r['subject'][:70], '|',
              {p: (c['returned_under_listed_key'] or c['violation_keys'][:3]) for p, c in r.get('checks', {}).items()})
        sys.stdout.flush()
prev = []
fn = os.path.join(V, 'notes', 'revert_fixes.json')
if only and os.path.exists(fn):
    prev = [r for r in json.load(open(fn)) if r['commit'] not in {x['commit'] for x in out}]
json.dump(prev + out, open(fn, 'w'), indent=1)
