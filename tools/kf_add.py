#!/venv/bin/python
"""Owner tool: append a `fixed` (or `known`) entry to known_findings.json.
usage: tools/kf_add.py fixed C18 key commit "what failed"   |   tools/kf_add.py known C10 key - "what fails"
"""
import json, sys
status, prop, key, commit, what = sys.argv[1:6]
p = '/verif/known_findings.json'
d = json.load(open(p))
for e in d['findings']:
    if e['property'] == prop and e['key'] == key:
        print('exists', prop, key); sys.exit(0)
e = {'status': status, 'property': prop, 'key': key}
if commit != '-':
    e['commit'] = commit
if status == 'fixed':
    e['what'] = 'fixed: property=%s %s %s' % (prop, commit, what)
else:
    e['what'] = what
d['findings'].append(e)
s = json.dumps(d, indent=1)
# one entry per line for readability
out = ['{', ' "_comment": %s,' % json.dumps(d['_comment']), ' "findings": [']
out += ['  ' + json.dumps(x) + (',' if i < len(d['findings']) - 1 else '') for i, x in enumerate(d['findings'])]
out += [' ]', '}']
open(p, 'w').write('\n'.join(out) + '\n')
print('added', prop, key)
