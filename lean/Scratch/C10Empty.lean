import TxdbusModel.Proofs.Obj.DispatchLookup

namespace Txdbus.Obj.DispatchProofs
open Txdbus.Obj.Dispatch Txdbus.Obj.DispatchSpec

/-- interface names of the decorated functions of a class, in class-body order (with repetitions) -/
def decoIfaces (attrs : List (Str × Func)) : List Str := attrs.filterMap fun a => a.2.deco.map (·.1)

def lastDecorated (attrs : List (Str × Func)) (i m : Str) : Option Str :=
  (attrs.reverse.find? fun a => a.2.deco = some (i, m)).map (·.1)

def decoratedAnyIn (attrs : List (Str × Func)) (member : Str) : Option Str :=
  (decoIfaces attrs).findSome? fun i => lastDecorated attrs i member

def keysOf {α : Type} (d : List (Str × α)) : List Str := d.map (·.1)

theorem dictGet_isSome_iff {α : Type} (d : List (Str × α)) (k : Str) : (dictGet d k).isSome = true ↔ k ∈ keysOf d := by
  induction d with
  | nil => simp [dictGet, keysOf]
  | cons e t ih =>
    obtain ⟨k', v⟩ := e
    by_cases h : k' = k
    · simp [dictGet, keysOf, h]
    · have : ¬ (k = k') := fun hh => h hh.symm
      simp only [dictGet, h, if_false, ih, keysOf, List.map_cons, List.mem_cons, this, false_or]

theorem keysOf_dictSet {α : Type} (d : List (Str × α)) (k : Str) (v : α) :
    keysOf (dictSet d k v) = if k ∈ keysOf d then keysOf d else keysOf d ++ [k] := by
  induction d with
  | nil => simp [dictSet, keysOf]
  | cons e t ih =>
    obtain ⟨k', v'⟩ := e
    by_cases h : k' = k
    · subst h; simp [dictSet, keysOf]
    · have hk : ¬ (k = k') := fun hh => h hh.symm
      simp only [dictSet, h, if_false, keysOf, List.map_cons, List.mem_cons, hk, false_or] at ih ⊢
      rw [ih]
      by_cases hm : k ∈ List.map (fun x => x.fst) t <;> simp [hm]

theorem keysOf_cacheAdd (cache : Cache) (i m a : Str) :
    keysOf (cacheAdd cache i m a) = if i ∈ keysOf cache then keysOf cache else keysOf cache ++ [i] := by
  unfold cacheAdd
  cases h : dictGet cache i <;> simp [keysOf_dictSet]

theorem findSome?_congr_mem {α β : Type} (l : List α) (f g : α → Option β) (h : ∀ a ∈ l, f a = g a) :
    l.findSome? f = l.findSome? g := by
  induction l with
  | nil => rfl
  | cons a t ih =>
    simp only [List.findSome?_cons, h a List.mem_cons_self]
    rw [ih (fun x hx => h x (List.mem_cons_of_mem _ hx))]

/-- scanning the entries of a dict with distinct keys = scanning its keys and looking each up -/
theorem firstSome_entries {α β : Type} (d : List (Str × α)) (f : α → Option β) (hn : (keysOf d).Nodup) :
    firstSome (fun e => f e.2) d = (keysOf d).findSome? fun k => (dictGet d k).bind f := by
  induction d with
  | nil => rfl
  | cons e t ih =>
    obtain ⟨k, v⟩ := e
    have hn' : (keysOf t).Nodup := (List.nodup_cons.mp hn).2
    have hk : k ∉ keysOf t := (List.nodup_cons.mp hn).1
    simp only [firstSome, keysOf, List.map_cons, List.findSome?_cons, dictGet, if_true, Option.bind_some]
    cases hf : f v with
    | some b => rfl
    | none =>
      simp only
      rw [ih hn']
      apply findSome?_congr_mem
      intro k' hk'
      have : k ≠ k' := fun hh => hk (hh ▸ hk')
      simp [dictGet, this]

theorem nodup_keysOf_cacheAdd (cache : Cache) (i m a : Str) (h : (keysOf cache).Nodup) :
    (keysOf (cacheAdd cache i m a)).Nodup := by
  rw [keysOf_cacheAdd]
  split
  · exact h
  · rename_i hni
    rw [List.nodup_append]
    refine ⟨h, by simp, ?_⟩
    intro x hx y hy
    simp at hy
    subst hy
    intro hxy; subst hxy; exact hni hx

/-- the invariant of the cache-building fold, relative to the class attributes processed so far -/
structure CacheInv (cache : Cache) (pre : List (Str × Func)) : Prop where
  nodup : (keysOf cache).Nodup
  scan : ∀ {β : Type} (g : Str → Option β), (keysOf cache).findSome? g = (decoIfaces pre).findSome? g

theorem decoIfaces_snoc (pre : List (Str × Func)) (a : Str × Func) :
    decoIfaces (pre ++ [a]) = decoIfaces pre ++ (match a.2.deco with | some (i, _) => [i] | none => []) := by
  unfold decoIfaces
  rw [List.filterMap_append]
  cases h : a.2.deco with
  | none => simp [h]
  | some im => obtain ⟨i, m⟩ := im; simp [h]

theorem cacheInv_step (cache : Cache) (pre : List (Str × Func)) (a : Str × Func) (h : CacheInv cache pre) :
    CacheInv (cacheStep cache a) (pre ++ [a]) := by
  unfold cacheStep
  cases hd : a.2.deco with
  | none =>
    refine ⟨h.nodup, ?_⟩
    intro β g
    rw [decoIfaces_snoc, hd]; simpa using h.scan g
  | some im =>
    obtain ⟨i, m⟩ := im
    simp only
    refine ⟨nodup_keysOf_cacheAdd cache i m a.1 h.nodup, ?_⟩
    intro β g
    rw [decoIfaces_snoc, hd, keysOf_cacheAdd, List.findSome?_append]
    by_cases hi : i ∈ keysOf cache
    · rw [if_pos hi, h.scan g]
      cases hs : (decoIfaces pre).findSome? g with
      | some b => rfl
      | none =>
        have := h.scan g
        rw [hs, List.findSome?_eq_none_iff] at this
        simp [this i hi]
    · rw [if_neg hi, List.findSome?_append, h.scan g]

theorem cacheInv_foldl (t : List (Str × Func)) (cache : Cache) (pre : List (Str × Func)) (h : CacheInv cache pre) :
    CacheInv (t.foldl cacheStep cache) (pre ++ t) := by
  induction t generalizing cache pre with
  | nil => simpa using h
  | cons a t ih =>
    have := ih (cacheStep cache a) (pre ++ [a]) (cacheInv_step cache pre a h)
    simpa using this

theorem cacheInv_nil : CacheInv [] [] := ⟨by simp [keysOf], by intro β g; rfl⟩

/-- `_searchCache('', 'methods', key)` on one class. -/
theorem searchAny_cacheOfClass (c : Class) (key : Str) :
    firstSome (fun ic => dictGet ic.2 key) (cacheOfClass c) = decoratedAnyIn c.attrs key := by
  have inv := cacheInv_foldl c.attrs [] [] cacheInv_nil
  simp only [List.nil_append] at inv
  unfold cacheOfClass decoratedAnyIn
  rw [firstSome_entries _ (fun ms => dictGet ms key) inv.nodup]
  have : (fun k => (dictGet (List.foldl cacheStep [] c.attrs) k).bind fun ms => dictGet ms key) =
      fun k => lastDecorated c.attrs k key := by
    funext k
    have := lookup2_cacheOfClass c k key
    unfold lookup2 cacheOfClass at this
    unfold lastDecorated
    rw [← this]
    cases dictGet (List.foldl cacheStep [] c.attrs) k <;> rfl
  rw [this]
  exact inv.scan _

end Txdbus.Obj.DispatchProofs
