import Driver.Common
