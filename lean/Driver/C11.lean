import Driver.Common
import TxdbusModel.Net.Compose
import TxdbusModel.Net.GetProxy
import TxdbusModel.Net.Bytes
/-!
Line-protocol driver of the C11 network model (`TxdbusModel/Net/Compose.lean`).

Values (`V`) are opaque tokens (the harness sends the hex of a canonical text of the wire-normalised
value); strings travel as `Driver.charsToHex` tokens ("-" = empty); `~` is None.

Scenario header (each answers `ok`):
  reset <n> <firstSerial_0> … <firstSerial_{n-1}>
  export <j> <path> <c> { <hasIfaces 0|1> [<k> {iface}^k] <a> { <attr> <id> <decoIface|~> <decoMember|~> }^a }^c
        the object's class chain in __mro__ order; iface = <ifname> <m> { <name> <sigIn> <sigOut> <nargs> <nret> }^m;
        attrs = the functions of the class __dict__ (id = number of the Python function)
  intro <j> <path> <V>                      World.introspect j path = some V
  managed <j> <path> <V>                    World.managed j path = ok V
  managederr <j> <path> <dbusName|~> <cls> <text>     World.managed j path = error exc
  unenc <sig> <n> <V>^n <dbusName|~> <cls> <text>      World.encErr sig body = some exc
  badname <name>                            World.validErrorName name = false
Steps:
  call <c> proxy <dest> <path> <k> {iface…}^k <kw|~> <member> <n> <V>^n
  call <c> raw <dest> <path> <iface|~> <member> <sig> <n> <V>^n
        -> sent <serial> | attributeError | typeError | encodeError | noSuchClient
  toBus <c>                                 -> idle | fwd <d> <msg> | drop <msg>
  toClient <c> <beh>                        -> idle | recv <msg> <effects…>
        beh = deferred | obj <V> | seq <self> <n> <V>^n | raised <dbusName|~> <cls> <text>
  resolve <c> <tok> <result>                -> idle | <effects…>          (result = beh without `deferred`)
  expire <c> <serial>                       -> idle | done(<serial>,timeout)      (the deadline of a pending call passes)
  quiescent                                 -> yes | no
  serial <c> <n>                            -> ok        (harness stream `net-shared`, clients = connections of ONE process drawing
                                                          serials from one counter: client <c>'s next message gets serial <n>)
Byte level (Net/Bytes.lean: `bstep`, `flush`, `busHandle`, `cliHandleAll`, `BNet.init`, `drain`, `pick`).  The codec is a
TABLE filled by the harness with the bytes the real peers wrote: `enc m` = the newest entry under the text `showMsg m`
(empty when there is none), `dec raw` = the first message serialised so far (`BNet.sent`) that the table maps to `raw`
(two clients may write messages with the same text - colliding serials - and different bytes: destination by unique or
by well-known name; as model messages they are equal).
  hreset <n> <firstSerial_0> …              -> ok        (`BNet.initH` with every link binary; then, before any step:)
  hs up|down <c> <hex>                      -> ok        (that receiver in LINE mode, these handshake bytes in front of its wire)
  breset <n> <firstSerial_0> …              -> ok        (from now on `call`, `resolve`, `expire`, `quiescent` act on the
                                                          byte-level state; `quiescent` answers `yes` only if `pick` agrees)
  codec <msg text> <hex bytes>              -> ok
  fire <c> <tok> <result>                   -> ok        (what the Deferred `tok` of client `c` fires with under `drain`)
  readBus <c> <k>                           -> read <#messages completed> wire=<bytes left on the wire> {fwd <d> <msg>}* {drop <msg>}*
  readClient <c> <k> <beh> { ; <beh> }*     -> read <#messages completed> wire=<…> <effects of the whole read…>
  drain <fuel>                              -> drained {B<c>:<k> | C<c>:<k> | R<c>:<tok>}* q=<yes|no>
  logs <c>                                  -> inv(…)* done(…)*   (everything client `c` has logged so far; either level)
Stateless:
  getproxy <nk> {iface}^nk <none | one | many <k>> { inst {iface} | name <name> }^(1|k)
        the caller's knownInterfaces (as far as the argument names them) and the `interfaces=` argument of
        getRemoteObject                      -> introspect <required names…> | built {<name>:<I|K>}*  (I: the instance given,
                                                K: the definition known under the requested name)
Effects, in this order: inv(<sender>,<serial>,<path>,<iface>,<member>,[args],<impl id>) exec(<tok>) sent(<msg>)
done(<serial>,<outcome>).  Outcomes print as the harness sees them: `val,<token>` where the token of
`callback(body)` (a Python list) is the valcodec list token `L_<n>_<elems>` and `callback(None)` is `N`.
-/
open Txdbus.Net

namespace Driver.C11

abbrev V := String

structure St where
  net : Net V
  exports : List (Nat × ExpObj)
  intro : List (Nat × String × V)
  managed : List (Nat × String × Except Exc V)
  unenc : List (String × List V × Exc)
  badnames : List String
  bnet : Option (BNet V Unit) := none
  table : List (String × Txdbus.Proto.Bytes) := []
  fire : List (Nat × Nat × Result V) := []

def St.world (s : St) : World V :=
  { exports := fun j => (s.exports.filter (fun e => e.1 == j)).map (·.2),
    introspect := fun j p => (s.intro.find? (fun e => e.1 == j && e.2.1 == p)).map (·.2.2),
    managed := fun j p => ((s.managed.find? (fun e => e.1 == j && e.2.1 == p)).map (·.2.2)).getD (.ok ""),
    encErr := fun sig body => (s.unenc.find? (fun e => e.1 == sig && e.2.1 == body)).map (·.2.2),
    validErrorName := fun n => !(s.badnames.contains n) }

def St.init : St :=
  { net := Net.init 0 (fun _ => 1), exports := [], intro := [], managed := [], unenc := [], badnames := [] }

/-! ### token parsers -/

def str? (t : String) : Option String := (Driver.hexToChars? t).map String.ofList
def optStr? (t : String) : Option (Option String) := if t == "~" then some none else (str? t).map some
def nat? (t : String) : Option Nat := t.toNat?

def takeN {α : Type} (f : List String → Option (α × List String)) : Nat → List String → Option (List α × List String)
  | 0, ts => some ([], ts)
  | k + 1, ts => do
    let (a, ts) ← f ts
    let (as, ts) ← takeN f k ts
    pure (a :: as, ts)

def pVal : List String → Option (V × List String)
  | t :: ts => some (t, ts)
  | [] => none

def pVals : List String → Option (List V × List String)
  | t :: ts => do
    let n ← nat? t
    takeN pVal n ts
  | [] => none

def pMethod : List String → Option (MethodDecl × List String)
  | a :: b :: c :: d :: e :: ts => do
    pure ({ name := ← str? a, sigIn := ← str? b, sigOut := ← str? c, nargs := ← nat? d, nret := ← nat? e }, ts)
  | _ => none

def pIface : List String → Option (Iface × List String)
  | a :: m :: ts => do
    let (ms, ts) ← takeN pMethod (← nat? m) ts
    pure ({ name := ← str? a, methods := ms }, ts)
  | _ => none

def pIfaces : List String → Option (List Iface × List String)
  | k :: ts => do takeN pIface (← nat? k) ts
  | [] => none

def pAttr : List String → Option ((String × Func) × List String)
  | a :: i :: di :: dm :: ts => do
    let deco ← match optStr? di, optStr? dm with
      | some (some x), some (some y) => some (some (x, y))
      | some none, some none => some none
      | _, _ => none
    pure ((← str? a, { id := ← nat? i, deco := deco }), ts)
  | _ => none

def pClass : List String → Option (Class × List String)
  | "1" :: ts => do
    let (is, ts) ← pIfaces ts
    match ts with
    | a :: ts => do
      let (attrs, ts) ← takeN pAttr (← nat? a) ts
      pure ({ ifaces := some is, attrs := attrs }, ts)
    | [] => none
  | "0" :: a :: ts => do
    let (attrs, ts) ← takeN pAttr (← nat? a) ts
    pure ({ ifaces := none, attrs := attrs }, ts)
  | _ => none

def pClasses : List String → Option (List Class × List String)
  | c :: ts => do takeN pClass (← nat? c) ts
  | [] => none

def pExc : List String → Option (Exc × List String)
  | a :: b :: c :: ts => do pure ({ dbusName := ← optStr? a, cls := ← str? b, text := ← str? c }, ts)
  | _ => none

def pResult : List String → Option (Result V × List String)
  | "obj" :: v :: ts => some (.value (.obj v), ts)
  | "seq" :: self :: ts => do
    let (vs, ts) ← pVals ts
    pure (.value (.seq self vs), ts)
  | "raised" :: ts => do
    let (e, ts) ← pExc ts
    pure (.raised e, ts)
  | _ => none

def pBeh : List String → Option (Behaviour V × List String)
  | "deferred" :: ts => some (.deferred, ts)
  | ts => do
    let (r, ts) ← pResult ts
    pure (.now r, ts)

/-! ### printers -/

def hs (s : String) : String := Driver.charsToHex s.toList
def ho (o : Option String) : String := match o with | none => "~" | some s => hs s
def no (o : Option Nat) : String := match o with | none => "~" | some n => toString n
def vals (vs : List V) : String := "[" ++ ",".intercalate vs ++ "]"

def showReply : Reply V → String
  | .ret sig body => "ret," ++ hs sig ++ "," ++ vals body
  | .err name text => "err," ++ hs name ++ "," ++ hs text

def showMsg : Msg V → String
  | .call serial sender dest path iface member sig args =>
    "call(" ++ toString serial ++ "," ++ no sender ++ "," ++ no dest ++ "," ++ hs path ++ "," ++ ho iface ++ ","
      ++ hs member ++ "," ++ hs sig ++ "," ++ vals args ++ ")"
  | .reply serial rs sender dest c =>
    "reply(" ++ toString serial ++ "," ++ toString rs ++ "," ++ no sender ++ "," ++ no dest ++ "," ++ showReply c ++ ")"

def showOutcome : Outcome V → String
  | .none => "val,N"
  | .single v => "val," ++ v
  | .many vs => "val," ++ "_".intercalate ("L" :: toString vs.length :: vs)
  | .remoteError n t => "remoteError," ++ hs n ++ "," ++ hs t
  | .sigMismatch => "sigMismatch"
  | .timedOut => "timeout"

def showInv (i : Invocation V) : String :=
  "inv(" ++ no i.sender ++ "," ++ toString i.serial ++ "," ++ hs i.path ++ "," ++ hs i.iface ++ "," ++ hs i.member
    ++ "," ++ vals i.args ++ "," ++ toString i.impl ++ ")"

/-- What happened on client `c` between two states. -/
def effects (old new : Client V) : List String :=
  (new.invocations.drop old.invocations.length).map showInv
  ++ (new.exec.filter (fun e => old.nextTok ≤ e.tok)).map (fun e => "exec(" ++ toString e.tok ++ ")")
  ++ (new.up.drop old.up.length).map (fun m => "sent(" ++ showMsg m ++ ")")
  ++ (new.completions.drop old.completions.length).map
      (fun c => "done(" ++ toString c.1 ++ "," ++ showOutcome c.2 ++ ")")

def showIssue : IssueResult → String
  | .attributeError => "attributeError"
  | .typeError => "typeError"
  | .encodeError => "encodeError"
  | .sent s => "sent " ++ toString s
  | .noSuchClient => "noSuchClient"

def join (xs : List String) : String := " ".intercalate xs

def pIfaceArg : List String → Option (IfaceArg × List String)
  | "inst" :: ts => do
    let (i, ts) ← pIface ts
    pure (.inst i, ts)
  | "name" :: n :: ts => do pure (.name (← str? n), ts)
  | _ => none

def pIfacesParam : List String → Option (IfacesParam × List String)
  | "none" :: ts => some (.none, ts)
  | "one" :: ts => do
    let (a, ts) ← pIfaceArg ts
    pure (.one a, ts)
  | "many" :: k :: ts => do
    let (l, ts) ← takeN pIfaceArg (← nat? k) ts
    pure (.many l, ts)
  | _ => none

def showPlan : ProxyPlan → String
  | .introspect req => " ".intercalate ("introspect" :: req.map hs)
  | .built px => " ".intercalate ("built" :: px.ifaces.map (fun i => hs i.name))

/-! ### byte level -/

/-- the authenticator of the byte-level receivers: success at the line that ends txdbus's handshake (`BEGIN` at the bus,
`OK <guid>` at a client); only consulted in line mode (`hreset`) -/
def bAuth : Txdbus.Proto.Auth Unit :=
  ⟨fun a l => if l.take 5 == [66, 69, 71, 73, 78] || l.take 2 == [79, 75] then (a, .success) else (a, .cont)⟩

/-- the table codec (see the header) -/
def tableCodec (table : List (String × Txdbus.Proto.Bytes)) (sent : List (Msg V)) : WireCodec V :=
  let enc : Msg V → Txdbus.Proto.Bytes := fun m => ((table.find? (fun e => e.1 == showMsg m)).map (·.2)).getD []
  { enc := enc, dec := fun raw => sent.find? (fun m => table.any (fun e => e.1 == showMsg m && e.2 == raw)) }

def St.bstep (s : St) (b : BNet V Unit) (st : BStep V) : BNet V Unit :=
  Txdbus.Net.bstep (tableCodec s.table b.sent) bAuth s.world b st

def St.firePolicy (s : St) : Nat → Exec → Result V := fun c e =>
  ((s.fire.find? (fun x => x.1 == c && x.2.1 == e.tok)).map (·.2.2)).getD (.raised ⟨none, "", ""⟩)

/-- What happened on client `c` between two byte-level states (`sentNew`: what was serialised in between). -/
def effectsB (old new : Client V) (sentNew : List (Msg V)) : List String :=
  (new.invocations.drop old.invocations.length).map showInv
  ++ (new.exec.filter (fun e => old.nextTok ≤ e.tok)).map (fun e => "exec(" ++ toString e.tok ++ ")")
  ++ sentNew.map (fun m => "sent(" ++ showMsg m ++ ")")
  ++ (new.completions.drop old.completions.length).map
      (fun c => "done(" ++ toString c.1 ++ "," ++ showOutcome c.2 ++ ")")

def splitOnSemi : List String → List (List String)
  | [] => [[]]
  | ";" :: ts => [] :: splitOnSemi ts
  | t :: ts => match splitOnSemi ts with
    | [] => [[t]]
    | g :: gs => (t :: g) :: gs

def pBehs (ts : List String) : Option (List (Behaviour V)) :=
  if ts.isEmpty then some [] else
  (splitOnSemi ts).mapM (fun g => match pBeh g with | some (b, []) => some b | _ => none)

def showBStep : BStep V → String
  | .readBus c k => "B" ++ toString c ++ ":" ++ toString k
  | .readClient c k _ => "C" ++ toString c ++ ":" ++ toString k
  | .resolve c tok _ => "R" ++ toString c ++ ":" ++ toString tok
  | .call c _ => "call" ++ toString c
  | .expire c sr => "X" ++ toString c ++ ":" ++ toString sr

def bQuiescent (b : BNet V Unit) : Bool :=
  (List.range b.n).all (fun j => (b.upWire j).isEmpty && (b.downWire j).isEmpty && (b.busRx j).buffer.isEmpty &&
    (b.cliRx j).buffer.isEmpty && (b.cl j).exec.isEmpty)

def showLogs (cl : Client V) : String :=
  join (cl.invocations.map showInv ++
    cl.completions.map (fun c => "done(" ++ toString c.1 ++ "," ++ showOutcome c.2 ++ ")"))

/-! ### the step function -/

def bad (s : St) (why : String) : St × String := (s, "error " ++ why)

def doCall (s : St) (c : Nat) (req : CallReq V) : St × String :=
  match s.bnet with
  | some b =>
    if c < b.n then
      let r := (issue s.world (b.cl c) req).2
      ({ s with bnet := some (s.bstep b (.call c req)) }, showIssue r)
    else (s, showIssue .noSuchClient)
  | none =>
  if c < s.net.n then
    let r := (issue s.world (s.net.cl c) req).2
    ({ s with net := step s.world s.net (.call c req) }, showIssue r)
  else (s, showIssue .noSuchClient)

def handle (s : St) (line : String) : St × String :=
  match Driver.words line with
  | "reset" :: n :: ts =>
    match nat? n, ts.mapM nat? with
    | some n, some firsts =>
      ({ St.init with net := Net.init n (fun j => firsts.getD j 1) }, "ok")
    | _, _ => bad s "reset"
  | ["serial", c, n] =>
    match nat? c, nat? n with
    | some c, some n => ({ s with net := s.net.upd c (fun cl => { cl with nextSerial := n }) }, "ok")
    | _, _ => bad s "serial"
  | "breset" :: n :: ts =>
    match nat? n, ts.mapM nat? with
    | some n, some firsts =>
      ({ St.init with bnet := some (BNet.init n (fun j => firsts.getD j 1) ()) }, "ok")
    | _, _ => bad s "breset"
  | "hreset" :: n :: ts =>
    match nat? n, ts.mapM nat? with
    | some n, some firsts =>
      ({ St.init with bnet := some (BNet.initH n (fun j => firsts.getD j 1) (fun _ => ()) (fun _ => ()) (fun _ => [])
                                      (fun _ => [])) }, "ok")
    | _, _ => bad s "hreset"
  | ["hs", dir, c, hex] =>
    match nat? c, Driver.hexToBytes? hex, s.bnet with
    | some c, some bs, some b =>
      -- = `BNet.initH` with this handshake on this link: the bytes in front of the wire, the receiver in line mode
      if bs.isEmpty then (s, "ok")
      else if dir == "up" then
        ({ s with bnet := some { b with
            upWire := fun j => if j = c then bs ++ b.upWire c else b.upWire j,
            busRx := fun j => if j = c then { Txdbus.Proto.St.init false () with firstByte := false } else b.busRx j } }, "ok")
      else
        ({ s with bnet := some { b with
            downWire := fun j => if j = c then bs ++ b.downWire c else b.downWire j,
            cliRx := fun j => if j = c then Txdbus.Proto.St.init true () else b.cliRx j } }, "ok")
    | _, _, _ => bad s "hs"
  | ["codec", text, hex] =>
    match Driver.hexToBytes? hex with
    | some bs => ({ s with table := (text, bs) :: s.table }, "ok")
    | none => bad s "codec"
  | "fire" :: c :: tok :: ts =>
    match nat? c, nat? tok, pResult ts with
    | some c, some tok, some (res, []) => ({ s with fire := (c, tok, res) :: s.fire }, "ok")
    | _, _, _ => bad s "fire"
  | ["readBus", c, k] =>
    match nat? c, nat? k, s.bnet with
    | some c, some k, some b =>
      let b' := s.bstep b (.readBus c k)
      let nm := (rawMsgs (Txdbus.Proto.step bAuth (b.busRx c) ((b.upWire c).take k)).2).length
      let fwd := (b'.sent.drop b.sent.length).map (fun m => "fwd " ++ no m.dest ++ " " ++ showMsg m)
      let drp := (b'.dropped.drop b.dropped.length).map (fun m => "drop " ++ showMsg m)
      ({ s with bnet := some b' },
        join (["read", toString (if c < b.n then nm else 0), "wire=" ++ toString (b'.upWire c).length] ++ fwd ++ drp))
    | _, _, _ => bad s "readBus"
  | "readClient" :: c :: k :: ts =>
    match nat? c, nat? k, pBehs ts, s.bnet with
    | some c, some k, some behs, some b =>
      let b' := s.bstep b (.readClient c k behs)
      let nm := (rawMsgs (Txdbus.Proto.step bAuth (b.cliRx c) ((b.downWire c).take k)).2).length
      ({ s with bnet := some b' },
        join (["read", toString (if c < b.n then nm else 0), "wire=" ++ toString (b'.downWire c).length] ++
          effectsB (b.cl c) (b'.cl c) (b'.sent.drop b.sent.length)))
    | _, _, _, _ => bad s "readClient"
  | ["drain", fuel] =>
    match nat? fuel, s.bnet with
    | some fuel, some b =>
      -- the codec's `dec` must know what the schedule itself serialises: one step at a time
      let rec go (fuel : Nat) (b : BNet V Unit) (acc : List String) : BNet V Unit × List String :=
        match fuel with
        | 0 => (b, acc)
        | fuel + 1 =>
          match drain (tableCodec s.table b.sent) bAuth s.world s.firePolicy 1 b with
          | st :: _ => go fuel (s.bstep b st) (acc ++ [showBStep st])
          | [] => (b, acc)
      let (b', steps) := go fuel b []
      ({ s with bnet := some b' }, join (["drained"] ++ steps ++ ["q=" ++ (if bQuiescent b' then "yes" else "no")]))
    | _, _ => bad s "drain"
  | ["logs", c] =>
    match nat? c with
    | some c => (s, match s.bnet with | some b => showLogs (b.cl c) | none => showLogs (s.net.cl c))
    | none => bad s "logs"
  | "export" :: j :: p :: ts =>
    match nat? j, str? p, pClasses ts with
    | some j, some p, some (cs, []) => ({ s with exports := s.exports ++ [(j, { path := p, classes := cs })] }, "ok")
    | _, _, _ => bad s "export"
  | ["intro", j, p, v] =>
    match nat? j, str? p with
    | some j, some p => ({ s with intro := s.intro ++ [(j, p, v)] }, "ok")
    | _, _ => bad s "intro"
  | ["managed", j, p, v] =>
    match nat? j, str? p with
    | some j, some p => ({ s with managed := s.managed ++ [(j, p, .ok v)] }, "ok")
    | _, _ => bad s "managed"
  | "managederr" :: j :: p :: ts =>
    match nat? j, str? p, pExc ts with
    | some j, some p, some (e, []) => ({ s with managed := s.managed ++ [(j, p, .error e)] }, "ok")
    | _, _, _ => bad s "managederr"
  | "unenc" :: sig :: ts =>
    match str? sig, pVals ts with
    | some sig, some (body, ts) =>
      match pExc ts with
      | some (e, []) => ({ s with unenc := s.unenc ++ [(sig, body, e)] }, "ok")
      | _ => bad s "unenc exc"
    | _, _ => bad s "unenc"
  | ["badname", n] =>
    match str? n with
    | some n => ({ s with badnames := n :: s.badnames }, "ok")
    | none => bad s "badname"
  | "call" :: c :: "proxy" :: d :: p :: ts =>
    match nat? c, nat? d, str? p, pIfaces ts with
    | some c, some d, some p, some (is, kw :: mem :: ts) =>
      match optStr? kw, str? mem, pVals ts with
      | some kw, some mem, some (args, []) =>
        doCall s c (.viaProxy { dest := d, path := p, ifaces := is } kw mem args)
      | _, _, _ => bad s "call proxy tail"
    | _, _, _, _ => bad s "call proxy"
  | "call" :: c :: "raw" :: d :: p :: i :: mem :: sig :: ts =>
    match nat? c, nat? d, str? p, optStr? i, str? mem, str? sig, pVals ts with
    | some c, some d, some p, some i, some mem, some sig, some (args, []) =>
      doCall s c (.raw d p i mem sig args)
    | _, _, _, _, _, _, _ => bad s "call raw"
  | ["toBus", c] =>
    match nat? c with
    | some c =>
      if c < s.net.n then
        match (s.net.cl c).up with
        | [] => (s, "idle")
        | m :: _ =>
          let net' := step s.world s.net (.toBus c)
          let m' := m.withSender c
          let out := if net'.dropped.length > s.net.dropped.length then "drop " ++ showMsg m'
                     else "fwd " ++ no m'.dest ++ " " ++ showMsg m'
          ({ s with net := net' }, out)
      else (s, "idle")
    | none => bad s "toBus"
  | "toClient" :: c :: ts =>
    match nat? c, pBeh ts with
    | some c, some (beh, []) =>
      if c < s.net.n then
        match (s.net.cl c).down with
        | [] => (s, "idle")
        | m :: _ =>
          let net' := step s.world s.net (.toClient c beh)
          ({ s with net := net' }, join (("recv " ++ showMsg m) :: effects (s.net.cl c) (net'.cl c)))
      else (s, "idle")
    | _, _ => bad s "toClient"
  | "resolve" :: c :: tok :: ts =>
    match nat? c, nat? tok, pResult ts with
    | some c, some tok, some (res, []) =>
      match s.bnet with
      | some b =>
        let b' := s.bstep b (.resolve c tok res)
        let eff := effectsB (b.cl c) (b'.cl c) (b'.sent.drop b.sent.length)
        ({ s with bnet := some b' }, if eff.isEmpty then "idle" else join eff)
      | none =>
      let net' := step s.world s.net (.resolve c tok res)
      let eff := effects (s.net.cl c) (net'.cl c)
      ({ s with net := net' }, if eff.isEmpty then "idle" else join eff)
    | _, _, _ => bad s "resolve"
  | ["expire", c, sr] =>
    match nat? c, nat? sr with
    | some c, some sr =>
      match s.bnet with
      | some b =>
        let b' := s.bstep b (.expire c sr)
        let eff := effectsB (b.cl c) (b'.cl c) []
        ({ s with bnet := some b' }, if eff.isEmpty then "idle" else join eff)
      | none =>
      let net' := step s.world s.net (.expire c sr)
      let eff := effects (s.net.cl c) (net'.cl c)
      ({ s with net := net' }, if eff.isEmpty then "idle" else join eff)
    | _, _ => bad s "expire"
  | "getproxy" :: ts =>
    match pIfaces ts with
    | some (kn, ts) =>
      match pIfacesParam ts with
      | some (p, []) =>
        let known := kn.map (fun i => (i.name, i))
        match getRemoteObjectPlan known 0 "" p with
        | .built px =>
          -- with the ORIGIN of every listed interface: the instance given (I) or the definition known under the name (K)
          let orig := (p.toList?.getD []).filterMap (fun a => match a with
            | .inst _ => some "I"
            | .name n => (assocGet known n).map (fun _ => "K"))
          (s, " ".intercalate ("built" :: (px.ifaces.zip orig).map (fun x => hs x.1.name ++ ":" ++ x.2)))
        | plan => (s, showPlan plan)
      | _ => bad s "getproxy param"
    | none => bad s "getproxy known"
  | ["quiescent"] =>
    match s.bnet with
    | some b =>
      let q := bQuiescent b
      let p := (b.pick s.firePolicy b.n).isNone
      (s, if q != p then "pick-disagrees" else if q then "yes" else "no")
    | none =>
    let q := (List.range s.net.n).all (fun j =>
      (s.net.cl j).up.isEmpty && (s.net.cl j).down.isEmpty && (s.net.cl j).exec.isEmpty)
    (s, if q then "yes" else "no")
  | _ => bad s "unknown command"

end Driver.C11

def main : IO Unit := Driver.run Driver.C11.handle Driver.C11.St.init
