import Driver.Common
import TxdbusModel.Obj.Props
import TxdbusModel.Obj.PropsFamily
/-!
Driver for property C17 (model `Txdbus.Obj.Props`).  One line in, one line out.

  reset                                   forget declarations and state                        -> ok
  cfg repaired|original                   which code the model mirrors (default repaired)      -> ok
  class                                   start the next class of the chain (most derived first) -> ok
  iface <name> (<pname> <sig> <r> <w> <e>)*   append DBusInterface(name, Property...) to the current class's
                                          dbusInterfaces; r,w in 0/1; e in t f i c             -> ok | typeerror
  desc <attr> <pname> <iface|~>           DBusProperty(pname, iface) class attribute            -> ok
  bind                                    build every class cache                               -> ok | declerr
  family                                  the chain is a class FAMILY (Obj/PropsFamily.lean): no cache is built,
                                          instances of any class of the chain are created by `new`   -> ok | declerr
  new <o> <level>                         instance o of class <level> (0 = most derived) is created and walks its
                                          class caches                                          -> done | raised
  export <o> | assign <o> <attr> <val> | get <o> <iface> <pname> | set <o> <iface> <pname> <val>
  | getall <o> <iface>                                                                        -> outputs joined by " | "

Strings are the hex of their code points (6 digits each, "-" = empty).  Values: N, I<int>, B0, B1, S<hex>,
D<bits>, L:<hex>,<hex>...
-/
open Txdbus.Obj.Props

namespace C17Drv

structure DS where
  cfg : Cfg := Cfg.repaired
  classes : List ClassDef := []      -- reversed: current class is the head
  bad : Bool := false
  world : Option World := none
  st : St := St.init
  fam : Option (Decls × FSt) := none

def parseInt? (s : String) : Option Int :=
  match s.toList with
  | '-' :: t => (String.ofList t).toNat?.map fun n => -(Int.ofNat n)
  | _ => s.toNat?.map Int.ofNat

def parseScalar? (s : String) : Option Scalar :=
  match s.toList with
  | ['B', '0'] => some (.bool false)
  | ['B', '1'] => some (.bool true)
  | 'I' :: t => (parseInt? (String.ofList t)).map .int
  | 'D' :: t => (String.ofList t).toNat?.map .dbl
  | 'S' :: t => (Driver.hexToChars? (String.ofList t)).map .str
  | _ => none

def splitNonEmpty (s : String) (sep : String) : List String :=
  if s.isEmpty then [] else s.splitOn sep

def parseVal? (s : String) : Option PVal :=
  match s.toList with
  | ['N'] => some .none
  | ['B', '0'] => some (.bool false)
  | ['B', '1'] => some (.bool true)
  | 'I' :: t => (parseInt? (String.ofList t)).map .int
  | 'D' :: t => (String.ofList t).toNat?.map .dbl
  | 'S' :: t => (Driver.hexToChars? (String.ofList t)).map .str
  | 'L' :: ':' :: t =>
    if t.isEmpty then some (.strs [])
    else (((String.ofList t).splitOn ",").mapM Driver.hexToChars?).map .strs
  | 'W' :: c :: 'I' :: t => (parseInt? (String.ofList t)).map (.wint c)
  | 'W' :: c :: 'S' :: t => (Driver.hexToChars? (String.ofList t)).map (.wstr c)
  | 'X' :: ':' :: t => ((splitNonEmpty (String.ofList t) ",").mapM parseScalar?).map .list
  | 'T' :: ':' :: t => ((splitNonEmpty (String.ofList t) ",").mapM parseScalar?).map .tuple
  | 'K' :: ':' :: t =>
    ((splitNonEmpty (String.ofList t) ",").mapM fun (e : String) =>
      match e.splitOn "=" with
      | [k, v] => do
        let k ← Driver.hexToChars? k
        let v ← parseScalar? v
        pure (k, v)
      | _ => none).map .dict
  | 'Y' :: ':' :: t =>
    ((splitNonEmpty (String.ofList t) ";").mapM fun (e : String) =>
      if e == "_" then some [] else (e.splitOn ",").mapM Driver.hexToChars?).map .lists
  | _ => none

def showInt (n : Int) : String := if n < 0 then "-" ++ toString n.natAbs else toString n.natAbs

def showScalar : Scalar → String
  | .int n => "I" ++ showInt n
  | .bool b => if b then "B1" else "B0"
  | .str s => "S" ++ Driver.charsToHex s
  | .dbl b => "D" ++ toString b

def showVal : PVal → String
  | .none => "N"
  | .int n => "I" ++ showInt n
  | .bool b => if b then "B1" else "B0"
  | .str s => "S" ++ Driver.charsToHex s
  | .dbl b => "D" ++ toString b
  | .strs l => "L:" ++ ",".intercalate (l.map Driver.charsToHex)
  | .wint c n => "W" ++ String.singleton c ++ "I" ++ showInt n
  | .wstr c s => "W" ++ String.singleton c ++ "S" ++ Driver.charsToHex s
  | .list l => "X:" ++ ",".intercalate (l.map showScalar)
  | .tuple l => "T:" ++ ",".intercalate (l.map showScalar)
  | .dict l => "K:" ++ ",".intercalate (l.map fun e => Driver.charsToHex e.1 ++ "=" ++ showScalar e.2)
  | .lists l => "Y:" ++ ";".intercalate (l.map fun x =>
      if x.isEmpty then "_" else ",".intercalate (x.map Driver.charsToHex))

def showErr : ErrCat → String
  | .unknownObject => "unknownObject" | .unknownProp => "unknownProp" | .notReadable => "notReadable"
  | .notWritable => "notWritable" | .unknownIface => "unknownIface" | .value => "value" | .noAttr => "noAttr"

def showOut : Out → String
  | .ret => "ret"
  | .retV s w => s!"retv {Driver.charsToHex s} {showVal w}"
  | .retD l => s!"retd {l.length}" ++ String.join (l.map fun e =>
      s!" {Driver.charsToHex e.1} {Driver.charsToHex e.2.1} {showVal e.2.2}")
  | .err e => "err " ++ showErr e
  | .signal o i p s w => s!"sig {o} {Driver.charsToHex i} {Driver.charsToHex p} {Driver.charsToHex s} {showVal w}"
  | .raised => "raised"
  | .done => "done"

def showOuts (l : List Out) : String := " | ".intercalate (l.map showOut)

def parseProps : List String → Option (List RawProp)
  | [] => some []
  | n :: s :: r :: w :: e :: rest => do
    let n ← Driver.hexToChars? n
    let s ← Driver.hexToChars? s
    let r ← (if r == "1" then some true else if r == "0" then some false else none)
    let w ← (if w == "1" then some true else if w == "0" then some false else none)
    let e ← (match e with
      | "t" => some EmitsArg.true_ | "f" => some EmitsArg.false_
      | "i" => some EmitsArg.invalidates | "c" => some EmitsArg.const | _ => none)
    let tl ← parseProps rest
    pure (⟨n, s, r, w, e⟩ :: tl)
  | _ => none

def runOp (d : DS) (op : Op) : DS × String :=
  match d.fam with
  | some (D, s) =>
    let r := fstep d.cfg D s (.op op)
    ({ d with fam := some (D, r.1) }, showOuts r.2)
  | none =>
  match d.world with
  | none => (d, "nodecl")
  | some W =>
    let r := step d.cfg W d.st op
    ({ d with st := r.1 }, showOuts r.2)

def stepLine (d : DS) (line : String) : DS × String :=
  match Driver.words line with
  | ["reset"] => ({ cfg := d.cfg }, "ok")
  | ["cfg", "repaired"] => ({ d with cfg := Cfg.repaired }, "ok")
  | ["cfg", "original"] => ({ d with cfg := Cfg.original }, "ok")
  | ["class"] => ({ d with classes := ⟨[], []⟩ :: d.classes }, "ok")
  | "iface" :: name :: rest =>
    match d.classes, Driver.hexToChars? name, parseProps rest with
    | c :: cs, some name, some raw =>
      match mkIface name raw with
      | some f => ({ d with classes := { c with ifaces := c.ifaces ++ [f] } :: cs }, "ok")
      | none => ({ d with bad := true }, "typeerror")
    | _, _, _ => (d, "parse-error")
  | ["desc", a, p, i] =>
    match d.classes, Driver.hexToChars? a, Driver.hexToChars? p with
    | c :: cs, some a, some p =>
      let i? : Option (Option Str) := if i == "~" then some none else (Driver.hexToChars? i).map some
      match i? with
      | some i => ({ d with classes := { c with descs := c.descs ++ [⟨a, p, i⟩] } :: cs }, "ok")
      | none => (d, "parse-error")
    | _, _, _ => (d, "parse-error")
  | ["bind"] =>
    if d.bad then (d, "declerr") else
    match elaborate d.classes.reverse with
    | some W => ({ d with world := some W, st := St.init }, "ok")
    | none => (d, "declerr")
  | ["family"] =>
    if d.bad then (d, "declerr") else
    ({ d with world := none, fam := some (d.classes.reverse, FSt.init d.classes.reverse) }, "ok")
  | ["new", o, k] =>
    match d.fam, o.toNat?, k.toNat? with
    | some (D, s), some o, some k =>
      let r := fstep d.cfg D s (.new o k)
      ({ d with fam := some (D, r.1) }, showOuts r.2)
    | _, _, _ => (d, "parse-error")
  | ["export", o] =>
    match o.toNat? with
    | some o => runOp d (.export o)
    | none => (d, "parse-error")
  | ["assign", o, a, v] =>
    match o.toNat?, Driver.hexToChars? a, parseVal? v with
    | some o, some a, some v => runOp d (.assign o a v)
    | _, _, _ => (d, "parse-error")
  | ["get", o, i, p] =>
    match o.toNat?, Driver.hexToChars? i, Driver.hexToChars? p with
    | some o, some i, some p => runOp d (.get o i p)
    | _, _, _ => (d, "parse-error")
  | ["set", o, i, p, v] =>
    match o.toNat?, Driver.hexToChars? i, Driver.hexToChars? p, parseVal? v with
    | some o, some i, some p, some v => runOp d (.set o i p v)
    | _, _, _, _ => (d, "parse-error")
  | ["getall", o, i] =>
    match o.toNat?, Driver.hexToChars? i with
    | some o, some i => runOp d (.getAll o i)
    | _, _ => (d, "parse-error")
  | _ => (d, "parse-error")

end C17Drv

def main : IO Unit := Driver.run C17Drv.stepLine {}
