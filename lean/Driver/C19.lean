import Driver.Common
import Driver.Val
import TxdbusModel.Sig.Split
import TxdbusModel.Wire.Infer
import TxdbusModel.Wire.Code
/-!
Driver for property C19.  One operation per line:

  split <strhex>   ->  `ok <n> <strhex>*n`                       list(genCompleteTypes(sig))
                       `err <TypeError|RuntimeError> <n> <strhex>*n`   the exception, after the n pieces a lazy
                                                                 consumer saw before it
  first <strhex>   ->  `ok <strhex piece> <strhex rest>` | `err <TypeError|RuntimeError|StopIteration>`   next(genCompleteTypes(sig));
                       StopIteration only for the empty signature (exhausted generator), inside the body PEP 479 makes it RuntimeError
  infer <value>    ->  `ok <strhex>` | `err MarshallingError`     sigFromPy(value); value in the syntax of Driver/Val.lean
  vrt <le> <off> <value> -> `ok <n> <byteshex> <value>` | `err`   marshal('v', [value], off, le) of Wire/Code.lean (bytes it
                       produces, count it reports) and unmarshal('v', 0xaa*off + bytes, off, le) of those bytes (decoded value)
  nargs <strhex>   ->  `ok <n>` | `err <TypeError|RuntimeError>` the argument count interface.py derives from a signature
-/
open Txdbus Driver

def splitErrName : SplitErr → String
  | .typeError => "TypeError"
  | .stopIteration => "RuntimeError"     -- PEP 479: StopIteration inside a generator body

def piecesStr (ps : List (List Char)) : String :=
  toString ps.length ++ String.join (ps.map fun p => " " ++ charsToHex p)

def step (line : String) : String :=
  match words line with
  | ["split", h] =>
    match hexToChars? h with
    | none => "bad-input"
    | some s =>
      match genCompleteTypes s with
      | .ok ps => "ok " ++ piecesStr ps
      | .error e => "err " ++ splitErrName e ++ " " ++ piecesStr (lazyPieces s).1
  | ["first", h] =>
    match hexToChars? h with
    | none => "bad-input"
    | some s =>
      match firstType s with
      | .ok (ct, rest) => "ok " ++ charsToHex ct ++ " " ++ charsToHex rest
      | .error .typeError => "err TypeError"
      | .error .stopIteration => if s.isEmpty then "err StopIteration" else "err RuntimeError"
  | ["nargs", h] =>
    match hexToChars? h with
    | none => "bad-input"
    | some s =>
      match countCompleteTypes s with
      | .ok n => "ok " ++ toString n
      | .error e => "err " ++ splitErrName e
  | "vrt" :: le :: off :: toks =>
    match parseVal toks, off.toNat? with
    | some (v, []), some off =>
      let lendian := le == "1"
      match Code.marshal 64 ['v'] (.list [v]) off lendian none with
      | .error _ => "err"
      | .ok (n, bs, _) =>
        match Code.unmarshal 64 ['v'] (List.replicate off 170 ++ bs) off lendian none with
        | .ok (n2, [w]) => "ok " ++ toString n ++ " " ++ bytesToHex bs ++ " " ++ toString n2 ++ " " ++ printVal w
        | _ => "ok " ++ toString n ++ " " ++ bytesToHex bs ++ " undecodable"
    | _, _ => "bad-input"
  | "infer" :: toks =>
    match parseVal toks with
    | some (v, []) =>
      match sigFromPy v with
      | .ok s => "ok " ++ charsToHex s
      | .error e => "err " ++ pyErrName e
    | _ => "bad-input"
  | _ => "bad-input"

def main : IO Unit := Driver.run (fun (s : Unit) line => (s, step line)) ()
