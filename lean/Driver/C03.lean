import Driver.Common
import Driver.Val
import TxdbusModel.Gen.Message
import TxdbusModel.Msg.Message
import TxdbusModel.Msg.SpecMsg
import TxdbusModel.Wire.Code
import TxdbusModel.Msg.WireCodec
import TxdbusModel.Msg.General
import TxdbusModel.Msg.Again
import TxdbusModel.Proofs.Wire.Conf
import TxdbusModel.Proofs.Wire.CodePrim
/-!
Driver for property C03.  One operation per line (tokens separated by single spaces).

  build <cls> <next> <max> <er> <as> <path> <member> <iface> <errname> <rserial> <dest> <sender> <sig> <oob> <pre>
      one constructor call.  cls = call|ret|err|sig; next = DBusMessage._nextSerial before; max = _maxMsgLen of the
      class; er/as = T|F; a str argument is N (None) or s<strhex>; rserial N or a decimal integer; oob = N
      (oobFDs=None) or the length of the list given; pre = what marshal.marshal does with the body:
      `-` (not called: no signature), `ok:<byteshex>:<n>` (bytes, length of the descriptor list afterwards),
      `err:<ExceptionName>`.
      -> `ok serial=<n> next=<n> raw=<hex> hdr=<hex> pad=<hex> body=<hex> ufds=<attr> wf=<0|1|->`   (wf: Spec.decodeMsg accepts rawMessage; - when longer than 262144)
       | `err kind=<ExceptionName> next=<n>`
  parse <byteshex> <fds>      parseMessage; fds = N | - (empty list) | comma separated integers
      -> `ok type=<n> serial=<n> er=<T|F> as=<T|F> of=<otherFlags> path=<attr> … unix_fds=<attr> hdr=<n> pad=<hex> body=<hex>`
       | `err kind=<ExceptionName>`
  remarshal <byteshex> <fds> <sender>      what the bus does with a received message: parseMessage, `msg.sender = sender`,
      `msg.endian = raw[0]`, `msg._marshal(False, rawBody=msg.rawBody)`       (sender = s<strhex>)
      -> `ok raw=<hex>` | `err kind=<ExceptionName>`
  buildw <cls> <next> <max> <er> <as> <path> <member> <iface> <errname> <rserial> <dest> <sender> <sig> <oob> <body>
      the same constructor call with the body codec `wireCodec` (Msg/WireCodec.lean) - THE INSTANCE `parse_marshal_c01*` ARE
      ABOUT: the model marshals the body itself with C01's code model.  oob = N | n (the list [900, 901, ...]); <body> = N
      (body=None) or one value in the syntax of Driver/Val.lean (to the end of the line).  Then `parseMessage` with
      `wireCodec` on the bytes, descriptor list = what marshal collected (`[]` when oobFDs=None).
      -> `ok serial=<n> next=<n> raw=<hex> hdr=<hex> pad=<hex> body=<hex> ufds=<attr> fds=<N|-|i,j,..> cert=<c> thm=<t> pval=<p>`
       | `err kind=<ExceptionName> next=<n> cert=<c>`
      cert: `1` the case satisfies every premise of `parse_marshal_c01_checked` (oobFDs=[]) / `parse_marshal_c01_checked_none`
      (oobFDs=None) other than `construct = ok` (signature parses to WF types and renders back, `Code.toSpecTop` /
      `toSpecTopNoFd`, `Code.keysOKCheck`, `Spec.encodeAll Code.genAlign` at offset 0, depth within the fuel, counter >= 1);
      `nobody` the premises of `parse_marshal_no_body`; `-` a pre-filled descriptor list (outside the theorems);
      `0:<which premise>` otherwise.
      thm: with cert=1, the theorem's conclusion re-checked on the evaluated model (rawBody = the spec bytes, parsed body =
      `plainBList items`, raw header/padding kept, spec bytes at the body's real offset = at 0): `1` | `0` | `-`.
      pval: `N` (no body), the parsed body value (a list), or `!<ExceptionName>` when parseMessage fails.
  spec <l|B> <type> <flags> <serial> <n> (<code> <typecode> <value>)*n <bodyhex>      Spec.encodeMsg
      value = decimal unsigned integer for a fixed-size type, s<strhex> for s/o/g
      -> `<byteshex>`

  buildg <the arguments of build>      the same constructor call through `constructG` (Msg/General.lean): `_marshal` with the header
      encoded by the GENERAL code model `Code.marshal` on `_headerFormat` (extension 2026-09-30)
      -> as build, without `gen=`
  parseg <byteshex> <fds>      `parseMessageG`: parseMessage with the header decoded by the GENERAL code model `Code.unmarshal`
      (no fragment restriction: header fields whose variant holds a container are decoded like any other)
      -> as parse, without `gen=` / `via=`
  forwardg <byteshex> <fds> <sender>      the bus's forwarding step through the general model: `parseMessageG`, `forwardG`
      (`msg.sender = sender; msg.endian = raw[0]; msg._marshal(False, rawBody=msg.rawBody)`)
      -> `ok raw=<hex> cert=<c> thm=<t>` | `err kind=<ExceptionName> cert=<c>`
      cert: `1` the parsed object satisfies the hypotheses of `forward_parse` (Properties/C03.lean; `fwdOKB`: attribute values
      of the specification's types, every non-None attribute but `sender` in the table of its class, no NUL in the signature;
      first byte `l` or `B`), else `0`.  thm (with cert=1 and a successful call): the theorem's conclusion re-checked on the
      evaluated model - parsing the re-marshalled bytes gives the same class, serial, flags, otherFlags, body bytes and every
      attribute except `sender` = the given name: `1` | `0`; `-` otherwise.

  Histories (state-leak round 2026-09-30): the driver keeps a running serial counter and the list of the objects the
  `build` lines of the current history constructed (index = number of the `build` line within the history, from 0).
  hist <next>      start a history: counter := next, no objects          -> `ok`
  build … with `=` in place of <next>: the running counter is used.  EVERY `build` line sets the running counter to the
      counter after the call and appends the object (or "none" when the constructor raised) to the list.
  again <ref> <T|F> <oob> <pre>      `obj[ref]._marshal(newSerial=<T|F>, oobFDs=<oob>)` (rawBody=None) at the running counter
      (Msg/Again.lean `marshalAgain`); <pre> = what marshal.marshal does with the object's body and this `oobFDs`.
      -> as build, plus ` same=<1|0|->`: with the `oobFDs` and <pre> of the object's construction, the conclusion of
      `marshal_again_same` (newSerial=F: the object and the counter are unchanged) / `marshal_again_new` (newSerial=T: outcome
      and counter = the constructor call run again at the running counter) re-checked on the evaluated model; `-` otherwise.
      A failure of the body codec leaves the object as it was; after any other failure the object is dropped
      (`err kind=Exception next=<n> same=-` for later references, as for a reference to a failed construction).

attr = N | s<strhex> | i<dec> | b0 | b1 | d<16 hex> | L[<attr>,…] | D[<attr>:<attr>,…] | ?<kind>

`gen=` (build and parse answers): cross-check of the header fragment (Msg/HeaderCode.lean) against the GENERAL
code model of the wire codec (Wire/Code.lean, C01/C02) on the header signature `yyyyuua(yv)`:
build: `Code.marshal` of `[endian, type, flags, version, bodyLength, serial, headers]` gives rawHeader (1) or not (0);
parse: `Code.unmarshal` of the raw message gives the same `nheader` and the same seven values as
`unmarshalHeader` (1) or not (0); `-` when the general model is not applicable (fragment answered `Exception`).
-/
open Txdbus Txdbus.Msg Driver

/-- The body as the harness hands it over: the outcome of `marshal.marshal` on it. -/
structure PreBody where
  res : Except PyErr (Bytes × Nat)

def preCodec : BodyCodec PreBody where
  marshal := fun _ body fds =>
    match body with
    | none => .error .type
    | some pb =>
      match pb.res with
      | .error x => .error x
      | .ok (bs, n) =>
        match fds with
        | none => .ok (bs, none)
        | some _ => .ok (bs, some (List.replicate n (.int .plain 0)))
  unmarshal := fun _ raw _ _ => .ok ⟨.ok (raw, 0)⟩

def errOfName (s : String) : PyErr :=
  if s == "MarshallingError" then .marshalling else if s == "struct.error" then .struct
  else if s == "TypeError" then .type else if s == "ValueError" then .value
  else if s == "IndexError" then .index else if s == "KeyError" then .key
  else if s == "AttributeError" then .attribute else if s == "UnicodeError" then .unicode
  else if s == "RuntimeError" then .runtime else if s == "StopIteration" then .stopIteration
  else if s == "RecursionError" then .recursion else .other

def optStr? (t : String) : Option (Option (List Char)) :=
  if t == "N" then some none
  else if t.startsWith "s" then (hexToChars? (t.drop 1).toString).map some
  else none

def bool? (t : String) : Option Bool :=
  if t == "T" then some true else if t == "F" then some false else none

def pre? (t : String) : Option (Option PreBody) :=
  if t == "-" then some none
  else match t.splitOn ":" with
    | ["ok", h, n] =>
      match hexToBytes? h, n.toNat? with
      | some bs, some k => some (some ⟨.ok (bs, k)⟩)
      | _, _ => none
    | ["err", e] => some (some ⟨.error (errOfName e)⟩)
    | _ => none

def oob? (t : String) : Option (Option (List PyVal)) :=
  if t == "N" then some none else t.toNat?.map fun n => some (List.replicate n (.int .plain 0))

def fds? (t : String) : Option (Option (List PyVal)) :=
  if t == "N" then some none
  else if t == "-" then some (some [])
  else ((t.splitOn ",").mapM String.toInt?).map fun l => some (l.map (PyVal.int .plain))

def tf (b : Bool) : String := if b then "T" else "F"

mutual
/-- A header attribute value as one token: N | b0 | b1 | i<dec> | d<16 hex> | s<strhex> | L[<value>,…] | D[<key>:<value>,…]
(containers: a known header field that a peer sent with a container-typed variant; every item is followed by a comma). -/
def attrStr : PyVal → String
  | .none => "N"
  | .bool b => if b then "b1" else "b0"
  | .int _ n => "i" ++ toString n
  | .float w => "d" ++ u64ToHex w
  | .str _ s => "s" ++ charsToHex s
  | .list xs => "L[" ++ attrStrs xs ++ "]"
  | .tuple xs => "L[" ++ attrStrs xs ++ "]"
  | .dict kvs => "D[" ++ attrPairs kvs ++ "]"
  | _ => "?other"
def attrStrs : List PyVal → String
  | [] => ""
  | x :: xs => attrStr x ++ "," ++ attrStrs xs
def attrPairs : List (PyVal × PyVal) → String
  | [] => ""
  | (k, v) :: kvs => attrStr k ++ ":" ++ attrStr v ++ "," ++ attrPairs kvs
end

/-- The strict specification decoder on the bytes (`-` for long messages: it re-encodes). -/
def wfBit (raw : Bytes) : String :=
  if raw.length > 262144 then "-"
  else match Spec.decodeMsg raw with
    | some _ => "1"
    | none => "0"

/-- Cross-check on the marshalling side (see the module comment). -/
def genMarshalBit (m : Msg PreBody) : String :=
  let T := Gen.Message.tables
  let table := if !isNone (m.attrs .unixFds) then T.headerAttrs m.cls ++ [T.unixFdsEntry] else T.headerAttrs m.cls
  match buildHeaders m.attrs table with
  | .error _ => "0"
  | .ok hs =>
    let vals : PyVal := .list [.int .plain T.endian, .int .plain (T.messageType m.cls),
      .int .plain (flagsByte m.expectReply m.autoStart), .int .plain T.protocolVersion,
      .int .plain m.rawBody.length, .int .plain m.serial, headersVal hs]
    match Code.marshal 16 T.headerFormat vals 0 (T.endian == 108) none with
    | .ok (n, bs, _) => if bs == m.rawHeader && n == m.rawHeader.length then "1" else "0"
    | .error _ => "0"

def pyValBeq : PyVal → PyVal → Bool
  | .none, .none => true
  | .bool a, .bool b => a == b
  | .int c n, .int d k => c == d && n == k
  | .float a, .float b => a == b
  | .str c s, .str d t => c == d && s == t
  | _, _ => false

/-- Cross-check on the unmarshalling side. -/
def genUnmarshalBit (raw : Bytes) (fds : Option (List PyVal)) : String :=
  let T := Gen.Message.tables
  match raw with
  | [] => "-"
  | b0 :: _ =>
    let le := b0 == 108
    match unmarshalHeader T.align le raw fds, Code.unmarshal 16 T.headerFormat raw 0 le fds with
    | .error .other, _ => "-"
    | .ok h, .ok (n, [.int _ v0, .int _ v1, .int _ v2, .int _ v3, .int _ v4, .int _ v5, .list items]) =>
      let fieldsOk := items.length == h.fields.length &&
        (List.zip items h.fields).all fun p =>
          match p.1 with
          | .list [.int _ c, v] => c == (p.2.1 : Nat) && pyValBeq v p.2.2
          | _ => false
      if n == h.nheader && v0 == (h.endian : Nat) && v1 == (h.mtype : Nat) && v2 == (h.flags : Nat) &&
         v3 == (h.version : Nat) && v4 == (h.bodyLength : Nat) && v5 == (h.serial : Nat) && fieldsOk then "1" else "0"
    | .error e1, .error e2 => if e1 == e2 then "1" else "0"
    | _, _ => "0"

/-- Step budget of the general header codec in `buildg`: 4 + the nesting depth of a header value; a constructor stores only
str / int values (depth 1). -/
def gFuel : Nat := 64

/-- Step budget of the general header codec in `parseg` / `forwardg`: txdbus enforces no nesting limit (Python's recursion
limit aside), and every nesting level of a header value costs at least one byte of the message, so `raw.length + 4` per-type
calls can never run out on `raw` (nor on re-marshalling what was parsed from it).  (Review 3, 3.4: a constant 64 made `parseg`
answer RecursionError for a variant of type `a^61 i`, which the code parses.) -/
def gFuelFor (raw : Bytes) : Nat := raw.length + 4

/-- An object of the current history: the message, and how it was constructed (for the `same=` bit of `again`). -/
structure HObj where
  msg : Msg PreBody
  call : Call PreBody
  maxLen : Nat
  oobTok : String
  preTok : String

/-- The driver's state: the running serial counter and the objects of the current history. -/
structure HState where
  next : Nat := 1
  objs : Array (Option HObj) := #[]

/-- One `build` / `buildg` line; `cur` = the running counter (used when <next> is `=`).  Returns the answer, the counter
afterwards and the constructed object. -/
def buildCore (general : Bool) (cur : Nat) (toks : List String) : String × Nat × Option HObj :=
  match toks with
  | [cls, nxt, mx, er, as, path, member, iface, errname, rserial, dest, sender, sg, oobTok, preTok] =>
    match (if nxt == "=" then some cur else nxt.toNat?), mx.toNat?, bool? er, bool? as, optStr? path, optStr? member, optStr? iface with
    | some nxt, some mx, some er, some as, some path, some member, some iface =>
      match optStr? errname, (if rserial == "N" then some none else rserial.toInt?.map some), optStr? dest,
            optStr? sender, optStr? sg, oob? oobTok, pre? preTok with
      | some errname, some rserial, some dest, some sender, some sg, some oob, some pre =>
        let T := Gen.Message.tables
        let na : Char → Bool := fun _ => false
        let st : St := ⟨nxt⟩
        let call : Option (Call PreBody) :=
          if cls == "call" then
            some (.methodCall { path := path, member := member, interface := iface, destination := dest,
                                signature := sg, body := pre, expectReply := er, autoStart := as, oobFDs := oob })
          else if cls == "ret" then
            rserial.map fun rs => .methodReturn { replySerial := rs, body := pre, destination := dest, signature := sg }
          else if cls == "err" then
            rserial.map fun rs => .error { errorName := errname, replySerial := rs, destination := dest,
                                           signature := sg, body := pre, sender := sender }
          else if cls == "sig" then
            some (.signal { path := path, member := member, interface := iface, destination := dest,
                            signature := sg, body := pre })
          else none
        match call with
        | none => ("bad-input", cur, none)
        | some c =>
          let r := if general then constructG T preCodec gFuel na mx st c else construct T preCodec na mx st c
          match r.2 with
          | .error e => ("err kind=" ++ pyErrName e ++ " next=" ++ toString r.1.nextSerial, r.1.nextSerial, none)
          | .ok m =>
            ("ok serial=" ++ toString m.serial ++ " next=" ++ toString r.1.nextSerial ++
             " raw=" ++ bytesToHex m.raw ++ " hdr=" ++ bytesToHex m.rawHeader ++
             " pad=" ++ bytesToHex m.rawPadding ++ " body=" ++ bytesToHex m.rawBody ++
             " ufds=" ++ attrStr (m.attrs .unixFds) ++ " wf=" ++ wfBit m.raw ++
             (if general then "" else " gen=" ++ genMarshalBit m),
             r.1.nextSerial, some ⟨m, c, mx, oobTok, preTok⟩)
      | _, _, _, _, _, _, _ => ("bad-input", cur, none)
    | _, _, _, _, _, _, _ => ("bad-input", cur, none)
  | _ => ("bad-input", cur, none)

def buildStepWith (general : Bool) (toks : List String) : String := (buildCore general 1 toks).1

/-- `build` inside a history: the running counter and the object list are updated. -/
def buildHist (s : HState) (toks : List String) : HState × String :=
  let (out, nxt, obj) := buildCore false s.next toks
  ({ next := nxt, objs := s.objs.push obj }, out)

def msgBeq (a b : Msg PreBody) : Bool :=
  a.cls == b.cls && a.expectReply == b.expectReply && a.autoStart == b.autoStart && a.serial == b.serial &&
  a.rawHeader == b.rawHeader && a.rawPadding == b.rawPadding && a.rawBody == b.rawBody && a.otherFlags == b.otherFlags &&
  Attr.all.all fun x => attrStr (a.attrs x) == attrStr (b.attrs x)

/-- `again <ref> <T|F> <oob> <pre>` (see the module comment). -/
def againStep (s : HState) (toks : List String) : HState × String :=
  match toks with
  | [ref, nw, oobT, preT] =>
    match ref.toNat?, bool? nw, oob? oobT, pre? preT with
    | some i, some newSerial, some oob, some pre =>
      match s.objs[i]? with
      | some (some o) =>
        let T := Gen.Message.tables
        let m : Msg PreBody := { o.msg with body := pre }
        let st : St := ⟨s.next⟩
        let r := marshalAgain T preCodec o.maxLen st m newSerial oob
        let cert := oobT == o.oobTok && preT == o.preTok
        let same : String :=
          if !cert then "-"
          else if newSerial then
            let r0 := construct T preCodec (fun _ => false) o.maxLen st o.call
            if r.1.nextSerial == r0.1.nextSerial &&
               (match r.2, r0.2 with
                | .ok a, .ok b => msgBeq a b
                | .error a, .error b => a == b
                | _, _ => false) then "1" else "0"
          else
            (match r.2 with
             | .ok a => if msgBeq a o.msg && r.1.nextSerial == s.next then "1" else "0"
             | .error _ => "0")
        match r.2 with
        | .error e =>
          let bodyStage := match marshalBody T preCodec m.asPre oob with
            | .error _ => true
            | .ok _ => false
          ({ next := r.1.nextSerial, objs := if bodyStage then s.objs else s.objs.set! i none },
           "err kind=" ++ pyErrName e ++ " next=" ++ toString r.1.nextSerial ++ " same=" ++ same)
        | .ok m2 =>
          ({ next := r.1.nextSerial, objs := s.objs.set! i (some { o with msg := m2 }) },
           "ok serial=" ++ toString m2.serial ++ " next=" ++ toString r.1.nextSerial ++
           " raw=" ++ bytesToHex m2.raw ++ " hdr=" ++ bytesToHex m2.rawHeader ++
           " pad=" ++ bytesToHex m2.rawPadding ++ " body=" ++ bytesToHex m2.rawBody ++
           " ufds=" ++ attrStr (m2.attrs .unixFds) ++ " wf=" ++ wfBit m2.raw ++ " same=" ++ same)
      | _ => (s, "err kind=Exception next=" ++ toString s.next ++ " same=-")
    | _, _, _, _ => (s, "bad-input")
  | _ => (s, "bad-input")

/-- Step budget of the body codec (as Driver/WireOps.lean). -/
def wFuel : Nat := 300

/-- Step budget of `Code.toSpecTop` (as Driver/WireOps.lean). -/
def specFuel : Nat := 200000

def oobW? (t : String) : Option (Option (List PyVal)) :=
  if t == "N" then some none else t.toNat?.map fun n => some ((List.range n).map fun i => .int .plain (900 + (i : Nat)))

def fdsStr : Option (List PyVal) → String
  | none => "N"
  | some [] => "-"
  | some l => ",".intercalate (l.map fun v => match v with
      | .int _ n => toString n
      | _ => "?")

def pyListBeq (a b : List PyVal) : Bool := printVals a == printVals b

/-- The executable premises of `parse_marshal_c01_checked` / `parse_marshal_c01_checked_none` (all but `construct = ok`)
and, when they hold, the conclusion re-checked on the evaluated model. -/
def certify (nxt : Nat) (sg : Option (List Char)) (body : Option PyVal) (oob : Option (List PyVal))
    (res : Except PyErr (Msg PyVal)) (parsed : Option (Except PyErr (Msg PyVal))) : String × String :=
  match sg with
  | none => ("nobody", "-")
  | some [] => ("nobody", "-")
  | some sig =>
    if nxt < 1 then ("0:counter", "-") else
    match oob with
    | some (_ :: _) => ("-", "-")
    | _ =>
      match parseSig sig, body with
      | none, _ => ("0:signature", "-")
      | _, none => ("0:no-body", "-")
      | some ts, some pv =>
        if renderAll ts != sig then ("0:render", "-")
        else if !allWF ts then ("0:wf", "-")
        else
          let chk : Option (List Val × List PyVal) :=
            match oob with
            | none => (toSpecTopNoFd specFuel ts pv).map fun vs => (vs, [])
            | some _ => Code.toSpecTop specFuel ts pv
          match chk with
          | none => ("0:not-conforming", "-")
          | some (vs, fdl) =>
            if !Code.keysOKCheck pv then ("0:keys", "-")
            else match Spec.encodeAll Code.genAlign .little ts vs 0 with
              | none => ("0:limits", "-")
              | some bs =>
                if depthAll vs > wFuel then ("0:fuel", "-")
                else
                  let thm : String :=
                    match res, parsed, Code.structFields pv with
                    | .ok m, some (.ok m'), some items =>
                      let atPlace := Spec.encodeAll Code.genAlign .little ts vs (m.rawHeader ++ m.rawPadding).length
                      if m.rawBody == bs && m'.rawBody == bs && m'.rawHeader == m.rawHeader && m'.rawPadding == m.rawPadding
                         && m'.otherFlags == 0 && atPlace == some bs && m.raw == m.rawHeader ++ m.rawPadding ++ bs
                         && (match m'.body with
                             | some (.list got) => pyListBeq got (Code.plainBList items)
                             | _ => false)
                         && (match oob with
                             | none => true
                             | some _ => pyListBeq fdl ((match (wireCodec wFuel).marshal sig (some pv) oob with
                                                         | .ok (_, some l) => l
                                                         | _ => [])))
                      then "1" else "0"
                    | .error _, _, _ => "-"          -- the constructor refused (a name, the size limit): `h` of the theorem fails
                    | _, _, _ => "0"
                  ("1", thm)

def buildwStep (toks : List String) : String :=
  match toks with
  | cls :: nxt :: mx :: er :: as :: path :: member :: iface :: errname :: rserial :: dest :: sender :: sg :: oob :: rest =>
    match nxt.toNat?, mx.toNat?, bool? er, bool? as, optStr? path, optStr? member, optStr? iface with
    | some nxt, some mx, some er, some as, some path, some member, some iface =>
      let body? : Option (Option PyVal) :=
        if rest == ["N"] then some none
        else match parseVals 1 rest with
          | some ([v], []) => some (some v)
          | _ => none
      match optStr? errname, (if rserial == "N" then some none else rserial.toInt?.map some), optStr? dest,
            optStr? sender, optStr? sg, oobW? oob, body? with
      | some errname, some rserial, some dest, some sender, some sg, some oob, some body =>
        let T := Gen.Message.tables
        let na : Char → Bool := fun _ => false
        let st : St := ⟨nxt⟩
        let call : Option (Call PyVal) :=
          if cls == "call" then
            some (.methodCall { path := path, member := member, interface := iface, destination := dest,
                                signature := sg, body := body, expectReply := er, autoStart := as, oobFDs := oob })
          else if cls == "ret" then
            rserial.map fun rs => .methodReturn { replySerial := rs, body := body, destination := dest, signature := sg }
          else if cls == "err" then
            rserial.map fun rs => .error { errorName := errname, replySerial := rs, destination := dest,
                                           signature := sg, body := body, sender := sender }
          else if cls == "sig" then
            some (.signal { path := path, member := member, interface := iface, destination := dest,
                            signature := sg, body := body })
          else none
        match call with
        | none => "bad-input"
        | some c =>
          let C := wireCodec wFuel
          let r := construct T C na mx st c
          match r.2 with
          | .error e =>
            "err kind=" ++ pyErrName e ++ " next=" ++ toString r.1.nextSerial ++ " cert=" ++ (certify nxt sg body oob r.2 none).1
          | .ok m =>
            -- the descriptor list marshal collected (what the caller's `oobFDs` list holds afterwards)
            let collected : Option (List PyVal) :=
              match sg with
              | some (ch :: cs) =>
                match C.marshal (ch :: cs) body oob with
                | .ok (_, f) => f
                | .error _ => oob
              | _ => oob
            let pfds : Option (List PyVal) := some (collected.getD [])
            let pr := parseMessage T C m.raw pfds
            let (cert, thm) := certify nxt sg body oob r.2 (some pr)
            let pval : String :=
              match pr with
              | .error e => "!" ++ pyErrName e
              | .ok m' =>
                match m'.body with
                | none => "N"
                | some v => printVal v
            "ok serial=" ++ toString m.serial ++ " next=" ++ toString r.1.nextSerial ++
            " raw=" ++ bytesToHex m.raw ++ " hdr=" ++ bytesToHex m.rawHeader ++
            " pad=" ++ bytesToHex m.rawPadding ++ " body=" ++ bytesToHex m.rawBody ++
            " ufds=" ++ attrStr (m.attrs .unixFds) ++ " fds=" ++ fdsStr collected ++
            " cert=" ++ cert ++ " thm=" ++ thm ++ " pval=" ++ pval
      | _, _, _, _, _, _, _ => "bad-input"
    | _, _, _, _, _, _, _ => "bad-input"
  | _ => "bad-input"

def attrNames : List (Attr × String) :=
  [(.path, "path"), (.interface, "interface"), (.member, "member"), (.errorName, "error_name"),
   (.replySerial, "reply_serial"), (.destination, "destination"), (.sender, "sender"),
   (.signature, "signature"), (.unixFds, "unix_fds")]

/-- The header through the GENERAL code model (`Code.unmarshal` on `yyyyuua(yv)`), as `HeaderVals`: used when the
fragment answers `PyErr.other` (a header field whose variant holds a container). -/
def generalHeader (raw : Bytes) (le : Bool) (fds : Option (List PyVal)) : Except PyErr HeaderVals :=
  match Code.unmarshal 64 Gen.Message.tables.headerFormat raw 0 le fds with
  | .error e => .error e
  | .ok (n, [.int _ v0, .int _ v1, .int _ v2, .int _ v3, .int _ v4, .int _ v5, .list items]) =>
    let fields := items.filterMap fun it =>
      match it with
      | .list [.int _ c, v] => some (c.toNat, v)
      | _ => none
    if fields.length == items.length then
      .ok ⟨n, v0.toNat, v1.toNat, v2.toNat, v3.toNat, v4.toNat, v5.toNat, fields⟩
    else .error .other
  | .ok _ => .error .other

/-- `parseMessage` of the model; when the header is outside the fragment, the same `parseAfterHeader` on the
header decoded by the general code model (`via=general` in the answer). -/
def parseBoth (raw : Bytes) (fds : Option (List PyVal)) : Except PyErr (Msg PreBody) × String :=
  let T := Gen.Message.tables
  match parseMessage T preCodec raw fds with
  | .error .other =>
    match raw with
    | [] => (.error .other, "")
    | b0 :: _ =>
      let le := b0 == 108
      match generalHeader raw le fds with
      | .error e => (.error e, " via=general")
      | .ok h => (parseAfterHeader T preCodec raw le fds h, " via=general")
  | r => (r, "")

def fmtParsed (res : Except PyErr (Msg PreBody)) : String :=
  let T := Gen.Message.tables
  match res with
  | .error e => "err kind=" ++ pyErrName e
  | .ok m =>
    "ok type=" ++ toString (T.messageType m.cls) ++ " serial=" ++ toString m.serial ++
    " er=" ++ tf m.expectReply ++ " as=" ++ tf m.autoStart ++ " of=" ++ toString m.otherFlags ++
    String.join (attrNames.map fun (a, n) => " " ++ n ++ "=" ++ attrStr (m.attrs a)) ++
    " hdr=" ++ toString m.rawHeader.length ++ " pad=" ++ bytesToHex m.rawPadding ++
    " body=" ++ bytesToHex m.rawBody

def parseStep (toks : List String) : String :=
  match toks with
  | [h, f] =>
    match hexToBytes? h, fds? f with
    | some raw, some fds =>
      let (res, via) := parseBoth raw fds
      fmtParsed res ++ " gen=" ++ genUnmarshalBit raw fds ++ via
    | _, _ => "bad-input"
  | _ => "bad-input"

def parsegStep (toks : List String) : String :=
  match toks with
  | [h, f] =>
    match hexToBytes? h, fds? f with
    | some raw, some fds => fmtParsed (parseMessageG Gen.Message.tables preCodec (gFuelFor raw) raw fds)
    | _, _ => "bad-input"
  | _ => "bad-input"

/-- The conclusion of `forward_parse` on evaluated objects: `m3` (parsed from the re-marshalled bytes) against `m` (the
object that was forwarded with `sender`). -/
def fwdViewOK (m m3 : Msg PreBody) (sender : List Char) : Bool :=
  m3.cls == m.cls && m3.serial == m.serial && m3.expectReply == m.expectReply && m3.autoStart == m.autoStart &&
  m3.otherFlags == m.otherFlags / 4 * 4 && m3.rawBody == m.rawBody &&
  attrNames.all fun (a, _) =>
    attrStr (m3.attrs a) == (if a == Attr.sender then attrStr (.str .plain sender) else attrStr (plain (m.attrs a)))

def forwardgStep (toks : List String) : String :=
  match toks with
  | [h, f, snd] =>
    match hexToBytes? h, fds? f, optStr? snd with
    | some raw, some fds, some (some sender) =>
      let T := Gen.Message.tables
      match raw, parseMessageG T preCodec (gFuelFor raw) raw fds with
      | _, .error e => "err kind=" ++ pyErrName e ++ " cert=-"
      | [], _ => "err kind=IndexError cert=-"
      | b0 :: _, .ok m =>
        let cert := fwdOKB T m && (b0 == 108 || b0 == 66)
        let certS := if cert then "1" else "0"
        match forwardG T (gFuelFor raw) T.maxMsgLen m b0.toNat sender with
        | .error e => "err kind=" ++ pyErrName e ++ " cert=" ++ certS
        | .ok m2 =>
          let thm :=
            if cert then
              match parseMessageG T preCodec (gFuelFor m2.raw + gFuelFor raw) m2.raw fds with
              | .ok m3 => if fwdViewOK m m3 sender then "1" else "0"
              | .error _ => "0"
            else "-"
          "ok raw=" ++ bytesToHex m2.raw ++ " cert=" ++ certS ++ " thm=" ++ thm
    | _, _, _ => "bad-input"
  | _ => "bad-input"

def remarshalStep (toks : List String) : String :=
  match toks with
  | [h, f, snd] =>
    match hexToBytes? h, fds? f, optStr? snd with
    | some raw, some fds, some sender =>
      let T := Gen.Message.tables
      match raw, (parseBoth raw fds).1 with
      | _, .error e => "err kind=" ++ pyErrName e
      | [], _ => "err kind=IndexError"
      | b0 :: _, .ok m =>
        let m1 := { m with attrs := setAttr m.attrs .sender (strAttr sender) }
        match remarshal T T.maxMsgLen m1 b0.toNat m1.rawBody with
        | .error e => "err kind=" ++ pyErrName e
        | .ok m2 => "ok raw=" ++ bytesToHex m2.raw
    | _, _, _ => "bad-input"
  | _ => "bad-input"

def basicOfTok? (t : String) : Option Basic :=
  match t.toList with
  | [c] => Basic.ofCode? c
  | _ => none

def specFields : Nat → List String → Option (List Field × List String)
  | 0, toks => some ([], toks)
  | n + 1, code :: tc :: val :: rest =>
    match code.toNat?, basicOfTok? tc with
    | some code, some c =>
      let v : Option HVal :=
        if isText c then
          (if val.startsWith "s" then (hexToChars? (val.drop 1).toString).map (HVal.text c) else none)
        else val.toNat?.map (HVal.num c)
      match v, specFields n rest with
      | some v, some (fs, r) => some ((code, v) :: fs, r)
      | _, _ => none
    | _, _ => none
  | _, _ => none

def specStep (toks : List String) : String :=
  match toks with
  | e :: mtype :: flags :: serial :: n :: rest =>
    match (if e == "l" then some Endian.little else if e == "B" then some Endian.big else none),
          mtype.toNat?, flags.toNat?, serial.toNat?, n.toNat? with
    | some e, some mtype, some flags, some serial, some n =>
      match specFields n rest with
      | some (fs, [bh]) =>
        match hexToBytes? bh with
        | some body => bytesToHex (Spec.encodeMsg ⟨e, mtype, flags, serial, fs, body⟩)
        | none => "bad-input"
      | _ => "bad-input"
    | _, _, _, _, _ => "bad-input"
  | _ => "bad-input"

def step (line : String) : String :=
  match words line with
  | "buildg" :: toks => buildStepWith true toks
  | "parseg" :: toks => parsegStep toks
  | "forwardg" :: toks => forwardgStep toks
  | "buildw" :: toks => buildwStep toks
  | "parse" :: toks => parseStep toks
  | "remarshal" :: toks => remarshalStep toks
  | "spec" :: toks => specStep toks
  | _ => "bad-input"

/-- The history operations carry the state; everything else is a pure function of its line. -/
def stepH (s : HState) (line : String) : HState × String :=
  match words line with
  | ["hist", n] =>
    match n.toNat? with
    | some k => ({ next := k, objs := #[] }, "ok")
    | none => (s, "bad-input")
  | "build" :: toks => buildHist s toks
  | "again" :: toks => againStep s toks
  | _ => (s, step line)

def main : IO Unit := Driver.run stepH {}
