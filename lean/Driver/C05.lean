import Driver.Common
import TxdbusModel.Wire.Cost
import TxdbusModel.Wire.Code
import TxdbusModel.Wire.CostValue
/-!
Driver for property C05 (cost model of the decoder).  One operation per line:

  u <chk> <le> <off> <fds> <sig strhex> <data hex>
        marshal.unmarshal(sig, data, off, lendian=le, oobFDs=fds); chk=1 the repaired array loop, chk=0 the loop before 635620f;
        fds: `N` = None, `-` = [], else comma-separated descriptor numbers; run at the fuel of the theorems (`fuelFor`)
     -> `<status> <consumed> <steps> <depth> <frames> <size> <work> <chars>`
  p <fix> <fds> <data hex>
        message.parseMessage(data, fds); fix=1 the repaired code (signature field must be a str of <= 255 chars), run at
        exactly `parseFuel` (the fuel of parseMessage_total); fix=0 the code before d5434a8 (more fuel: long signatures)
     -> `<status> <steps> <depth> <frames> <size> <body> <work> <chars>`      body: 0 none, 1 decoded, 2 signature field rejected
  x <le> <off> <fds> <sig strhex> <data hex>
        BOTH hand models of marshal.unmarshal on the same input, each at the fuel of `cost_agrees_with_code`: the cost model
        (`Cost.unmarshal`, fuel `fuelFor`) and the value model of C01 / C02 (`Code.unmarshal` of Wire/Code.lean, fuel
        `codeFuel`; descriptors as plain ints)
     -> `<cost status> <cost consumed> <cost values> <code status> <code consumed> <code values> <codeFuel> <cost size> <code nodes>`
        (values = number of top-level values; by the theorem the two triples are equal; code nodes = `1 + nodesList vs`,
        the objects in the returned list incl. the list itself; by the theorem `code nodes <= cost size + 1`)
  b <sig strhex> <data hex> <off>     -> `<fuelFor> <stepBound> <workBound>`   the proved bounds
  pb <data hex>                        -> `<parseFuel> <parseStepBound> <parseWorkBound>`

status: `ok` | `err:<ExceptionClass>` | `fuel` (the model ran out of fuel: never, by unmarshal_fuel_adequate)
-/
open Txdbus Txdbus.Cost Driver

def errName : Err → String
  | .struct => "struct.error"
  | .key => "KeyError"
  | .index => "IndexError"
  | .type => "TypeError"
  | .runtime => "RuntimeError"
  | .unicode => "UnicodeDecodeError"
  | .marshalling => "MarshallingError"

def stName : Status → String
  | .ok => "ok"
  | .err e => "err:" ++ errName e
  | .outOfFuel => "fuel"

/-- the exception classes of the value model, spelled like `errName` spells the cost model's. -/
def pyErrName : PyErr → String
  | .marshalling => "MarshallingError" | .struct => "struct.error" | .type => "TypeError"
  | .value => "ValueError" | .index => "IndexError" | .key => "KeyError"
  | .attribute => "AttributeError" | .unicode => "UnicodeDecodeError" | .runtime => "RuntimeError"
  | .stopIteration => "StopIteration" | .recursion => "RecursionError" | .other => "Exception"

def flag? (s : String) : Option Bool :=
  if s == "1" then some true else if s == "0" then some false else none

def fds? (s : String) : Option (Option (List Nat)) :=
  if s == "N" then some none
  else if s == "-" then some (some [])
  else (s.splitOn ",").mapM String.toNat? |>.map some

def step (line : String) : String :=
  match words line with
  | ["u", chk, le, off, fds, sigh, datah] =>
    match flag? chk, flag? le, off.toNat?, fds? fds, hexToChars? sigh, hexToBytes? datah with
    | some chk, some le, some off, some fds, some sig, some data =>
      let r := unmarshal genTables chk fds (fuelFor sig data) sig data off le
      let consumed := match r.st with | .ok => r.off - off | _ => 0
      s!"{stName r.st} {consumed} {r.steps} {r.depth} {r.frames} {r.size} {r.work} {r.chars}"
    | _, _, _, _, _, _ => "bad-input"
  | ["p", fix, fds, datah] =>
    match flag? fix, fds? fds, hexToBytes? datah with
    | some fix, some fds, some data =>
      let hf := Txdbus.Gen.C05Wire.headerFormat
      let fuel := if fix then parseFuel hf data else parseFuel hf data + 2 * data.length
      let r := parseMessage genTables hf Txdbus.Gen.C05Wire.mtypeKeys Txdbus.Gen.C05Wire.signatureCode fix fds fuel data
      s!"{stName r.st} {r.steps} {r.depth} {r.frames} {r.size} {r.body} {r.work} {r.chars}"
    | _, _, _ => "bad-input"
  | ["x", le, off, fds, sigh, datah] =>
    match flag? le, off.toNat?, fds? fds, hexToChars? sigh, hexToBytes? datah with
    | some le, some off, some fds, some sig, some data =>
      let r := unmarshal genTables true fds (fuelFor sig data) sig data off le
      let consumed := match r.st with | .ok => r.off - off | _ => 0
      let nvals := match r.st with | .ok => r.vals.length | _ => 0
      let fv : Code.Fds := fds.map (fun l => l.map (fun n => PyVal.int .plain (Int.ofNat n)))
      let cv := match Code.unmarshal (codeFuel sig data off) sig data off le fv with
        | .ok (n, vs) => (s!"ok {n} {vs.length}", 1 + nodesList vs)
        | .error e => (s!"err:{pyErrName e} 0 0", 0)
      s!"{stName r.st} {consumed} {nvals} {cv.1} {codeFuel sig data off} {r.size} {cv.2}"
    | _, _, _, _, _ => "bad-input"
  | ["b", sigh, datah, off] =>
    match hexToChars? sigh, hexToBytes? datah, off.toNat? with
    | some sig, some data, some off => s!"{fuelFor sig data} {stepBound sig data off} {workBound sig data off}"
    | _, _, _ => "bad-input"
  | ["pb", datah] =>
    match hexToBytes? datah with
    | some data =>
      let hf := Txdbus.Gen.C05Wire.headerFormat
      s!"{parseFuel hf data} {parseStepBound hf data} {parseWorkBound hf data}"
    | _ => "bad-input"
  | _ => "bad-input"

def main : IO Unit := Driver.run (fun (s : Unit) line => (s, step line)) ()
