import Driver.Common
import TxdbusModel.Wire.Cost
/-!
Driver for property C05 (cost model of the decoder).  One operation per line:

  u <chk> <le> <off> <sig strhex> <data hex>
        marshal.unmarshal(sig, data, off, lendian=le, oobFDs=[]); chk=1 the repaired array loop, chk=0 the loop before 635620f
     -> `<status> <consumed> <steps> <depth> <frames> <size>`
  p <fix> <data hex>
        message.parseMessage(data, []); fix=1 the repaired code (signature field must be a str of <= 255 chars)
     -> `<status> <steps> <depth> <frames> <size> <body>`      body: 0 none, 1 decoded, 2 signature field rejected
  b <sig strhex> <data hex> <off>     -> `<fuelFor> <stepBound>`   the proved bounds
  pb <data hex>                        -> `<parseFuel> <parseStepBound>`

status: `ok` | `err:<ExceptionClass>` | `fuel` (the model ran out of fuel: never, by unmarshal_fuel_adequate)
-/
open Txdbus Txdbus.Cost Driver

def errName : Err → String
  | .struct => "struct.error"
  | .key => "KeyError"
  | .index => "IndexError"
  | .type => "TypeError"
  | .runtime => "RuntimeError"
  | .unicode => "UnicodeDecodeError"
  | .marshalling => "MarshallingError"

def stName : Status → String
  | .ok => "ok"
  | .err e => "err:" ++ errName e
  | .outOfFuel => "fuel"

def flag? (s : String) : Option Bool :=
  if s == "1" then some true else if s == "0" then some false else none

def step (line : String) : String :=
  match words line with
  | ["u", chk, le, off, sigh, datah] =>
    match flag? chk, flag? le, off.toNat?, hexToChars? sigh, hexToBytes? datah with
    | some chk, some le, some off, some sig, some data =>
      let r := unmarshal genTables chk (fuelFor sig data) sig data off le
      s!"{stName r.st} {r.off - off} {r.steps} {r.depth} {r.frames} {r.size}"
    | _, _, _, _, _ => "bad-input"
  | ["p", fix, datah] =>
    match flag? fix, hexToBytes? datah with
    | some fix, some data =>
      let hf := Txdbus.Gen.C05Wire.headerFormat
      let fuel := parseFuel hf data + 2 * data.length
      let r := parseMessage genTables hf Txdbus.Gen.C05Wire.mtypeKeys Txdbus.Gen.C05Wire.signatureCode fix fuel data
      s!"{stName r.st} {r.steps} {r.depth} {r.frames} {r.size} {r.body}"
    | _, _ => "bad-input"
  | ["b", sigh, datah, off] =>
    match hexToChars? sigh, hexToBytes? datah, off.toNat? with
    | some sig, some data, some off => s!"{fuelFor sig data} {stepBound sig data off}"
    | _, _, _ => "bad-input"
  | ["pb", datah] =>
    match hexToBytes? datah with
    | some data =>
      let hf := Txdbus.Gen.C05Wire.headerFormat
      s!"{parseFuel hf data} {parseStepBound hf data}"
    | _ => "bad-input"
  | _ => "bad-input"

def main : IO Unit := Driver.run (fun (s : Unit) line => (s, step line)) ()
