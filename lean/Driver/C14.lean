import Driver.Common
import TxdbusModel.Bus.Route
import TxdbusModel.Bus.RouteFull
/-!
Driver for property C14: the routing model of the built-in bus, one event per line.

Tokens: `~` = None, `-` = the empty string, anything else = the string itself (the harness only
uses names without white space).

  reset [orig]                         -> ok           (orig: the model of the code before F21/F22)
  connect                              -> ok <id>
  msg <i> <type 1-4> <serial> <flags> <path> <iface> <member> <error_name> <reply_serial> <dest>
      <sender> <extra> <body> <args> OP     (flags = the whole flags byte; extra = token for unknown header fields)               -> OUT
        OP = always | addmatch RULE | exec <k> EFF*k
  disc <i> <k> EFF*k                   -> OUT
        EFF = own <name> <j> | unown <name> | sig <j> <member> <body> <args> | bcast <member> <body> <args>

  args (the body as match rules see it, C12's format): `~` = no body, `.` = [], otherwise `,`-separated `s<hex str>` | `o`
  RULE (C12's format, the kwargs of router.addMatch): 10 tokens mtype sender interface member path path_namespace
        destination args arg_paths arg0namespace; optional string `~` / `-` / 6 hex digits per code point;
        pair list `~` | `.` | `idx:hexstr,...`

  OUT = named=<i>:<name>|~ lose=<0|1> n=<k> ; <to> <payload> ; ... [ rule=RULE('/'-joined) | rule=valueerror]
        payload = F type serial flags path iface member error_name reply_serial dest sender extra body
                | H reply_serial name | R reply_serial dest | S path iface member dest body

The rule a registration uses is the MODEL's reading of the rule text the AddMatch call carries (`addMatchOp`:
C12's model of `_parseMatchRule` + the kwargs loop); it is printed as `rule=` and compared with the kwargs observed at
the real `router.addMatch`.  Only when the text is outside the modelled domain the observed kwargs are used.
`ruleholds <RULE> <type> <path> <iface> <member> <dest> <sender> <args>` -> 0 | 1   (`fullGen.holds`, a probe)
`evalarg0` -> 0 | 1   (C12's switch `Gen.Route.evaluatesArg0ns`, generated from router.py)
-/
open Txdbus.BusRoute
open Txdbus.Route (Str Arg RuleArgs)

namespace Driver.C14

def optName (t : String) : Option Name :=
  if t == "~" then none else if t == "-" then some [] else some t.toList

def name! (t : String) : Name := if t == "-" then [] else t.toList

def optNat? (t : String) : Option (Option Nat) :=
  if t == "~" then some none else t.toNat?.map some

def showName (n : Name) : String := if n.isEmpty then "-" else String.ofList n
def showOpt : Option Name → String
  | none => "~"
  | some n => showName n
def showOptNat : Option Nat → String
  | none => "~"
  | some n => toString n

def mtypeOf? : String → Option MType
  | "1" => some .call | "2" => some .ret | "3" => some .err | "4" => some .sig | _ => none
def mtypeNum : MType → String
  | .call => "1" | .ret => "2" | .err => "3" | .sig => "4"

/-! tokens shared with the C12 driver: optional strings in hex, pair lists, rules, bodies -/

def optStr? (t : String) : Option (Option Str) :=
  if t == "~" then some none else (Driver.hexToChars? t).map some

def showOptStr : Option Str → String
  | none => "~"
  | some s => Driver.charsToHex s

def pair? (t : String) : Option (Nat × Str) :=
  match t.splitOn ":" with
  | [i, s] => do
    let n ← i.toNat?
    let cs ← Driver.hexToChars? s
    pure (n, cs)
  | _ => none

def pairs? (t : String) : Option (Option (List (Nat × Str))) :=
  if t == "~" then some none
  else if t == "." then some (some [])
  else ((t.splitOn ",").mapM pair?).map some

def showPairs : Option (List (Nat × Str)) → String
  | none => "~"
  | some [] => "."
  | some l => ",".intercalate (l.map fun iv => toString iv.1 ++ ":" ++ Driver.charsToHex iv.2)

def rule? : List String → Option (RuleArgs × List String)
  | t :: s :: i :: m :: p :: n :: d :: a :: q :: z :: rest => do
    let mtype ← optStr? t
    let sender ← optStr? s
    let iface ← optStr? i
    let member ← optStr? m
    let path ← optStr? p
    let pathNs ← optStr? n
    let dest ← optStr? d
    let args ← pairs? a
    let argPaths ← pairs? q
    let arg0ns ← optStr? z
    pure ({ mtype, sender, iface, member, path, pathNs, dest, args, argPaths, arg0ns }, rest)
  | _ => none

def showRule (a : RuleArgs) : String :=
  "/".intercalate [showOptStr a.mtype, showOptStr a.sender, showOptStr a.iface, showOptStr a.member,
    showOptStr a.path, showOptStr a.pathNs, showOptStr a.dest, showPairs a.args, showPairs a.argPaths,
    showOptStr a.arg0ns]

def arg? (t : String) : Option Arg :=
  if t == "o" then some .other
  else if t.startsWith "s" then (Driver.hexToChars? (t.drop 1).toString).map .str
  else none

def body? (t : String) : Option (Option (List Arg)) :=
  if t == "~" then some none
  else if t == "." then some (some [])
  else ((t.splitOn ",").mapM arg?).map some

def parseEffects : Nat → List String → Option (List Effect × List String)
  | 0, ts => some ([], ts)
  | k + 1, "own" :: n :: j :: ts => do
      let j ← j.toNat?
      let (es, r) ← parseEffects k ts
      pure (.setOwner (name! n) j :: es, r)
  | k + 1, "unown" :: n :: ts => do
      let (es, r) ← parseEffects k ts
      pure (.unsetOwner (name! n) :: es, r)
  | k + 1, "sig" :: j :: mem :: body :: args :: ts => do
      let j ← j.toNat?
      let args ← body? args
      let (es, r) ← parseEffects k ts
      pure (.signalTo j (name! mem) (name! body) args :: es, r)
  | k + 1, "bcast" :: mem :: body :: args :: ts => do
      let args ← body? args
      let (es, r) ← parseEffects k ts
      pure (.broadcast (name! mem) (name! body) args :: es, r)
  | _, _ => none

def parseOp : List String → Option (BusOp FullRule)
  | ["always"] => some .always
  | "addmatch" :: ts => do
      let (a, rest) ← rule? ts
      if rest.isEmpty then pure (.addMatch a) else none
  | "exec" :: k :: ts => do
      let k ← k.toNat?
      let (es, r) ← parseEffects k ts
      if r.isEmpty then pure (.exec es) else none
  | _ => none

def parseEvent : List String → Option (Event FullRule)
  | ["connect"] => some .connect
  | "msg" :: i :: ty :: serial :: flags :: path :: iface :: member :: err :: rs :: dest :: sender :: extra :: body :: args :: op => do
      let i ← i.toNat?
      let args ← body? args
      let ty ← mtypeOf? ty
      let serial ← serial.toNat?
      let flags ← flags.toNat?
      let rs ← optNat? rs
      let op ← parseOp op
      pure (.msg i { mtype := ty, serial := serial, noReply := flags % 2 == 1, noAutoStart := flags / 2 % 2 == 1,
                     otherFlags := flags - flags % 4, extra := name! extra,
                     path := optName path, iface := optName iface, member := optName member,
                     errorName := optName err, replySerial := rs, dest := optName dest,
                     sender := optName sender, body := name! body, args := args } op)
  | "disc" :: i :: k :: ts => do
      let i ← i.toNat?
      let k ← k.toNat?
      let (es, r) ← parseEffects k ts
      if r.isEmpty then pure (.disconnect i es) else none
  | _ => none

def showPayload : Payload → String
  | .fwd _ m =>
      let flags := (if m.noReply then 1 else 0) + (if m.noAutoStart then 2 else 0) + m.otherFlags
      s!"F {mtypeNum m.mtype} {m.serial} {flags} {showOpt m.path} {showOpt m.iface} {showOpt m.member} {showOpt m.errorName} {showOptNat m.replySerial} {showOpt m.dest} {showOpt m.sender} {showName m.extra} {showName m.body}"
  | .helloReply serial nm => s!"H {serial} {showName nm}"
  | .busReply serial d => s!"R {serial} {showName d}"
  | .busSignal m => s!"S {showOpt m.path} {showOpt m.iface} {showOpt m.member} {showOpt m.dest} {showName m.body}"

def showOut (o : Out) : String :=
  let named := match o.named with
    | some (i, n) => s!"{i}:{showName n}"
    | none => "~"
  let ds := o.deliveries.map (fun d => s!" ; {d.to} {showPayload d.what}")
  s!"named={named} lose={if o.lose then 1 else 0} n={o.deliveries.length}" ++ String.join ds

structure St where
  cfg : Cfg FullRule := fullGen
  s : State FullRule := {}

/-- The operation the model runs (`textOp`, Bus/RouteFull.lean: the registration follows the model's reading of the
rule text in the call) and the `rule=` suffix. -/
def modelOp (m : Msg) (op : BusOp FullRule) : BusOp FullRule × String :=
  let op' := textOp m op
  let suffix :=
    match op, op' with
    | _, .addMatch a => " rule=" ++ showRule a
    | .addMatch _, _ => " rule=valueerror"
    | _, _ => ""
  (op', suffix)

def viewMsg? : List String → Option Msg
  | [ty, path, iface, member, dest, sender, args] => do
      let ty ← mtypeOf? ty
      let args ← body? args
      pure { mtype := ty, serial := 0, noReply := false, noAutoStart := false, otherFlags := 0, extra := [],
             path := optName path, iface := optName iface, member := optName member, errorName := none,
             replySerial := none, dest := optName dest, sender := optName sender, body := [], args := args }
  | _ => none

def stepLine (st : St) (line : String) : St × String :=
  match Driver.words line with
  | ["reset"] => ({}, "ok")
  | ["reset", "orig"] => ({ cfg := fullOriginalGen }, "ok")
  | ["evalarg0"] => (st, if Txdbus.Gen.Route.evaluatesArg0ns then "1" else "0")
  | "ruleholds" :: ts =>
    match rule? ts with
    | none => (st, "error:parse")
    | some (a, rest) =>
      match viewMsg? rest with
      | none => (st, "error:parse")
      | some m =>
        match Txdbus.Route.mkRule Txdbus.Route.Tables.gen a with
        | .error _ => (st, "error:mkrule")
        | .ok _ => (st, if fullGen.holds a m then "1" else "0")
  | ws =>
    match parseEvent ws with
    | none => (st, "error:parse")
    | some .connect =>
        let (s', _) := step st.cfg st.s .connect
        ({ st with s := s' }, s!"ok {st.s.conns.length}")
    | some (.msg i m op) =>
        let (op', suffix) := modelOp m op
        match op' with
        | .addMatch a =>
          match Txdbus.Route.mkRule Txdbus.Route.Tables.gen a with
          | .error _ => (st, "error:mkrule")      -- a parameter name of addMatch the model does not know
          | .ok _ =>
            let (s', o) := step st.cfg st.s (.msg i m op')
            ({ st with s := s' }, showOut o ++ suffix)
        | _ =>
          let (s', o) := step st.cfg st.s (.msg i m op')
          ({ st with s := s' }, showOut o ++ suffix)
    | some e =>
        let (s', o) := step st.cfg st.s e
        ({ st with s := s' }, showOut o)

end Driver.C14

def main : IO Unit := Driver.run Driver.C14.stepLine {}
