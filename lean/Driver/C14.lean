import Driver.Common
import TxdbusModel.Bus.Route
/-!
Driver for property C14: the routing model of the built-in bus, one event per line.

Tokens: `~` = None, `-` = the empty string, anything else = the string itself (the harness only
uses names without white space).

  reset [orig]                         -> ok           (orig: the model of the code before F21/F22)
  connect                              -> ok <id>
  msg <i> <type 1-4> <serial> <flags> <path> <iface> <member> <error_name> <reply_serial> <dest>
      <sender> <extra> <body> OP            (flags = the whole flags byte; extra = token for unknown header fields)               -> OUT
        OP = always | addmatch <type 1-4|~> <sender> <iface> <member> <path> <destination> | exec <k> EFF*k
  disc <i> <k> EFF*k                   -> OUT
        EFF = own <name> <j> | unown <name> | sig <j> <member> <body> | bcast <member> <body>

  OUT = named=<i>:<name>|~ lose=<0|1> n=<k> ; <to> <payload> ; ...
        payload = F type serial flags path iface member error_name reply_serial dest sender extra body
                | H reply_serial name | R reply_serial dest | S path iface member dest body
-/
open Txdbus.BusRoute

namespace Driver.C14

def optName (t : String) : Option Name :=
  if t == "~" then none else if t == "-" then some [] else some t.toList

def name! (t : String) : Name := if t == "-" then [] else t.toList

def optNat? (t : String) : Option (Option Nat) :=
  if t == "~" then some none else t.toNat?.map some

def showName (n : Name) : String := if n.isEmpty then "-" else String.ofList n
def showOpt : Option Name → String
  | none => "~"
  | some n => showName n
def showOptNat : Option Nat → String
  | none => "~"
  | some n => toString n

def mtypeOf? : String → Option MType
  | "1" => some .call | "2" => some .ret | "3" => some .err | "4" => some .sig | _ => none
def mtypeNum : MType → String
  | .call => "1" | .ret => "2" | .err => "3" | .sig => "4"

def parseEffects : Nat → List String → Option (List Effect × List String)
  | 0, ts => some ([], ts)
  | k + 1, "own" :: n :: j :: ts => do
      let j ← j.toNat?
      let (es, r) ← parseEffects k ts
      pure (.setOwner (name! n) j :: es, r)
  | k + 1, "unown" :: n :: ts => do
      let (es, r) ← parseEffects k ts
      pure (.unsetOwner (name! n) :: es, r)
  | k + 1, "sig" :: j :: mem :: body :: ts => do
      let j ← j.toNat?
      let (es, r) ← parseEffects k ts
      pure (.signalTo j (name! mem) (name! body) :: es, r)
  | k + 1, "bcast" :: mem :: body :: ts => do
      let (es, r) ← parseEffects k ts
      pure (.broadcast (name! mem) (name! body) :: es, r)
  | _, _ => none

def parseOp : List String → Option (BusOp SimpleRule)
  | ["always"] => some .always
  | ["addmatch", t, snd, i, m, p, d] =>
      if t == "~" then
        some (.addMatch { sender := optName snd, iface := optName i, member := optName m, path := optName p,
                          destination := optName d })
      else do
        let t ← mtypeOf? t
        pure (.addMatch { mtype := some t, sender := optName snd, iface := optName i, member := optName m,
                          path := optName p, destination := optName d })
  | "exec" :: k :: ts => do
      let k ← k.toNat?
      let (es, r) ← parseEffects k ts
      if r.isEmpty then pure (.exec es) else none
  | _ => none

def parseEvent : List String → Option (Event SimpleRule)
  | ["connect"] => some .connect
  | "msg" :: i :: ty :: serial :: flags :: path :: iface :: member :: err :: rs :: dest :: sender :: extra :: body :: op => do
      let i ← i.toNat?
      let ty ← mtypeOf? ty
      let serial ← serial.toNat?
      let flags ← flags.toNat?
      let rs ← optNat? rs
      let op ← parseOp op
      pure (.msg i { mtype := ty, serial := serial, noReply := flags % 2 == 1, noAutoStart := flags / 2 % 2 == 1,
                     otherFlags := flags - flags % 4, extra := name! extra,
                     path := optName path, iface := optName iface, member := optName member,
                     errorName := optName err, replySerial := rs, dest := optName dest,
                     sender := optName sender, body := name! body } op)
  | "disc" :: i :: k :: ts => do
      let i ← i.toNat?
      let k ← k.toNat?
      let (es, r) ← parseEffects k ts
      if r.isEmpty then pure (.disconnect i es) else none
  | _ => none

def showPayload : Payload → String
  | .fwd _ m =>
      let flags := (if m.noReply then 1 else 0) + (if m.noAutoStart then 2 else 0) + m.otherFlags
      s!"F {mtypeNum m.mtype} {m.serial} {flags} {showOpt m.path} {showOpt m.iface} {showOpt m.member} {showOpt m.errorName} {showOptNat m.replySerial} {showOpt m.dest} {showOpt m.sender} {showName m.extra} {showName m.body}"
  | .helloReply serial nm => s!"H {serial} {showName nm}"
  | .busReply serial d => s!"R {serial} {showName d}"
  | .busSignal m => s!"S {showOpt m.path} {showOpt m.iface} {showOpt m.member} {showOpt m.dest} {showName m.body}"

def showOut (o : Out) : String :=
  let named := match o.named with
    | some (i, n) => s!"{i}:{showName n}"
    | none => "~"
  let ds := o.deliveries.map (fun d => s!" ; {d.to} {showPayload d.what}")
  s!"named={named} lose={if o.lose then 1 else 0} n={o.deliveries.length}" ++ String.join ds

structure St where
  cfg : Cfg SimpleRule := repaired
  s : State SimpleRule := {}

def stepLine (st : St) (line : String) : St × String :=
  match Driver.words line with
  | ["reset"] => ({}, "ok")
  | ["reset", "orig"] => ({ cfg := original }, "ok")
  | ws =>
    match parseEvent ws with
    | none => (st, "error:parse")
    | some .connect =>
        let (s', _) := step st.cfg st.s .connect
        ({ st with s := s' }, s!"ok {st.s.conns.length}")
    | some e =>
        let (s', o) := step st.cfg st.s e
        ({ st with s := s' }, showOut o)

end Driver.C14

def main : IO Unit := Driver.run Driver.C14.stepLine {}
