import Driver.WireOps
/-! Driver for property C02 (wire format): the operations of Driver/WireOps.lean. -/
def main : IO Unit := Driver.run (fun (s : Unit) line => (s, Driver.wireStep line)) ()
