import Driver.Common
import TxdbusModel.Wire.PyVal
/-
One-line prefix syntax for `Txdbus.PyVal` (Python values), shared by the drivers that exchange
Python values with the harness (C01, C02, C03, C05, C10, C19).  Python side: harness/valcodec.py
(same syntax, documented there too).  Tokens are separated by single spaces.

  N                             None
  T | F                         True | False
  i <dec>                       plain int (decimal, optional leading '-', unbounded)
  Iy|Ib|In|Iq|Ii|Iu|Ix|It <dec> Byte|Boolean|Int16|UInt16|Int32|UInt32|Int64|UInt64 wrapper instance
  d <16 hex digits>             float: IEEE-754 binary64 bit pattern, most significant digit first
                                (= struct.pack('>d', x).hex())
  s <strhex>                    plain str; strhex = 6 hex digits per code point, "-" for the empty string
  Sg <strhex> | So <strhex>     Signature | ObjectPath wrapper instance
  B <byteshex>                  bytearray; 2 hex digits per byte, "-" for empty
  L <n> v1 … vn                 list of n values
  U <n> v1 … vn                 tuple of n values
  D <n> k1 v1 … kn vn           dict with n items in iteration order
  O <cls> <sig> <n> f1 … fn     object of user class number <cls> with `dbusOrder`; f1…fn are the attribute
                                values in dbusOrder order; <sig> is the strhex of its `dbusSignature`
                                attribute or "~" if it has none
  X <cls>                       object of unsupported class number <cls> (valcodec.py: 0 bytes, 1 ellipsis, …)

`parseVal : List String → Option (PyVal × List String)` consumes one value from a token list;
`printVal : PyVal → String` prints the same syntax (`parseVal (words (printVal v)) = some (v, [])`).
Core Lean only; no `partial` (the parser carries a step budget derived from the token count).
-/
namespace Driver
open Txdbus

def intClsTag : IntCls → String
  | .plain => "i" | .byte => "Iy" | .boolean => "Ib" | .int16 => "In" | .uint16 => "Iq"
  | .int32 => "Ii" | .uint32 => "Iu" | .int64 => "Ix" | .uint64 => "It"

def intClsOfTag? : String → Option IntCls
  | "i" => some .plain | "Iy" => some .byte | "Ib" => some .boolean | "In" => some .int16
  | "Iq" => some .uint16 | "Ii" => some .int32 | "Iu" => some .uint32 | "Ix" => some .int64
  | "It" => some .uint64 | _ => none

def strClsTag : StrCls → String
  | .plain => "s" | .signature => "Sg" | .objectPath => "So"

def strClsOfTag? : String → Option StrCls
  | "s" => some .plain | "Sg" => some .signature | "So" => some .objectPath | _ => none

/-- 16 hex digits -> the 64-bit pattern. -/
def hexToU64? (s : String) : Option UInt64 :=
  let cs := s.toList
  if cs.length ≠ 16 then none else do
    let ds ← cs.mapM hexDigit?
    pure (UInt64.ofNat (ds.foldl (fun acc x => acc * 16 + x) 0))

def u64ToHex (w : UInt64) : String :=
  let n := w.toNat
  String.ofList ((List.range 16).map fun i => nibble (n / 16 ^ (15 - i) % 16))

def parseNat? (s : String) : Option Nat := s.toNat?
def parseInt? (s : String) : Option Int := s.toInt?

mutual
/-- One value from the front of the token list (first argument: step budget). -/
def parseValF : Nat → List String → Option (PyVal × List String)
  | 0, _ => none
  | _ + 1, [] => none
  | fuel + 1, tok :: rest =>
    match tok with
    | "N" => some (.none, rest)
    | "T" => some (.bool true, rest)
    | "F" => some (.bool false, rest)
    | "d" =>
      match rest with
      | h :: rest => (hexToU64? h).map fun w => (.float w, rest)
      | [] => none
    | "B" =>
      match rest with
      | h :: rest => (hexToBytes? h).map fun bs => (.bytearray bs, rest)
      | [] => none
    | "L" =>
      match rest with
      | n :: rest => do
        let n ← parseNat? n
        let (xs, rest) ← parseValsF fuel n rest
        pure (.list xs, rest)
      | [] => none
    | "U" =>
      match rest with
      | n :: rest => do
        let n ← parseNat? n
        let (xs, rest) ← parseValsF fuel n rest
        pure (.tuple xs, rest)
      | [] => none
    | "D" =>
      match rest with
      | n :: rest => do
        let n ← parseNat? n
        let (kvs, rest) ← parsePairsF fuel n rest
        pure (.dict kvs, rest)
      | [] => none
    | "O" =>
      match rest with
      | c :: sg :: n :: rest => do
        let c ← parseNat? c
        let sg ← (if sg == "~" then some Option.none else (hexToChars? sg).map some)
        let n ← parseNat? n
        let (xs, rest) ← parseValsF fuel n rest
        pure (.obj c sg xs, rest)
      | _ => none
    | "X" =>
      match rest with
      | c :: rest => (parseNat? c).map fun c => (.other c, rest)
      | [] => none
    | t =>
      match intClsOfTag? t, strClsOfTag? t, rest with
      | some c, _, n :: rest => (parseInt? n).map fun n => (.int c n, rest)
      | _, some c, h :: rest => (hexToChars? h).map fun s => (.str c s, rest)
      | _, _, _ => none
def parseValsF : Nat → Nat → List String → Option (List PyVal × List String)
  | _, 0, toks => some ([], toks)
  | 0, _ + 1, _ => none
  | fuel + 1, n + 1, toks => do
    let (x, rest) ← parseValF fuel toks
    let (xs, rest) ← parseValsF fuel n rest
    pure (x :: xs, rest)
def parsePairsF : Nat → Nat → List String → Option (List (PyVal × PyVal) × List String)
  | _, 0, toks => some ([], toks)
  | 0, _ + 1, _ => none
  | fuel + 1, n + 1, toks => do
    let (k, rest) ← parseValF fuel toks
    let (v, rest) ← parseValF fuel rest
    let (kvs, rest) ← parsePairsF fuel n rest
    pure ((k, v) :: kvs, rest)
end

/-- Parse one value from the front of a token list; returns the value and the unread tokens. -/
def parseVal (toks : List String) : Option (PyVal × List String) :=
  parseValF (2 * toks.length + 2) toks

/-- Parse `n` values. -/
def parseVals (n : Nat) (toks : List String) : Option (List PyVal × List String) :=
  parseValsF (2 * toks.length + 2) n toks

/-- Parse a whole line holding exactly one value. -/
def parseValLine (line : String) : Option PyVal :=
  match parseVal (words line) with
  | some (v, []) => some v
  | _ => none

mutual
def printVal : PyVal → String
  | .none => "N"
  | .bool true => "T"
  | .bool false => "F"
  | .int c n => intClsTag c ++ " " ++ toString n
  | .float w => "d " ++ u64ToHex w
  | .str c s => strClsTag c ++ " " ++ charsToHex s
  | .bytearray bs => "B " ++ bytesToHex bs
  | .list xs => "L " ++ toString xs.length ++ printVals xs
  | .tuple xs => "U " ++ toString xs.length ++ printVals xs
  | .dict kvs => "D " ++ toString kvs.length ++ printPairs kvs
  | .obj c sg xs =>
    "O " ++ toString c ++ " " ++ (match sg with | some s => charsToHex s | Option.none => "~") ++ " " ++
      toString xs.length ++ printVals xs
  | .other c => "X " ++ toString c
/-- Each value preceded by a space. -/
def printVals : List PyVal → String
  | [] => ""
  | x :: xs => " " ++ printVal x ++ printVals xs
def printPairs : List (PyVal × PyVal) → String
  | [] => ""
  | (k, v) :: kvs => " " ++ printVal k ++ " " ++ printVal v ++ printPairs kvs
end

/-- Error kinds as the names the harness uses when canonicalising Python exceptions. -/
def pyErrName : PyErr → String
  | .marshalling => "MarshallingError" | .struct => "struct.error" | .type => "TypeError"
  | .value => "ValueError" | .index => "IndexError" | .key => "KeyError"
  | .attribute => "AttributeError" | .unicode => "UnicodeError" | .runtime => "RuntimeError"
  | .stopIteration => "StopIteration" | .recursion => "RecursionError" | .other => "Exception"

end Driver
