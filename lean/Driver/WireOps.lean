import Driver.Common
import Driver.Val
import TxdbusModel.Wire.Code
import TxdbusModel.Wire.Spec
import TxdbusModel.Wire.ToSpec
import TxdbusModel.Wire.Cost
/-!
Line protocol shared by the drivers of C01 and C02 (wire codec).  One operation per line:

  marshal <sig> <start> <L|B> <fds> <values>     Code.marshal: `fds` and `values` are values in the syntax of
                                                 Driver/Val.lean (`N` = None or `L n …` for oobFDs)
        -> `ok <nbytes> <byteshex> <fds after>` | `err <ExceptionName>`
  unmarshal <sig> <offset> <L|B> <datahex> <fds> Code.unmarshal at the fuel `Cost.codeFuel sig data offset` = |sig| + (|data| - offset) + 1,
                                                 computed from the arguments: the fuel of `C01_roundtrip_fuel_free` /
                                                 `C02_decode_fuel_free`, at which the model never answers RecursionError
                                                 (`C02_unmarshal_fuel_canonical`; CPython's own recursion limit is not modelled)
        -> `ok <nbytes> <value (a list)>` | `err <ExceptionName>`
  specenc <sig> <start> <L|B> <values>           Spec.encodeAll on the spec value that the Python values denote, found by
                                                 `Code.toSpecTop` (sound w.r.t. `Code.Conf`: Proofs/Wire/ToSpecSound) after
                                                 `Code.keysOKCheck`: an `ok` certifies that the case satisfies the hypotheses of
                                                 `C01_roundtrip_checked` / `C02_encode_checked`
        -> `ok <byteshex>` | `none <not-conforming|keys|limits|signature>`
  specdec <sig> <offset> <L|B> <datahex>         Spec.decode, printed as the Python value unmarshal should give
        -> `ok <nbytes> <value (a list)>` | `none`
  padlen <code> <offset>                         -> `ok <n>` | `err <ExceptionName>`   (Code.padLenOf)
  specpad <code> <offset>                        -> `ok <n>`                              (Spec alignment rule)

<sig> is a strhex (6 hex digits per code point, "-" = empty).
-/
namespace Driver
open Txdbus

/-- Step budget of the per-type calls of `marshal` (Python's recursion limit plays this role).  The encoder has no bound
computable from its arguments alone (the nesting of a variant's content is not in the signature; there is no cost model
of `marshal`): `C02_encode_fuel_free` needs `|sig| + |bytes produced|`, `C02_encode_noVariant_fuel_free` the nesting depth
of the signature (at most 65 for a valid one).  The generators nest at most 32 + 32 + a few variants deep. -/
def wireFuel : Nat := 300

/-- Step budget of `unmarshal`: the bound of the fuel-free theorems, a function of the lengths of signature and data. -/
def unmarshalFuel (sig : List Char) (data : Bytes) (off : Nat) : Nat := Cost.codeFuel sig data off

def parseEndian? : String → Option Bool
  | "L" => some true
  | "B" => some false
  | _ => none

def fdsOfVal? : PyVal → Option Code.Fds
  | .none => some Option.none
  | .list xs => some (some xs)
  | _ => Option.none

def fdsToVal : Code.Fds → PyVal
  | Option.none => .none
  | some xs => .list xs

/-- Step budget of `Code.toSpecTop` (one step per nesting level and per list element). -/
def toSpecFuel : Nat := 200000

/-! Spec values -> the Python value `unmarshal` is expected to return (descriptors stay indices). -/

def dictOfEntries (kvs : List (PyVal × PyVal)) : PyVal := .dict kvs

mutual
def fromSpecF : Nat → Ty → Val → Option PyVal
  | 0, _, _ => Option.none
  | fuel + 1, t, v =>
    match t, v with
    | .basic .s, .str bs => (utf8Decode bs).map (.str .plain)
    | .basic .o, .str bs => (utf8Decode bs).map (.str .plain)
    | .basic .g, .str bs => (asciiDecode bs).map (.str .plain)
    | .basic _, .int n => some (.int .plain n)
    | .basic _, .bool b => some (.bool b)
    | .basic _, .double bits => some (.float bits)
    | .variant, .variant t' v' => fromSpecF fuel t' v'
    | .array (.dict kt vt), .array vs =>
      (fromSpecPairsF fuel kt vt vs).map .dict
    | .array el, .array vs => (fromSpecListF fuel el vs).map .list
    | .struct fs, .struct vs => (fromSpecFieldsF fuel fs vs).map .list
    | .dict kt vt, .entry k v' =>
      match fromSpecF fuel kt k, fromSpecF fuel vt v' with
      | some a, some b => some (.list [a, b])
      | _, _ => Option.none
    | _, _ => Option.none
def fromSpecListF : Nat → Ty → List Val → Option (List PyVal)
  | 0, _, _ => Option.none
  | _ + 1, _, [] => some []
  | fuel + 1, el, v :: vs =>
    match fromSpecF fuel el v, fromSpecListF fuel el vs with
    | some a, some r => some (a :: r)
    | _, _ => Option.none
def fromSpecPairsF : Nat → Ty → Ty → List Val → Option (List (PyVal × PyVal))
  | 0, _, _, _ => Option.none
  | _ + 1, _, _, [] => some []
  | fuel + 1, kt, vt, .entry k v :: vs =>
    match fromSpecF fuel kt k, fromSpecF fuel vt v, fromSpecPairsF fuel kt vt vs with
    | some a, some b, some r => some ((a, b) :: r)
    | _, _, _ => Option.none
  | _ + 1, _, _, _ => Option.none
def fromSpecFieldsF : Nat → List Ty → List Val → Option (List PyVal)
  | 0, _, _ => Option.none
  | _ + 1, [], [] => some []
  | fuel + 1, t :: ts, v :: vs =>
    match fromSpecF fuel t v, fromSpecFieldsF fuel ts vs with
    | some a, some r => some (a :: r)
    | _, _ => Option.none
  | _ + 1, _, _ => Option.none
end

def endianOf (le : Bool) : Endian := if le then .little else .big

def wireStep (line : String) : String :=
  match words line with
  | "marshal" :: sg :: start :: en :: rest =>
    match hexToChars? sg, start.toNat?, parseEndian? en, parseVals 2 rest with
    | some sig, some start, some le, some ([fdsv, vals], []) =>
      match fdsOfVal? fdsv with
      | some fds =>
        match Code.marshal wireFuel sig vals start le fds with
        | .ok (n, bs, fds') => "ok " ++ toString n ++ " " ++ bytesToHex bs ++ " " ++ printVal (fdsToVal fds')
        | .error e => "err " ++ pyErrName e
      | Option.none => "bad-input"
    | _, _, _, _ => "bad-input"
  | "unmarshal" :: sg :: off :: en :: data :: rest =>
    match hexToChars? sg, off.toNat?, parseEndian? en, hexToBytes? data, parseVals 1 rest with
    | some sig, some off, some le, some data, some ([fdsv], []) =>
      match fdsOfVal? fdsv with
      | some fds =>
        match Code.unmarshal (unmarshalFuel sig data off) sig data off le fds with
        | .ok (n, vs) => "ok " ++ toString n ++ " " ++ printVal (.list vs)
        | .error e => "err " ++ pyErrName e
      | Option.none => "bad-input"
    | _, _, _, _, _ => "bad-input"
  | "specenc" :: sg :: start :: en :: rest =>
    match hexToChars? sg, start.toNat?, parseEndian? en, parseVals 1 rest with
    | some sig, some start, some le, some ([vals], []) =>
      match parseSig sig with
      | some ts =>
        -- `Code.toSpecTop` + `Code.keysOKCheck`: the executable hypotheses of C01_roundtrip_checked / C02_encode_checked
        match Code.toSpecTop toSpecFuel ts vals with
        | some (vs, _) =>
          if Code.keysOKCheck vals then
            match Spec.encodeAll Spec.alignTable (endianOf le) ts vs start with
            | some bs => "ok " ++ bytesToHex bs
            | Option.none => "none limits"
          else "none keys"
        | Option.none => "none not-conforming"
      | Option.none => "none signature"
    | _, _, _, _ => "bad-input"
  | ["specdec", sg, off, en, data] =>
    match hexToChars? sg, off.toNat?, parseEndian? en, hexToBytes? data with
    | some sig, some off, some le, some data =>
      match parseSig sig with
      | some ts =>
        match Spec.decode Spec.alignTable (endianOf le) ts data off with
        | some (vs, n) =>
          match fromSpecFieldsF 1000 ts vs with
          | some pvs => "ok " ++ toString n ++ " " ++ printVal (.list pvs)
          | Option.none => "none"
        | Option.none => "none"
      | Option.none => "none"
    | _, _, _, _ => "bad-input"
  | ["padlen", code, off] =>
    match hexToChars? code, off.toNat? with
    | some [c], some off =>
      match Code.padLenOf c off with
      | .ok n => "ok " ++ toString n
      | .error e => "err " ++ pyErrName e
    | _, _ => "bad-input"
  | ["specpad", code, off] =>
    match hexToChars? code, off.toNat? with
    | some [c], some off => "ok " ++ toString (padLen (Spec.alignTable c) off)
    | _, _ => "bad-input"
  | _ => "bad-input"

end Driver
