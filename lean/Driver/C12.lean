import Driver.Common
import TxdbusModel.Route.Spec
import TxdbusModel.Route.Rule
import TxdbusModel.Route.Router
import TxdbusModel.Route.Text
import TxdbusModel.Route.Client
import TxdbusModel.Route.Daemon
import TxdbusModel.Route.Proxy
/-!
Driver for property C12: line protocol over the match-rule models.

Tokens
  optional string   `~` = None, `-` = '', otherwise 6 hex digits per code point
  pair list         `~` = None, `.` = [], otherwise `idx:str,idx:str`
  rule              10 tokens: mtype sender interface member path path_namespace destination args arg_paths arg0namespace
  attribute         `!` = attribute missing, `~` = None, otherwise a string
  body              `~` = None, `.` = [], otherwise `,`-separated: `s<str>` (a str) or `o` (anything else)
  message           7 tokens: mtype path interface member destination sender body
  raises            `.` or `,`-separated callback numbers that raise when invoked

Lines (one output line each)
  match <rule> <msg>            -> skip | err | call | addfailed          (code model, current tables; Rule.matchGen:
                                                                           with or without the arg0namespace clause, as probed)
  spec <rule> <msg>             -> 0 | 1                                  (Spec.specMatchesFull: all keys, arg0namespace included)
  mkrule <rule>                 -> simple=<k>:<v>;... attrs=<k>:<v>;...   (stored Rule)
  reset                         -> ok                                     (fresh MessageRouter and client)
  add <cb> <rule>               -> id <n> | addfailed
  del <id>                      -> ok | keyerror
  route <raises> <msg>          -> inv=<id>:<cb>,... log=<n>
  cadd <cb> <rule>              -> sentadd <text>
  cdel <id>                     -> sentremove <text> | keyerror
  cok <k> / cerr <k>            -> adddone <id> | addfailed | deldone | delfailed | failed | ignored
  csig <raises> <msg>           -> inv=... log=<n>
  render <rule>                 -> <text>
  parse <text>                  -> ok <rule> | valueerror | outofdomain
  gate <declared> <received> <body>   -> none | call <body>
  preset                        -> ok                                     (fresh proxy: selections, _signalRules)
  select <name> <interface> <ifaces>  -> none | <iface> <declared>        (notifyOnSignal's interface selection; remembered)
       ifaces: `.` or `|`-separated `name:sigs`, sigs: `.` or `;`-separated `signal=declared`
  gatesel <i> <received> <body> -> none | call <body>                     (gate with the declaration of the i-th select)
  psub <id>                     -> ok                                     (on_ok: _signalRules.add)
  pcancel <id>                  -> del <id> | noop                        (cancelSignalNotification)
  meaning <text>                -> none | `;`-separated constraints       (Spec.ruleTextMeaning)
  mpreset                       -> ok                                     (fresh table of proxies, each with its own _signalRules)
  mpsub <proxy> <id>            -> ok                                     (on_ok of that proxy)
  mpcancel <proxy> <id>         -> del <id> | noop                        (cancelSignalNotification on that proxy)
  dreset                        -> ok                                     (fresh client + SPEC daemon, Route/Daemon.lean)
  dadd <cb> <rule>              -> sentadd <text>                         (the text also reaches the daemon)
  ddel <id>                     -> sentremove <text> | keyerror
  ddeliver <k>                  -> adddone <id> | addfailed | deldone | delfailed | failed | ignored
                                                                          (the daemon's reply to the k-th call reaches the client)
  dsig <raises> <msg>           -> notforwarded | inv=... log=<n>         (broadcast signal: daemon, then local router)
  dstate                        -> bus=<texts> local=<texts> pending=<n>  (`.` or `;`-separated hex texts, unsorted)
-/
open Txdbus.Route

namespace C12

def optStr? (t : String) : Option (Option Str) :=
  if t == "~" then some none else (Driver.hexToChars? t).map some

def showOptStr : Option Str → String
  | none => "~"
  | some s => Driver.charsToHex s

def pair? (t : String) : Option (Nat × Str) :=
  match t.splitOn ":" with
  | [i, s] => do
    let n ← i.toNat?
    let cs ← Driver.hexToChars? s
    pure (n, cs)
  | _ => none

def pairs? (t : String) : Option (Option (List (Nat × Str))) :=
  if t == "~" then some none
  else if t == "." then some (some [])
  else ((t.splitOn ",").mapM pair?).map some

def showPairs : Option (List (Nat × Str)) → String
  | none => "~"
  | some [] => "."
  | some l => ",".intercalate (l.map fun iv => toString iv.1 ++ ":" ++ Driver.charsToHex iv.2)

def rule? : List String → Option (RuleArgs × List String)
  | t :: s :: i :: m :: p :: n :: d :: a :: q :: z :: rest => do
    let mtype ← optStr? t
    let sender ← optStr? s
    let iface ← optStr? i
    let member ← optStr? m
    let path ← optStr? p
    let pathNs ← optStr? n
    let dest ← optStr? d
    let args ← pairs? a
    let argPaths ← pairs? q
    let arg0ns ← optStr? z
    pure ({ mtype, sender, iface, member, path, pathNs, dest, args, argPaths, arg0ns }, rest)
  | _ => none

def showRule (a : RuleArgs) : String :=
  " ".intercalate [showOptStr a.mtype, showOptStr a.sender, showOptStr a.iface, showOptStr a.member,
    showOptStr a.path, showOptStr a.pathNs, showOptStr a.dest, showPairs a.args, showPairs a.argPaths,
    showOptStr a.arg0ns]

def attr? (t : String) : Option Attr :=
  if t == "!" then some .missing
  else if t == "~" then some .none
  else (Driver.hexToChars? t).map .some

def arg? (t : String) : Option Arg :=
  if t == "o" then some .other
  else if t.startsWith "s" then (Driver.hexToChars? (t.drop 1).toString).map .str
  else none

def showArg : Arg → String
  | .other => "o"
  | .str s => "s" ++ Driver.charsToHex s

def body? (t : String) : Option (Option (List Arg)) :=
  if t == "~" then some none
  else if t == "." then some (some [])
  else ((t.splitOn ",").mapM arg?).map some

def showBody (l : List Arg) : String :=
  if l.isEmpty then "." else ",".intercalate (l.map showArg)

def msg? : List String → Option (Msg × List String)
  | t :: p :: i :: m :: d :: s :: b :: rest => do
    let mtype ← t.toNat?
    let path ← attr? p
    let iface ← attr? i
    let member ← attr? m
    let dest ← attr? d
    let sender ← attr? s
    let body ← body? b
    pure ({ mtype, path, iface, member, dest, sender, body }, rest)
  | _ => none

def raises? (t : String) : Option (Nat → Cb → Bool) :=
  if t == "." then some (fun _ _ => false)
  else do
    let l ← (t.splitOn ",").mapM String.toNat?
    pure (fun _ cb => l.contains cb)

def showOutcome : Outcome → String
  | .skip => "skip" | .err => "err" | .call => "call"

def showRouted (r : Routed) : String :=
  "inv=" ++ (if r.invoked.isEmpty then "." else
    ",".intercalate (r.invoked.map fun ic => toString ic.1 ++ ":" ++ toString ic.2))
  ++ " log=" ++ toString r.logged

def showPyVal : PyVal → String
  | .none => "~"
  | .int n => "i" ++ toString n
  | .str s => "s" ++ Driver.charsToHex s
  | .pairs l => "p" ++ showPairs (some l)

def showKVs (l : List (Str × PyVal)) : String :=
  if l.isEmpty then "." else ";".intercalate (l.map fun kv => String.ofList kv.1 ++ ":" ++ showPyVal kv.2)

def sigs? (t : String) : Option (List (Str × Str)) :=
  if t == "." then some []
  else (t.splitOn ";").mapM fun kv =>
    match kv.splitOn "=" with
    | [k, v] => do
      let k ← Driver.hexToChars? k
      let v ← Driver.hexToChars? v
      pure (k, v)
    | _ => none

def ifaces? (t : String) : Option (List IfaceDecl) :=
  if t == "." then some []
  else (t.splitOn "|").mapM fun e =>
    match e.splitOn ":" with
    | [n, ss] => do
      let n ← Driver.hexToChars? n
      let ss ← sigs? ss
      pure { name := n, signals := ss }
    | _ => none

def showConstraint : Spec.Constraint → String
  | .mtype v => "type=" ++ Driver.charsToHex v
  | .sender v => "sender=" ++ Driver.charsToHex v
  | .iface v => "interface=" ++ Driver.charsToHex v
  | .member v => "member=" ++ Driver.charsToHex v
  | .path v => "path=" ++ Driver.charsToHex v
  | .pathNs v => "path_namespace=" ++ Driver.charsToHex v
  | .dest v => "destination=" ++ Driver.charsToHex v
  | .arg0ns v => "arg0namespace=" ++ Driver.charsToHex v
  | .arg i v => "arg" ++ toString i ++ "=" ++ Driver.charsToHex v
  | .argPath i v => "arg" ++ toString i ++ "path=" ++ Driver.charsToHex v

structure St where
  router : Router := {}
  client : Client := {}
  sels : List (Option (Str × Str)) := []
  subs : ProxySubs := {}
  sys : System := {}
  proxies : List ProxySubs := []

def T : Tables := Tables.gen

def showCObs : CObs → String
  | .sentAdd text => "sentadd " ++ Driver.charsToHex text
  | .sentRemove text => "sentremove " ++ Driver.charsToHex text
  | .keyError => "keyerror"
  | .addDone i => "adddone " ++ toString i
  | .addFailed => "addfailed"
  | .delDone => "deldone"
  | .delFailed => "delfailed"
  | .failed => "failed"
  | .ignored => "ignored"
  | .routed r => showRouted r

def showSObs : SObs → String
  | .client o => showCObs o
  | .notForwarded => "notforwarded"

def showTexts (l : List Str) : String :=
  if l.isEmpty then "." else ";".intercalate (l.map Driver.charsToHex)

def sysStep (st : St) (raises : Nat → Cb → Bool) (op : SOp) : St × String :=
  let so := st.sys.step T Spec.textIsRule raises op
  ({ st with sys := so.1 }, showSObs so.2)

def step (st : St) (line : String) : St × String :=
  match Driver.words line with
  | ["dreset"] => ({ st with sys := {} }, "ok")
  | ["mpreset"] => ({ st with proxies := [] }, "ok")
  | ["mpsub", p, id] =>
    match p.toNat?, id.toNat? with
    | some p, some id => ({ st with proxies := ProxyTable.onOk st.proxies p id }, "ok")
    | _, _ => (st, "badinput")
  | ["mpcancel", p, id] =>
    match p.toNat?, id.toNat? with
    | some p, some id =>
      match ProxyTable.cancel st.proxies p id with
      | (t, some i) => ({ st with proxies := t }, "del " ++ toString i)
      | (t, none) => ({ st with proxies := t }, "noop")
    | _, _ => (st, "badinput")
  | ["dstate"] =>
    (st, "bus=" ++ showTexts st.sys.daemon.rules ++ " local=" ++ showTexts st.sys.client.localTexts
      ++ " pending=" ++ toString (st.sys.client.calls.filter (fun p => p.isSome)).length)
  | "dadd" :: cb :: rest =>
    match cb.toNat?, rule? rest with
    | some cb, some (a, []) => sysStep st (fun _ _ => false) (.addMatch cb a)
    | _, _ => (st, "badinput")
  | ["ddel", id] =>
    match id.toNat? with
    | some id => sysStep st (fun _ _ => false) (.delMatch id)
    | none => (st, "badinput")
  | ["ddeliver", k] =>
    match k.toNat? with
    | some k => sysStep st (fun _ _ => false) (.deliver k)
    | none => (st, "badinput")
  | "dsig" :: rs :: rest =>
    match raises? rs, msg? rest with
    | some raises, some (m, []) => sysStep st raises (.signal m)
    | _, _ => (st, "badinput")
  | "match" :: rest =>
    match rule? rest with
    | some (a, rest) =>
      match msg? rest with
      | some (m, []) =>
        match mkRule T a with
        | .ok r => (st, showOutcome (r.matchGen m))
        | .error _ => (st, "addfailed")
      | _ => (st, "badinput")
    | none => (st, "badinput")
  | "spec" :: rest =>
    match rule? rest with
    | some (a, rest) =>
      match msg? rest with
      | some (m, []) => (st, if Spec.specMatchesFull a m then "1" else "0")
      | _ => (st, "badinput")
    | none => (st, "badinput")
  | "mkrule" :: rest =>
    match rule? rest with
    | some (a, []) =>
      match mkRule T a with
      | .ok r => (st, "simple=" ++ showKVs r.simple ++ " attrs=" ++ showKVs r.attrs.reverse)
      | .error _ => (st, "addfailed")
    | _ => (st, "badinput")
  | ["reset"] => ({}, "ok")
  | ["preset"] => ({ st with sels := [], subs := {} }, "ok")
  | ["select", n, r, ifs] =>
    match Driver.hexToChars? n, optStr? r, ifaces? ifs with
    | some n, some r, some ifs =>
      let res := selectSignal n r ifs
      ({ st with sels := st.sels ++ [res] },
       match res with
       | none => "none"
       | some (i, sg) => Driver.charsToHex i ++ " " ++ Driver.charsToHex sg)
    | _, _, _ => (st, "badinput")
  | ["gatesel", i, r, b] =>
    match i.toNat?, optStr? r, body? b with
    | some i, some r, some b =>
      match st.sels[i]? with
      | some (some (_, sg)) =>
        match proxyGate (some sg) r b with
        | none => (st, "none")
        | some args => (st, "call " ++ showBody args)
      | _ => (st, "none")
    | _, _, _ => (st, "badinput")
  | ["psub", id] =>
    match id.toNat? with
    | some id => ({ st with subs := st.subs.onOk id }, "ok")
    | none => (st, "badinput")
  | ["pcancel", id] =>
    match id.toNat? with
    | some id =>
      match st.subs.cancel id with
      | (p, some i) => ({ st with subs := p }, "del " ++ toString i)
      | (p, none) => ({ st with subs := p }, "noop")
    | none => (st, "badinput")
  | ["meaning", t] =>
    match Driver.hexToChars? t with
    | some text =>
      match Spec.ruleTextMeaning text with
      | none => (st, "none")
      | some cs => (st, if cs.isEmpty then "." else ";".intercalate (cs.map showConstraint))
    | none => (st, "badinput")
  | "add" :: cb :: rest =>
    match cb.toNat?, rule? rest with
    | some cb, some (a, []) =>
      match st.router.step T (fun _ _ => false) (.add cb a) with
      | (r, .added i) => ({ st with router := r }, "id " ++ toString i)
      | (r, _) => ({ st with router := r }, "addfailed")
    | _, _ => (st, "badinput")
  | ["del", id] =>
    match id.toNat? with
    | some id =>
      match st.router.step T (fun _ _ => false) (.del id) with
      | (r, .deleted) => ({ st with router := r }, "ok")
      | (r, _) => ({ st with router := r }, "keyerror")
    | none => (st, "badinput")
  | "route" :: rs :: rest =>
    match raises? rs, msg? rest with
    | some raises, some (m, []) => (st, showRouted (st.router.route raises m))
    | _, _ => (st, "badinput")
  | "cadd" :: cb :: rest =>
    match cb.toNat?, rule? rest with
    | some cb, some (a, []) =>
      match st.client.step T (fun _ _ => false) (.addMatch cb a) with
      | (c, .sentAdd text) => ({ st with client := c }, "sentadd " ++ Driver.charsToHex text)
      | (c, _) => ({ st with client := c }, "unexpected")
    | _, _ => (st, "badinput")
  | ["cdel", id] =>
    match id.toNat? with
    | some id =>
      match st.client.step T (fun _ _ => false) (.delMatch id) with
      | (c, .sentRemove text) => ({ st with client := c }, "sentremove " ++ Driver.charsToHex text)
      | (c, _) => ({ st with client := c }, "keyerror")
    | none => (st, "badinput")
  | [cmd, k] =>
    if cmd == "cok" || cmd == "cerr" then
      match k.toNat? with
      | some k =>
        let (c, o) := st.client.step T (fun _ _ => false) (if cmd == "cok" then .replyOk k else .replyErr k)
        let s := match o with
          | .addDone i => "adddone " ++ toString i
          | .addFailed => "addfailed"
          | .delDone => "deldone"
          | .delFailed => "delfailed"
          | .failed => "failed"
          | .ignored => "ignored"
          | _ => "unexpected"
        ({ st with client := c }, s)
      | none => (st, "badinput")
    else if cmd == "parse" then
      match Driver.hexToChars? k with
      | some text =>
        match parseRuleGen text with
        | .ok a => (st, "ok " ++ showRule a)
        | .error .valueError => (st, "valueerror")
        | .error .outOfDomain => (st, "outofdomain")
      | none => (st, "badinput")
    else (st, "badinput")
  | "csig" :: rs :: rest =>
    match raises? rs, msg? rest with
    | some raises, some (m, []) => (st, showRouted (st.client.router.route raises m))
    | _, _ => (st, "badinput")
  | "render" :: rest =>
    match rule? rest with
    | some (a, []) => (st, Driver.charsToHex (renderRuleWith T.clientEscapes a))
    | _ => (st, "badinput")
  | ["gate", d, r, b] =>
    match optStr? d, optStr? r, body? b with
    | some d, some r, some b =>
      match proxyGate d r b with
      | none => (st, "none")
      | some args => (st, "call " ++ showBody args)
    | _, _, _ => (st, "badinput")
  | _ => (st, "badinput")

end C12

def main : IO Unit := Driver.run C12.step ({} : C12.St)
