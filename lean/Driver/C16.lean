import Driver.Common
import TxdbusModel.Obj.Tree
import TxdbusModel.Obj.TreeProps
/-!
Driver for property C16 (exported-object tree).  One operation per line, one output line each.
Strings travel as the hex of their code points (6 digits each, "-" = empty string).

  reset                                      -> ok       (every handler's table empty, handler 0 current)
  handler <k>                                -> ok       (the lines below address handler k's table from now on;
                                                          the tables are `Tree.Multi.Tables`, written with `Multi.set`)
  export <path> <sendable 0|1> (<iface>=<token>)*
                                             -> added <hdrPath> <argPath> <iface>=<token>,… | raised
  unexport <path>                            -> removed <hdrPath> <argPath> <ifaces> | raised
  keys                                       -> keys <paths>                  (insertion order)
  call <iface|none> <member> <path>
        -> pong | intro <none|ifaces> <children> | managed <path>:<iface>=<token>,…;… |
           error <errorname> <path> | error <errorname> | dispatch <first token of the object>
  orig introspect|managed <path>             -> the same with the pre-repair loops (F23 / F24)
  origexport <path> <sendable> (<iface>=<token>)*   -> like export with the pre-repair exportObject

A list prints as its items joined by ","; the empty list as "[]".

The combined model `Obj/TreeProps.lean` (objects with declared properties, C16 x C17); declarations in the
line format of drv_c17 (classes most derived first):

  preset                                       -> ok
  pworld <c>                                   start declaring the class chain with id c           -> ok
  pclass | piface <name> (<pname> <sig> <r> <w> <e>)* | pdesc <attr> <pname> <iface|~> | pbind
                                               -> ok | typeerror | declerr     (pbind: elaborate chain c)
  pobj <n> <c> <path>                          instance n of chain c was constructed with this path -> ok
  pexport <n>                                  -> added <hdr> <arg> <objdict> | raised
  punexport <path>                             -> removed <hdr> <arg> <ifaces> | raised
  passign <n> <attr> <val>                     -> ok | raised
  pset <path> <iface> <pname> <val>            -> ret | err | unknown
  pmanaged <path>                              -> managed <path>:<objdict>;… | unknown | failed
  <objdict> = <iface>=<props>,…   <props> = <pname>~<sig>~<val>|… or "[]"     values: N, I<int>, B0, B1, S<hex>, D<bits>, L:<hex>,…, W<c>I<int>, W<c>S<hex>
-/
open Txdbus.Obj Txdbus.Obj.Tree Driver

namespace C16

open Txdbus.Obj.Props (PVal RawProp EmitsArg ClassDef World Cfg)

def strs (l : List Str) : String :=
  if l.isEmpty then "[]" else ",".intercalate (l.map charsToHex)

def dict (l : Table Nat) : String :=
  if l.isEmpty then "[]" else ",".intercalate (l.map fun (n, t) => charsToHex n ++ "=" ++ toString t)

def entries (l : List Entry) : String :=
  if l.isEmpty then "[]" else
  ";".intercalate (l.map fun (k, d) => charsToHex k ++ ":" ++ dict d)

def showSignal : Signal → String
  | .interfacesAdded h a d => s!"added {charsToHex h} {charsToHex a} {dict d}"
  | .interfacesRemoved h a ifs => s!"removed {charsToHex h} {charsToHex a} {strs ifs}"

def showStep (r : StepResult) : String :=
  if r.raised then "raised" else " | ".intercalate (r.sent.map showSignal)

def showReply : Reply → String
  | .pong => "pong"
  | .introspection ifs kids =>
    "intro " ++ (match ifs with | none => "none" | some l => strs l) ++ " " ++ strs kids
  | .managed es => "managed " ++ entries es
  | .unknownObject p => "error " ++ charsToHex unknownObjectName ++ " " ++ charsToHex p
  | .managedFailed => "error " ++ charsToHex managedFailedName
  | .dispatch o => "dispatch " ++ (match o.ifaces with | (_, t) :: _ => toString t | [] => "?")

def iface? (s : String) : Option (Str × Nat) :=
  match s.splitOn "=" with
  | [n, t] => do
    let n ← hexToChars? n
    let t ← t.toNat?
    pure (n, t)
  | _ => none

def obj? (p sd : String) (ifs : List String) : Option Obj := do
  let p ← hexToChars? p
  let ifs ← ifs.mapM iface?
  let sd ← (if sd == "1" then some true else if sd == "0" then some false else none)
  pure { path := p, ifaces := ifs, sendable := sd }

def step (e : Exports) (line : String) : Exports × String :=
  match words line with
  | ["reset"] => ([], "ok")
  | ["keys"] => (e, "keys " ++ strs (keys e))
  | "export" :: p :: sd :: ifs =>
    match obj? p sd ifs with
    | some o => let r := Tree.step e (.export o); (r.exports, showStep r)
    | none => (e, "badinput")
  | "origexport" :: p :: sd :: ifs =>
    match obj? p sd ifs with
    | some o => let r := Tree.stepOrig e (.export o); (r.exports, showStep r)
    | none => (e, "badinput")
  | ["unexport", p] =>
    match hexToChars? p with
    | some p => let r := Tree.step e (.unexport p); (r.exports, showStep r)
    | none => (e, "badinput")
  | ["call", i, m, p] =>
    match (if i == "none" then some none else (hexToChars? i).map some), hexToChars? m, hexToChars? p with
    | some i, some m, some p => (e, showReply (handleMsg e p i m))
    | _, _, _ => (e, "badinput")
  | ["orig", "introspect", p] =>
    match hexToChars? p with
    | some p => (e, "kids " ++ strs (introspectChildrenOrig p e))
    | none => (e, "badinput")
  | ["orig", "managed", p] =>
    match hexToChars? p with
    | some p => (e, "managed " ++ entries (managedOrig p e))
    | none => (e, "badinput")
  | _ => (e, "badinput")


/-! ### the combined model -/

structure PS where
  cur : Nat := 0
  classes : List ClassDef := []      -- of the chain being declared; reversed: current class is the head
  bad : Bool := false
  worlds : List (Nat × World) := []
  objs : List (Nat × Nat × Str) := []          -- instance, chain id, path
  st : TreeProps.State := TreeProps.State.init

def parseInt? (s : String) : Option Int :=
  match s.toList with
  | '-' :: t => (String.ofList t).toNat?.map fun n => -(Int.ofNat n)
  | _ => s.toNat?.map Int.ofNat

def parseVal? (s : String) : Option PVal :=
  match s.toList with
  | ['N'] => some .none
  | ['B', '0'] => some (.bool false)
  | ['B', '1'] => some (.bool true)
  | 'I' :: t => (parseInt? (String.ofList t)).map .int
  | 'D' :: t => (String.ofList t).toNat?.map .dbl
  | 'S' :: t => (hexToChars? (String.ofList t)).map .str
  | 'L' :: ':' :: t =>
    if t.isEmpty then some (.strs [])
    else (((String.ofList t).splitOn ",").mapM hexToChars?).map .strs
  | 'W' :: c :: 'I' :: t => (parseInt? (String.ofList t)).map (.wint c)
  | 'W' :: c :: 'S' :: t => (hexToChars? (String.ofList t)).map (.wstr c)
  | _ => none

def showInt (n : Int) : String := if n < 0 then "-" ++ toString n.natAbs else toString n.natAbs

def showVal : PVal → String
  | .none => "N"
  | .int n => "I" ++ showInt n
  | .bool b => if b then "B1" else "B0"
  | .str s => "S" ++ charsToHex s
  | .dbl b => "D" ++ toString b
  | .strs l => "L:" ++ ",".intercalate (l.map charsToHex)
  | .wint c n => "W" ++ String.singleton c ++ "I" ++ showInt n
  | .wstr c s => "W" ++ String.singleton c ++ "S" ++ charsToHex s
  | _ => "?"

def parseProps : List String → Option (List RawProp)
  | [] => some []
  | n :: s :: r :: w :: e :: rest => do
    let n ← hexToChars? n
    let s ← hexToChars? s
    let r ← (if r == "1" then some true else if r == "0" then some false else none)
    let w ← (if w == "1" then some true else if w == "0" then some false else none)
    let e ← (match e with
      | "t" => some EmitsArg.true_ | "f" => some EmitsArg.false_
      | "i" => some EmitsArg.invalidates | "c" => some EmitsArg.const | _ => none)
    let tl ← parseProps rest
    pure (⟨n, s, r, w, e⟩ :: tl)
  | _ => none

def showProps (l : TreeProps.PropDict) : String :=
  if l.isEmpty then "[]" else
  "|".intercalate (l.map fun (n, sg, v) => charsToHex n ++ "~" ++ charsToHex sg ++ "~" ++ showVal v)

def showObjDict (d : Table TreeProps.PropDict) : String :=
  if d.isEmpty then "[]" else ",".intercalate (d.map fun (i, l) => charsToHex i ++ "=" ++ showProps l)

def showPSignal : TreeProps.Signal → String
  | .interfacesAdded h a d => s!"added {charsToHex h} {charsToHex a} {showObjDict d}"
  | .interfacesRemoved h a ifs => s!"removed {charsToHex h} {charsToHex a} {strs ifs}"

def env? (d : PS) : Option TreeProps.Env :=
  if d.worlds.isEmpty then none else
  some { cfg := Cfg.repaired
         W := fun c => ((d.worlds.find? fun e => e.1 == c).map (·.2)).getD ⟨[], [], []⟩
         cls := fun n => ((d.objs.find? fun e => e.1 == n).map (·.2.1)).getD 0
         pathOf := fun n => ((d.objs.find? fun e => e.1 == n).map (·.2.2)).getD [] }

def pstep (d : PS) (op : TreeProps.Op) (showOuts : List Txdbus.Obj.Props.Out → String) : PS × String :=
  match env? d with
  | none => (d, "nodecl")
  | some E =>
    let r := TreeProps.step E d.st op
    ({ d with st := r.state },
      if r.raised then "raised"
      else if r.sent.isEmpty then showOuts r.outs
      else " | ".intercalate (r.sent.map showPSignal))

def setOuts (l : List Txdbus.Obj.Props.Out) : String :=
  match l.getLast? with
  | some .ret => "ret"
  | some (.err .unknownObject) => "unknown"
  | some (.err _) => "err"
  | _ => "?"

def pline (d : PS) (ws : List String) : PS × String :=
  match ws with
  | ["preset"] => ({}, "ok")
  | ["pworld", c] =>
    match c.toNat? with
    | some c => ({ d with cur := c, classes := [], bad := false }, "ok")
    | none => (d, "badinput")
  | ["pclass"] => ({ d with classes := ⟨[], []⟩ :: d.classes }, "ok")
  | "piface" :: name :: rest =>
    match d.classes, hexToChars? name, parseProps rest with
    | c :: cs, some name, some raw =>
      match Txdbus.Obj.Props.mkIface name raw with
      | some f => ({ d with classes := { c with ifaces := c.ifaces ++ [f] } :: cs }, "ok")
      | none => ({ d with bad := true }, "typeerror")
    | _, _, _ => (d, "badinput")
  | ["pdesc", a, p, i] =>
    match d.classes, hexToChars? a, hexToChars? p with
    | c :: cs, some a, some p =>
      let i? : Option (Option Str) := if i == "~" then some none else (hexToChars? i).map some
      match i? with
      | some i => ({ d with classes := { c with descs := c.descs ++ [⟨a, p, i⟩] } :: cs }, "ok")
      | none => (d, "badinput")
    | _, _, _ => (d, "badinput")
  | ["pbind"] =>
    if d.bad then (d, "declerr") else
    match Txdbus.Obj.Props.elaborate d.classes.reverse with
    | some W => ({ d with worlds := (d.cur, W) :: d.worlds }, "ok")
    | none => (d, "declerr")
  | ["pobj", n, c, p] =>
    match n.toNat?, c.toNat?, hexToChars? p with
    | some n, some c, some p => ({ d with objs := (n, c, p) :: d.objs }, "ok")
    | _, _, _ => (d, "badinput")
  | ["pexport", n] =>
    match n.toNat? with
    | some n => pstep d (.export n) (fun _ => "?")
    | none => (d, "badinput")
  | ["punexport", p] =>
    match hexToChars? p with
    | some p => pstep d (.unexport p) (fun _ => "?")
    | none => (d, "badinput")
  | ["passign", n, a, v] =>
    match n.toNat?, hexToChars? a, parseVal? v with
    | some n, some a, some v => pstep d (.assign n a v) (fun _ => "ok")
    | _, _, _ => (d, "badinput")
  | ["pset", p, i, pn, v] =>
    match hexToChars? p, hexToChars? i, hexToChars? pn, parseVal? v with
    | some p, some i, some pn, some v => pstep d (.set p i pn v) setOuts
    | _, _, _, _ => (d, "badinput")
  | ["pmanaged", p] =>
    match env? d, hexToChars? p with
    | some E, some p =>
      (d, match TreeProps.handleManaged E d.st p with
        | .managed ents =>
          "managed " ++ (if ents.isEmpty then "[]" else
            ";".intercalate (ents.map fun (k, od) => charsToHex k ++ ":" ++ showObjDict od))
        | .unknownObject _ => "unknown"
        | .managedFailed => "failed")
    | _, _ => (d, "badinput")
  | _ => (d, "badinput")

structure DS where
  tabs : Multi.Tables := Multi.init     -- one table per live handler
  cur : Nat := 0                        -- the handler the lines address
  ps : PS := {}

def stepAll (d : DS) (line : String) : DS × String :=
  match words line with
  | w :: ws =>
    if w.startsWith "p" && w != "ping" then
      let r := pline d.ps (w :: ws)
      ({ d with ps := r.1 }, r.2)
    else if w == "reset" then ({ d with tabs := Multi.init, cur := 0 }, "ok")
    else if w == "handler" then
      match ws with
      | [k] => match k.toNat? with
        | some k => ({ d with cur := k }, "ok")
        | none => (d, "badinput")
      | _ => (d, "badinput")
    else
      let r := step (d.tabs d.cur) line
      ({ d with tabs := Multi.set d.tabs d.cur r.1 }, r.2)
  | [] => (d, "badinput")

end C16

def main : IO Unit := Driver.run C16.stepAll {}
