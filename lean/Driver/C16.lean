import Driver.Common
import TxdbusModel.Obj.Tree
/-!
Driver for property C16 (exported-object tree).  One operation per line, one output line each.
Strings travel as the hex of their code points (6 digits each, "-" = empty string).

  reset                                      -> ok
  export <path> <sendable 0|1> (<iface>=<token>)*
                                             -> added <hdrPath> <argPath> <iface>=<token>,… | raised
  unexport <path>                            -> removed <hdrPath> <argPath> <ifaces> | raised
  keys                                       -> keys <paths>                  (insertion order)
  call <iface|none> <member> <path>
        -> pong | intro <none|ifaces> <children> | managed <path>:<iface>=<token>,…;… |
           error <errorname> <path> | error <errorname> | dispatch <first token of the object>
  orig introspect|managed <path>             -> the same with the pre-repair loops (F23 / F24)
  origexport <path> <sendable> (<iface>=<token>)*   -> like export with the pre-repair exportObject

A list prints as its items joined by ","; the empty list as "[]".
-/
open Txdbus.Obj Txdbus.Obj.Tree Driver

namespace C16

def strs (l : List Str) : String :=
  if l.isEmpty then "[]" else ",".intercalate (l.map charsToHex)

def dict (l : Table Nat) : String :=
  if l.isEmpty then "[]" else ",".intercalate (l.map fun (n, t) => charsToHex n ++ "=" ++ toString t)

def entries (l : List Entry) : String :=
  if l.isEmpty then "[]" else
  ";".intercalate (l.map fun (k, d) => charsToHex k ++ ":" ++ dict d)

def showSignal : Signal → String
  | .interfacesAdded h a d => s!"added {charsToHex h} {charsToHex a} {dict d}"
  | .interfacesRemoved h a ifs => s!"removed {charsToHex h} {charsToHex a} {strs ifs}"

def showStep (r : StepResult) : String :=
  if r.raised then "raised" else " | ".intercalate (r.sent.map showSignal)

def showReply : Reply → String
  | .pong => "pong"
  | .introspection ifs kids =>
    "intro " ++ (match ifs with | none => "none" | some l => strs l) ++ " " ++ strs kids
  | .managed es => "managed " ++ entries es
  | .unknownObject p => "error " ++ charsToHex unknownObjectName ++ " " ++ charsToHex p
  | .managedFailed => "error " ++ charsToHex managedFailedName
  | .dispatch o => "dispatch " ++ (match o.ifaces with | (_, t) :: _ => toString t | [] => "?")

def iface? (s : String) : Option (Str × Nat) :=
  match s.splitOn "=" with
  | [n, t] => do
    let n ← hexToChars? n
    let t ← t.toNat?
    pure (n, t)
  | _ => none

def obj? (p sd : String) (ifs : List String) : Option Obj := do
  let p ← hexToChars? p
  let ifs ← ifs.mapM iface?
  let sd ← (if sd == "1" then some true else if sd == "0" then some false else none)
  pure { path := p, ifaces := ifs, sendable := sd }

def step (e : Exports) (line : String) : Exports × String :=
  match words line with
  | ["reset"] => ([], "ok")
  | ["keys"] => (e, "keys " ++ strs (keys e))
  | "export" :: p :: sd :: ifs =>
    match obj? p sd ifs with
    | some o => let r := Tree.step e (.export o); (r.exports, showStep r)
    | none => (e, "badinput")
  | "origexport" :: p :: sd :: ifs =>
    match obj? p sd ifs with
    | some o => let r := Tree.stepOrig e (.export o); (r.exports, showStep r)
    | none => (e, "badinput")
  | ["unexport", p] =>
    match hexToChars? p with
    | some p => let r := Tree.step e (.unexport p); (r.exports, showStep r)
    | none => (e, "badinput")
  | ["call", i, m, p] =>
    match (if i == "none" then some none else (hexToChars? i).map some), hexToChars? m, hexToChars? p with
    | some i, some m, some p => (e, showReply (handleMsg e p i m))
    | _, _, _ => (e, "badinput")
  | ["orig", "introspect", p] =>
    match hexToChars? p with
    | some p => (e, "kids " ++ strs (introspectChildrenOrig p e))
    | none => (e, "badinput")
  | ["orig", "managed", p] =>
    match hexToChars? p with
    | some p => (e, "managed " ++ entries (managedOrig p e))
    | none => (e, "badinput")
  | _ => (e, "badinput")

end C16

def main : IO Unit := Driver.run C16.step ([] : Exports)
