import Driver.Common
import TxdbusModel.Obj.Tree
/-!
Driver for property C16 (exported-object tree).  One operation per line, one output line each.
Strings travel as the hex of their code points (6 digits each, "-" = empty string).

  reset                               -> ok
  export <path> <payload> <iface>*    -> added <hdrPath> <argPath> <payload> <ifaces>
  unexport <path>                     -> removed <hdrPath> <argPath> <ifaces> | keyerror
  keys                                -> keys <paths>                       (insertion order)
  call ping|introspect|managed|ordinary <path>
        -> pong | intro <none|ifaces> <children> | managed <path>:<payload>:<ifaces>;… | unknown <path> | dispatch <payload>
  orig introspect|managed <path>      -> the same with the pre-repair loops (F23 / F24), for the corpus

A list prints as its items joined by ","; the empty list as "[]".
-/
open Txdbus.Obj Txdbus.Obj.Tree Driver

namespace C16

def strs (l : List Str) : String :=
  if l.isEmpty then "[]" else ",".intercalate (l.map charsToHex)

def entries (l : List Entry) : String :=
  if l.isEmpty then "[]" else
  ";".intercalate (l.map fun (k, ifs, pl) => charsToHex k ++ ":" ++ toString pl ++ ":" ++ strs ifs)

def showSignal : Signal → String
  | .interfacesAdded h a ifs pl => s!"added {charsToHex h} {charsToHex a} {pl} {strs ifs}"
  | .interfacesRemoved h a ifs => s!"removed {charsToHex h} {charsToHex a} {strs ifs}"

def showStep (r : StepResult) : String :=
  if r.keyError then "keyerror" else " | ".intercalate (r.sent.map showSignal)

def showReply : Reply → String
  | .pong => "pong"
  | .introspection ifs kids =>
    "intro " ++ (match ifs with | none => "none" | some l => strs l) ++ " " ++ strs kids
  | .managed es => "managed " ++ entries es
  | .unknownObject p => "unknown " ++ charsToHex p
  | .dispatch o => s!"dispatch {o.payload}"

def call? : String → Option Call
  | "ping" => some .ping
  | "introspect" => some .introspect
  | "managed" => some .getManagedObjects
  | "ordinary" => some .ordinary
  | _ => none

def step (e : Exports) (line : String) : Exports × String :=
  match words line with
  | ["reset"] => ([], "ok")
  | ["keys"] => (e, "keys " ++ strs (keys e))
  | "export" :: p :: pl :: ifs =>
    match hexToChars? p, pl.toNat?, ifs.mapM hexToChars? with
    | some p, some pl, some ifs =>
      let r := Tree.step e (.export { path := p, ifaces := ifs, payload := pl })
      (r.exports, showStep r)
    | _, _, _ => (e, "badinput")
  | ["unexport", p] =>
    match hexToChars? p with
    | some p => let r := Tree.step e (.unexport p); (r.exports, showStep r)
    | none => (e, "badinput")
  | ["call", k, p] =>
    match call? k, hexToChars? p with
    | some k, some p => (e, showReply (handle e p k))
    | _, _ => (e, "badinput")
  | ["orig", "introspect", p] =>
    match hexToChars? p with
    | some p => (e, "kids " ++ strs (introspectChildrenOrig p e))
    | none => (e, "badinput")
  | ["orig", "managed", p] =>
    match hexToChars? p with
    | some p => (e, "managed " ++ entries (managedOrig p e))
    | none => (e, "badinput")
  | _ => (e, "badinput")

end C16

def main : IO Unit := Driver.run C16.step ([] : Exports)
