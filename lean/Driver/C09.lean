import Driver.Common
import TxdbusModel.Client.Endpoints
import TxdbusModel.Client.Lifecycle
/-!
Driver for property C09.  One scenario per line:

  parse <addr> <session|none> <system|none> <pid>      (all str-hex, 6 hex digits per code point)
      -> `ok <n> <endpoint>*n` | `err <kind>`
      endpoint = `U:<path>:<args>` | `T:<host>:<port>:<args>`, args = `k=v,k=v` with v = `s<hex>` | `T`, `-` when empty

  life <pid> <addr> <ev>*      the repaired code (pid = str(os.getpid()) as str-hex, for unix:tmpdir= entries) (model of the tree with fixes/C09-*)
  proc <pid> <addr> <ev>* [/ <ev>*]*   one process that calls client.connect SEVERAL times with the same address string
      (reconnect after a loss, connections side by side); `/` separates the histories of the connections
      -> the `life` answers of the connections joined by ` // `
  lifeorig <addr> <ev>*  the pinned, unrepaired code (used by hand to validate the witness theorems)
      -> `<fx>* | ph=<phase> fired=<results> pend=<serial[t]>* timers=<serial>* dc=<ids> reg=<proxy ids> prox=<id:alive:cbs>*`
         or `parse-err <kind>` when the address does not parse

  events: af[:refused|connectError|dnsLookup|timeout|other] ac ap ao ax hr he cl rp:<serial>:<0|1> ex:<serial> ca:<0|1>:<r> no:<r> cn:<c> pe:<key> pi:<key>
          pn:<p>:<r> pc:<p>:<c> dp:<p> cd:<serial> (the caller cancels the call's Deferred)          reactions r: n c u r p x
      pend entries: <serial>[c][t]   c = the caller cancelled its Deferred, t = it has a timer
-/
open Txdbus.Client.Endpoints Txdbus.Client.Lifecycle Driver

def errName : Err → String
  | .noSessionEnv => "Exception"
  | .valueError => "ValueError"
  | .keyError => "KeyError"
  | .unboundLocal => "UnboundLocalError"
  | .typeError => "TypeError"
  | .unsupported => "unsupported"

def valStr' : Val → String
  | .str s => "s" ++ charsToHex s
  | .true => "T"

def argsStr (d : Dict) : String :=
  if d.isEmpty then "-" else ",".intercalate (d.map fun (k, v) => charsToHex k ++ "=" ++ valStr' v)

def epStr (e : Endpoint) : String :=
  match e.target with
  | .unix p => "U:" ++ charsToHex p ++ ":" ++ argsStr e.args
  | .tcp h p => "T:" ++ charsToHex h ++ ":" ++ toString p ++ ":" ++ argsStr e.args

def optStr? (s : String) : Option (Option Str) :=
  if s == "none" then some none else (hexToChars? s).map some

def parseReaction : String → Option Reaction
  | "n" => some .nothing
  | "c" => some .newCall
  | "u" => some .unregisterSelf
  | "r" => some .registerAnother
  | "p" => some .newProxy
  | "x" => some .raises
  | _ => none

def parseBool : String → Option Bool
  | "0" => some false
  | "1" => some true
  | _ => none

def parseEv (tok : String) : Option Ev :=
  match tok.splitOn ":" with
  | ["af"] => some (.attemptFails .refused)
  | ["af", "refused"] => some (.attemptFails .refused)
  | ["af", "connectError"] => some (.attemptFails .connectError)
  | ["af", "dnsLookup"] => some (.attemptFails .dnsLookup)
  | ["af", "timeout"] => some (.attemptFails .timeout)
  | ["af", "other"] => some (.attemptFails .other)
  | ["ac"] => some .attemptConnects
  | ["ap"] => some .authProgress
  | ["ao"] => some .authOk
  | ["ax"] => some .authFailed
  | ["hr"] => some (.helloReply true)
  | ["hr", "noname"] => some (.helloReply false)
  | ["he"] => some .helloError
  | ["cl"] => some .close
  | ["rp", s, b] => do some (.reply (← s.toNat?) (← parseBool b))
  | ["ex", s] => do some (.expire (← s.toNat?))
  | ["ca", b, r] => do some (.call (← parseBool b) (← parseReaction r))
  | ["no", r] => do some (.notify (← parseReaction r))
  | ["cn", c] => do some (.cancelNotify (← c.toNat?))
  | ["pe", k] => do some (.proxyExplicit (← k.toNat?))
  | ["pi", k] => do some (.proxyIntrospect (← k.toNat?))
  | ["pn", p, r] => do some (.proxyNotify (← p.toNat?) (← parseReaction r))
  | ["pc", p, c] => do some (.proxyCancelNotify (← p.toNat?) (← c.toNat?))
  | ["dp", p] => do some (.dropProxy (← p.toNat?))
  | ["cd", s] => do some (.cancelCall (← s.toNat?))
  | _ => none

def resName : ConnectResult → String
  | .connection => "connection"
  | .noAddress => "noAddress"
  | .unreachable => "unreachable"
  | .helloError => "helloError"
  | .helloNoName => "helloNoName"
  | .lostEarly => "lostEarly"

def kindName : ErrKind → String
  | .lost => "lost"
  | .introspectionFailed => "introspectionFailed"
  | .remote => "remote"
  | .timeout => "timeout"
  | .cancelled => "cancelled"

def fxStr : Fx → String
  | .attempt ep =>
    match ep.target with
    | .unix p => "at:U:" ++ charsToHex p
    | .tcp h p => "at:T:" ++ charsToHex h ++ ":" ++ toString p
  | .connectFired r => "cf:" ++ resName r
  | .callOk s => "ok:" ++ toString s
  | .callErr s k => "er:" ++ toString s ++ ":" ++ kindName k
  | .timerCancelled s => "tc:" ++ toString s
  | .connCb c => "cc:" ++ toString c
  | .proxyCb p c => "pc:" ++ toString p ++ ":" ++ toString c
  | .crashed => "crash"

def phaseName : Phase → String
  | .connecting => "connecting"
  | .authenticating => "authenticating"
  | .helloSent => "helloSent"
  | .ready => "ready"
  | .helloFailed => "helloFailed"
  | .exhausted => "exhausted"
  | .closedEarly => "closedEarly"
  | .lost => "lost"

def natsStr (l : List Nat) : String :=
  if l.isEmpty then "-" else ",".intercalate (l.map toString)

def stateStr (s : St) : String :=
  "ph=" ++ phaseName s.phase ++
  " fired=" ++ (if s.fired.isEmpty then "-" else ",".intercalate (s.fired.map resName)) ++
  " pend=" ++ (if s.pending.isEmpty then "-" else
      ",".intercalate (s.pending.map fun c => toString c.serial ++ (if c.cancelled then "c" else "") ++ (if c.timed then "t" else ""))) ++
  " timers=" ++ natsStr s.timers ++
  " dc=" ++ natsStr (s.dcCallbacks.map (·.id)) ++
  " reg=" ++ natsStr (s.registry.map (·.2)) ++
  " prox=" ++ (if s.proxies.isEmpty then "-" else
      ",".intercalate (s.proxies.map fun p =>
        toString p.id ++ (if p.alive then "a" else "d") ++ "[" ++ ".".intercalate (p.cbs.map fun c => toString c.id) ++ "]"))

def lifeLine (v : Variant) (pid : String) (addr : String) (evs : List String) : String :=
  match hexToChars? addr, hexToChars? pid, evs.mapM parseEv with
  | some a, some pid, some es =>
    match getDBusEndpoints { session := none, system := none, pid := pid } a with
    | .error e => "parse-err " ++ errName e
    | .ok eps =>
      let s := run v (connect eps) es
      " ".intercalate (s.log.map fxStr) ++ " | " ++ stateStr s
  | _, _, _ => "bad-input"

def stateLine (s : St) : String :=
  " ".intercalate (s.log.map fxStr) ++ " | " ++ stateStr s

/-- The token list of `proc`, cut at the `/` tokens. -/
def splitRounds : List String → List (List String)
  | [] => [[]]
  | t :: ts =>
    match splitRounds ts with
    | [] => [[t]]
    | r :: rs => if t == "/" then [] :: r :: rs else (t :: r) :: rs

def procLine (pid : String) (addr : String) (toks : List String) : String :=
  match hexToChars? addr, hexToChars? pid, (splitRounds toks).mapM (fun r => r.mapM parseEv) with
  | some a, some pid, some hs =>
    " // ".intercalate ((connectMany .repaired { session := none, system := none, pid := pid } a hs).map fun
      | .ok s => stateLine s
      | .error e => "parse-err " ++ errName e)
  | _, _, _ => "bad-input"

def step (line : String) : String :=
  match words line with
  | ["parse", a, se, sy, pid] =>
    match hexToChars? a, optStr? se, optStr? sy, hexToChars? pid with
    | some a, some se, some sy, some pid =>
      match getDBusEndpoints { session := se, system := sy, pid := pid } a with
      | .ok eps => "ok " ++ toString eps.length ++ String.join (eps.map fun e => " " ++ epStr e)
      | .error e => "err " ++ errName e
    | _, _, _, _ => "bad-input"
  | "life" :: pid :: a :: evs => lifeLine .repaired pid a evs
  | "proc" :: pid :: a :: toks => procLine pid a toks
  | "lifeorig" :: pid :: a :: evs => lifeLine .original pid a evs
  | "life5" :: pid :: a :: evs => lifeLine .fiveFixes pid a evs
  | _ => "bad-input"

def main : IO Unit := Driver.run (fun (s : Unit) line => (s, step line)) ()
