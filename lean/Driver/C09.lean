import Driver.Common
import TxdbusModel.Client.Endpoints
import TxdbusModel.Client.Lifecycle
import TxdbusModel.Client.ConnectAuth
/-!
Driver for property C09.  One scenario per line:

  parse <addr> <session|none> <system|none> <pid>      (all str-hex, 6 hex digits per code point)
      -> `ok <n> <endpoint>*n` | `err <kind>`
      endpoint = `U:<path>:<args>` | `T:<host>:<port>:<args>`, args = `k=v,k=v` with v = `s<hex>` | `T`, `-` when empty

  life <pid> <addr> <ev>*      the repaired code (pid = str(os.getpid()) as str-hex, for unix:tmpdir= entries) (model of the tree with fixes/C09-*)
  proc <pid> <addr> <ev>* [/ <ev>*]*   one process that calls client.connect SEVERAL times with the same address string
      (reconnect after a loss, connections side by side); `/` separates the histories of the connections
      -> the `life` answers of the connections joined by ` // `
  lifeorig <addr> <ev>*  the pinned, unrepaired code (used by hand to validate the witness theorems)
      -> `<fx>* | ph=<phase> fired=<results> pend=<serial[t]>* timers=<serial>* dc=<ids> reg=<proxy ids> prox=<id:alive:cbs>*`
         or `parse-err <kind>` when the address does not parse

  cah <r|o> <unix 0|1> <user bytes-hex> <answer bytes-hex> <N|U|E|G|-> <crash bytes-hex|-> <step>*     C09 x C07: one connection attempt through the handshake
      (Client/ConnectAuth.lean): r = repaired client.py, o = pinned; the answer to Hello is complete once the binary
      stream begins with <answer>, and is N (named) / U (no name) / E (error) / G (not a message: dataReceived raises), `-` = never;
      after the answer binary mode raises once the binary stream begins with <crash> (`-` = never);
      (mode `o` is validated against no tree: the harness always sends `r`)
      step = r:<bytes hex> (one read) | l (connectionLost).  Cookie environment: the keyring directory does not exist.
      -> <N|S:<hex>|C|A>* | auth=<0|1> disc=<0|1> closedAt=<step|-> firedAt=<step|-> fired=<results> ph=<phase>
         evs=<lifecycle events generated> hello=<N|U|E|G|-> lost=<0|1> raised=<0|1> delivered=<number of reads that reached dataReceived>

  events: af[:refused|connectError|dnsLookup|timeout|other] ac ap ao ax hr he cl rp:<serial>:<0|1> ex:<serial> ca:<0|1>:<r> no:<r> cn:<c> pe:<key> pi:<key>
          pn:<p>:<r> pc:<p>:<c> dp:<p> cd:<serial> (the caller cancels the call's Deferred)          reactions r: n c u r p x
      pend entries: <serial>[c][t]   c = the caller cancelled its Deferred, t = it has a timer
-/
open Txdbus.Client.Endpoints Txdbus.Client.Lifecycle Driver

def errName : Err → String
  | .noSessionEnv => "Exception"
  | .valueError => "ValueError"
  | .keyError => "KeyError"
  | .unboundLocal => "UnboundLocalError"
  | .typeError => "TypeError"
  | .unsupported => "unsupported"

def valStr' : Val → String
  | .str s => "s" ++ charsToHex s
  | .true => "T"

def argsStr (d : Dict) : String :=
  if d.isEmpty then "-" else ",".intercalate (d.map fun (k, v) => charsToHex k ++ "=" ++ valStr' v)

def epStr (e : Endpoint) : String :=
  match e.target with
  | .unix p => "U:" ++ charsToHex p ++ ":" ++ argsStr e.args
  | .tcp h p => "T:" ++ charsToHex h ++ ":" ++ toString p ++ ":" ++ argsStr e.args

def optStr? (s : String) : Option (Option Str) :=
  if s == "none" then some none else (hexToChars? s).map some

def parseReaction : String → Option Reaction
  | "n" => some .nothing
  | "c" => some .newCall
  | "u" => some .unregisterSelf
  | "r" => some .registerAnother
  | "p" => some .newProxy
  | "x" => some .raises
  | _ => none

def parseBool : String → Option Bool
  | "0" => some false
  | "1" => some true
  | _ => none

def parseEv (tok : String) : Option Ev :=
  match tok.splitOn ":" with
  | ["af"] => some (.attemptFails .refused)
  | ["af", "refused"] => some (.attemptFails .refused)
  | ["af", "connectError"] => some (.attemptFails .connectError)
  | ["af", "dnsLookup"] => some (.attemptFails .dnsLookup)
  | ["af", "timeout"] => some (.attemptFails .timeout)
  | ["af", "other"] => some (.attemptFails .other)
  | ["ac"] => some .attemptConnects
  | ["ap"] => some .authProgress
  | ["ao"] => some .authOk
  | ["ax"] => some .authFailed
  | ["hr"] => some (.helloReply true)
  | ["hr", "noname"] => some (.helloReply false)
  | ["he"] => some .helloError
  | ["cl"] => some .close
  | ["rp", s, b] => do some (.reply (← s.toNat?) (← parseBool b))
  | ["ex", s] => do some (.expire (← s.toNat?))
  | ["ca", b, r] => do some (.call (← parseBool b) (← parseReaction r))
  | ["no", r] => do some (.notify (← parseReaction r))
  | ["cn", c] => do some (.cancelNotify (← c.toNat?))
  | ["pe", k] => do some (.proxyExplicit (← k.toNat?))
  | ["pi", k] => do some (.proxyIntrospect (← k.toNat?))
  | ["pn", p, r] => do some (.proxyNotify (← p.toNat?) (← parseReaction r))
  | ["pc", p, c] => do some (.proxyCancelNotify (← p.toNat?) (← c.toNat?))
  | ["dp", p] => do some (.dropProxy (← p.toNat?))
  | ["cd", s] => do some (.cancelCall (← s.toNat?))
  | _ => none

def resName : ConnectResult → String
  | .connection => "connection"
  | .noAddress => "noAddress"
  | .unreachable => "unreachable"
  | .helloError => "helloError"
  | .helloNoName => "helloNoName"
  | .lostEarly => "lostEarly"

def kindName : ErrKind → String
  | .lost => "lost"
  | .introspectionFailed => "introspectionFailed"
  | .remote => "remote"
  | .timeout => "timeout"
  | .cancelled => "cancelled"

def fxStr : Fx → String
  | .attempt ep =>
    match ep.target with
    | .unix p => "at:U:" ++ charsToHex p
    | .tcp h p => "at:T:" ++ charsToHex h ++ ":" ++ toString p
  | .connectFired r => "cf:" ++ resName r
  | .callOk s => "ok:" ++ toString s
  | .callErr s k => "er:" ++ toString s ++ ":" ++ kindName k
  | .timerCancelled s => "tc:" ++ toString s
  | .connCb c => "cc:" ++ toString c
  | .proxyCb p c => "pc:" ++ toString p ++ ":" ++ toString c
  | .crashed => "crash"

def phaseName : Phase → String
  | .connecting => "connecting"
  | .authenticating => "authenticating"
  | .helloSent => "helloSent"
  | .ready => "ready"
  | .helloFailed => "helloFailed"
  | .exhausted => "exhausted"
  | .closedEarly => "closedEarly"
  | .lost => "lost"

def natsStr (l : List Nat) : String :=
  if l.isEmpty then "-" else ",".intercalate (l.map toString)

def stateStr (s : St) : String :=
  "ph=" ++ phaseName s.phase ++
  " fired=" ++ (if s.fired.isEmpty then "-" else ",".intercalate (s.fired.map resName)) ++
  " pend=" ++ (if s.pending.isEmpty then "-" else
      ",".intercalate (s.pending.map fun c => toString c.serial ++ (if c.cancelled then "c" else "") ++ (if c.timed then "t" else ""))) ++
  " timers=" ++ natsStr s.timers ++
  " dc=" ++ natsStr (s.dcCallbacks.map (·.id)) ++
  " reg=" ++ natsStr (s.registry.map (·.2)) ++
  " prox=" ++ (if s.proxies.isEmpty then "-" else
      ",".intercalate (s.proxies.map fun p =>
        toString p.id ++ (if p.alive then "a" else "d") ++ "[" ++ ".".intercalate (p.cbs.map fun c => toString c.id) ++ "]"))

def lifeLine (v : Variant) (pid : String) (addr : String) (evs : List String) : String :=
  match hexToChars? addr, hexToChars? pid, evs.mapM parseEv with
  | some a, some pid, some es =>
    match getDBusEndpoints { session := none, system := none, pid := pid } a with
    | .error e => "parse-err " ++ errName e
    | .ok eps =>
      let s := run v (connect eps) es
      " ".intercalate (s.log.map fxStr) ++ " | " ++ stateStr s
  | _, _, _ => "bad-input"

def stateLine (s : St) : String :=
  " ".intercalate (s.log.map fxStr) ++ " | " ++ stateStr s

/-- The token list of `proc`, cut at the `/` tokens. -/
def splitRounds : List String → List (List String)
  | [] => [[]]
  | t :: ts =>
    match splitRounds ts with
    | [] => [[t]]
    | r :: rs => if t == "/" then [] :: r :: rs else (t :: r) :: rs

def procLine (pid : String) (addr : String) (toks : List String) : String :=
  match hexToChars? addr, hexToChars? pid, (splitRounds toks).mapM (fun r => r.mapM parseEv) with
  | some a, some pid, some hs =>
    " // ".intercalate ((connectMany .repaired { session := none, system := none, pid := pid } a hs).map fun
      | .ok s => stateLine s
      | .error e => "parse-err " ++ errName e)
  | _, _, _ => "bad-input"

namespace DrvCAH
open Txdbus.Client Txdbus.Client.ConnectAuth

def errName : Txdbus.AuthClient.CookieErr → List UInt8
  | .oddLength => "oddLength".toUTF8.toList | .nonHex => "nonHex".toUTF8.toList | .arity => "arity".toUTF8.toList
  | .badContext => "badContext".toUTF8.toList | .stat => "stat".toUTF8.toList | .perms => "perms".toUTF8.toList
  | .owner => "owner".toUTF8.toList | .ctxAscii => "ctxAscii".toUTF8.toList | .openFile => "openFile".toUTF8.toList
  | .noCookie => "noCookie".toUTF8.toList

def parseOutcome : String → Option (Option HelloOutcome)
  | "N" => some (some .named) | "U" => some (some .unnamed) | "E" => some (some .error) | "G" => some (some .garbage)
  | "-" => some none
  | _ => none

def outcomeStr : Option HelloOutcome → String
  | some .named => "N" | some .unnamed => "U" | some .error => "E" | some .garbage => "G" | none => "-"

def parseStep (tok : String) : Option Step :=
  if tok == "l" then some .lost
  else match tok.splitOn ":" with
    | ["r", h] => (hexToBytes? h).map Step.read
    | _ => none

def evStr : Txdbus.AuthClient.Ev → Option String
  | .nul => some "N" | .recv _ => none | .send l => some ("S:" ++ bytesToHex l) | .close => some "C"
  | .authenticated => some "A"

def levStr : Txdbus.Client.Lifecycle.Ev → String
  | .authOk => "ao" | .authFailed => "ax" | .helloReply true => "hr" | .helloReply false => "hr:noname"
  | .helloError => "he" | .close => "cl" | _ => "?"

/-- Run step by step; remember the first step at which the client had closed / the Deferred had fired. -/
def runObs (cfg : Cfg) : ConnectAuth.St → List Step → Nat → Option Nat → Option Nat → ConnectAuth.St × Option Nat × Option Nat
  | s, [], _, c, f => (s, c, f)
  | s, st :: rest, i, c, f =>
    let s' := Txdbus.Client.ConnectAuth.step cfg s st
    let c' := match c with
      | some k => some k
      | none => if s'.proto.disconnecting then some i else none
    let f' := match f with
      | some k => some k
      | none => if s'.life.fired.isEmpty then none else some i
    runObs cfg s' rest (i + 1) c' f'

def optNat : Option Nat → String
  | some k => toString k
  | none => "-"

def line (toks : List String) : String :=
  match toks with
  | v :: unix :: user :: n :: o :: cr :: steps =>
    match (if v == "r" then some Variant.repaired else if v == "o" then some Variant.original else none),
          hexToBytes? user, hexToBytes? n, parseOutcome o, hexToBytes? cr, steps.mapM parseStep with
    | some v, some user, some answer, some o, some cr, some steps =>
      let env : Txdbus.AuthClient.Env :=
        { user := user, dirStat := none, file := fun _ => none, rnd := [], sha1 := fun x => x, errText := errName }
      let cfg : Cfg :=
        { v := v, pref := Txdbus.Gen.ClientAuth.preference, unix := unix == "1", envAt := fun _ => env,
          decode := fun b => if answer.isPrefixOf b then o else none,
          crash := fun b => !cr.isEmpty && cr.isPrefixOf b }
      let ep : Endpoint := { target := .unix ['/', 'x'], args := [] }
      let s0 : ConnectAuth.St := init cfg (Txdbus.Client.Lifecycle.step v (connect [ep]) .attemptConnects)
      let c0 := if s0.proto.disconnecting then some 0 else none
      let (s, c, f) := runObs cfg s0 steps 0 c0 none
      " ".intercalate (s.proto.trace.filterMap evStr) ++
        " | auth=" ++ (if s.proto.authenticated then "1" else "0") ++
        " disc=" ++ (if s.proto.disconnecting then "1" else "0") ++
        " closedAt=" ++ optNat c ++ " firedAt=" ++ optNat f ++
        " fired=" ++ (if s.life.fired.isEmpty then "-" else ",".intercalate (s.life.fired.map resName)) ++
        " ph=" ++ phaseName s.life.phase ++
        " evs=" ++ (if s.evs.isEmpty then "-" else ",".intercalate (s.evs.map levStr)) ++
        " hello=" ++ outcomeStr s.hello ++ " lost=" ++ (if s.lost then "1" else "0") ++
        " raised=" ++ (if s.raised then "1" else "0") ++
        " delivered=" ++ toString s.delivered.length
    | _, _, _, _, _, _ => "bad-input"
  | _ => "bad-input"

end DrvCAH

def step (line : String) : String :=
  match words line with
  | ["parse", a, se, sy, pid] =>
    match hexToChars? a, optStr? se, optStr? sy, hexToChars? pid with
    | some a, some se, some sy, some pid =>
      match getDBusEndpoints { session := se, system := sy, pid := pid } a with
      | .ok eps => "ok " ++ toString eps.length ++ String.join (eps.map fun e => " " ++ epStr e)
      | .error e => "err " ++ errName e
    | _, _, _, _ => "bad-input"
  | "life" :: pid :: a :: evs => lifeLine .repaired pid a evs
  | "proc" :: pid :: a :: toks => procLine pid a toks
  | "lifeorig" :: pid :: a :: evs => lifeLine .original pid a evs
  | "life5" :: pid :: a :: evs => lifeLine .fiveFixes pid a evs
  | "cah" :: toks => DrvCAH.line toks
  | _ => "bad-input"

def main : IO Unit := Driver.run (fun (s : Unit) line => (s, step line)) ()
