import Driver.Common
import TxdbusModel.Auth.ServerLines
import TxdbusModel.Auth.Mechs
import TxdbusModel.Auth.SpecServer
import TxdbusModel.Auth.ServerMulti
/-!
Driver for property C06.  One case per line, one answer per line.

  S <guid> <script> <read>*           scripted mechanisms; script = `-` or items `A` / `R` / `C<hex>` joined by `,`
  R <guid> <env> <read>*              the real mechanisms; env = `creds;passwd;dirs;files;now;ctx;sha`
                                        creds  `-` or uid (may be negative)
                                        passwd `-` or name:uid:gid:home joined by `,` (name, home hex)
                                        dirs   `-` or home:a|g|b joined by `,`
                                        files  `-` or home:ID.TIME.COOKIE/ID.TIME.COOKIE.. joined by `,` (empty file: `home:`)
                                        sha    `-` or in:out joined by `,` (hex)
  N <guid> <scripts> <event>*         several connections of one bus, scripted mechanisms (Auth/ServerMulti.lean); scripts =
                                        one script per connection (as in S) joined by `/`; events `c` (connect),
                                        `r<k>:<hex>` (read on connection k), `l<k>` (connection k lost);
                                        answer: the S answer of every connection joined by ` | `
  M <guid> <env> <event>*             the same with the real mechanisms on ONE environment (creds of env ignored); events
                                        `c:<creds>` (connect; the peer's uid as SO_PEERCRED gives it, `-` = none),
                                        `r<k>:<hex>`, `l<k>`, `t<n>` (the clock advances n seconds);
                                        answer: the R answer of every connection joined by ` | `, then ` || files= dirs= rnd=`
  B <op> <hex>                        bytes helpers
  P <offered,..> <limit> <phase> <rejects> <line> <verdict>   one step of the spec table

Bytes travel as hex (`-` = empty).
-/
open Txdbus.AuthServer

namespace DrvC06

def hx (b : Bytes) : String := Driver.bytesToHex b
def unhx (s : String) : Bytes := (Driver.hexToBytes? s).getD []
def hxs (l : List Bytes) : String := if l.isEmpty then "-" else ",".intercalate (l.map hx)
def bit (b : Bool) : String := if b then "1" else "0"

def stName : St → String
  | .waitingForAuth => "WaitingForAuth" | .waitingForData => "WaitingForData" | .waitingForBegin => "WaitingForBegin"

def splitNE (s : String) (sep : String) : List String :=
  if s == "-" || s == "" then [] else s.splitOn sep

def parseScript (s : String) : List Outcome :=
  (splitNE s ",").map fun it =>
    if it == "A" then .accept
    else if it == "R" then .reject
    else .challenge (unhx ((it.drop 1).toString))

def protoOut {W I : Type} (p : Proto W I) : String :=
  s!"sent={hxs p.sent} closed={bit p.closed} auth={bit p.authenticated} crashed={bit p.crashed} " ++
  s!"guid={match p.guid with | some g => hx g | none => "none"} bin={hx p.binary} " ++
  s!"handed={hxs (p.log.map (·.line))} state={stName p.srv.state} rejects={p.srv.rejects} " ++
  s!"srvauth={bit p.srv.authenticated} cur={match p.srv.cur with | some (n, _) => hx n | none => "none"}"

def runScripted (ws : List String) : String :=
  match ws with
  | guid :: script :: reads =>
    let S := scripted (Txdbus.Gen.ServerAuth.mechTable.map (·.1))
    let p0 : Proto ScriptWorld Unit := Proto.init (unhx guid) ⟨parseScript script, 0, 0⟩
    let p := runReads S p0 (reads.map unhx)
    protoOut p ++ s!" cancels={p.srv.world.cancels} steps={p.srv.world.steps}"
  | _ => "bad-input"

def rndFn (k n : Nat) : Bytes := (List.range n).map fun j => UInt8.ofNat ((k * 131 + j * 17 + 7) % 256)

def parsePasswd (s : String) : List PwEnt :=
  (splitNE s ",").filterMap fun e =>
    match e.splitOn ":" with
    | [n, u, g, h] => some ⟨unhx n, u.toNat!, g.toNat!, unhx h⟩
    | _ => none

def parseDirs (s : String) : List (Bytes × DirState) :=
  (splitNE s ",").filterMap fun e =>
    match e.splitOn ":" with
    | [h, d] => some (unhx h, if d == "g" then .good else if d == "b" then .bad else .absent)
    | _ => none

def parseFiles (s : String) : List (Bytes × List CookieEnt) :=
  (splitNE s ",").filterMap fun e =>
    match e.splitOn ":" with
    | [h, es] =>
      some (unhx h, (splitNE es "/").filterMap fun c =>
        match c.splitOn "." with
        | [i, t, k] => some ⟨i.toNat!, t.toNat!, unhx k⟩
        | _ => none)
    | _ => none

def parseSha (s : String) : Bytes → Bytes :=
  let tbl : List (Bytes × Bytes) := (splitNE s ",").filterMap fun e =>
    match e.splitOn ":" with
    | [a, b] => some (unhx a, unhx b)
    | _ => none
  fun x => match tbl.find? (fun p => p.1 = x) with
    | some p => p.2
    | none => []

def filesOut (w : RealWorld) : String :=
  let fs := w.files.map fun (h, es) => hx h ++ ":" ++ "/".intercalate (es.map fun e => s!"{e.id}.{hx e.cookie}")
  let fs := fs.toArray.qsort (· < ·) |>.toList
  if fs.isEmpty then "-" else ",".intercalate fs

def dirsOut (w : RealWorld) : String :=
  let ds := w.dirs.filter (fun p => p.2 ≠ .absent) |>.map fun (h, d) => hx h ++ ":" ++ (if d = .good then "g" else "b")
  let ds := ds.toArray.qsort (· < ·) |>.toList
  if ds.isEmpty then "-" else ",".intercalate ds

def runReal (ws : List String) : String :=
  match ws with
  | guid :: env :: reads =>
    match env.splitOn ";" with
    | [creds, passwd, dirs, files, now, ctx, sha] =>
      -- now = seconds, with a trailing `+` when time.time() has a fractional part
      let frac := now.endsWith "+"
      let nowS := if frac then (now.dropEnd 1).toString else now
      let cfg : EnvCfg := ⟨if creds == "-" then none else some creds.toInt!, parsePasswd passwd, nowS.toNat!, frac, rndFn,
                           parseSha sha, unhx ctx⟩
      let w : RealWorld := ⟨cfg, parseDirs dirs, parseFiles files, 0⟩
      let p0 : Proto RealWorld Inst := Proto.init (unhx guid) w
      let p := runReads real p0 (reads.map unhx)
      protoOut p ++ s!" files={filesOut p.srv.world} dirs={dirsOut p.srv.world} rnd={p.srv.world.rndCalls}"
    | _ => "bad-env"
  | _ => "bad-input"

/-! several connections of one bus -/

open Txdbus.AuthServer.Multi in
def runMultiScripted (ws : List String) : String :=
  match ws with
  | guid :: scripts :: evs =>
    let S := scripted (Txdbus.Gen.ServerAuth.mechTable.map (·.1))
    let scr : List (List Outcome) := (scripts.splitOn "/").map parseScript
    let g0 : Nat → ScriptWorld := fun k => ⟨scr.getD k [], 0, 0⟩
    let b0 : Bus (Nat → ScriptWorld) ScriptWorld Unit := Bus.init g0
    let b := evs.foldl (fun b ev =>
      if ev == "c" then Multi.step S scriptedView (unhx guid) b .connect
      else if ev.startsWith "r" then
        match ((ev.drop 1).toString).splitOn ":" with
        | [k, d] => Multi.step S scriptedView (unhx guid) b (.read k.toNat! (unhx d))
        | _ => b
      else if ev.startsWith "l" then Multi.step S scriptedView (unhx guid) b (.lose ((ev.drop 1).toString).toNat!)
      else b) b0
    let outs := (List.range b.conns.length).zip b.conns |>.map fun (k, c) =>
      let w := b.global k
      protoOut c.proto ++ s!" cancels={w.cancels} steps={w.steps}"
    if outs.isEmpty then "-" else " | ".intercalate outs
  | _ => "bad-input"

open Txdbus.AuthServer.Multi in
def runMultiReal (ws : List String) : String :=
  match ws with
  | guid :: env :: evs =>
    match env.splitOn ";" with
    | [_, passwd, dirs, files, now, ctx, sha] =>
      let frac := now.endsWith "+"
      let nowS := if frac then (now.dropEnd 1).toString else now
      let cfg : EnvCfg := ⟨none, parsePasswd passwd, nowS.toNat!, frac, rndFn, parseSha sha, unhx ctx⟩
      let w : RealWorld := ⟨cfg, parseDirs dirs, parseFiles files, 0⟩
      let b0 : Bus RealBus RealWorld Inst := Bus.init ⟨w, fun _ => none⟩
      let b := evs.foldl (fun b ev =>
        if ev.startsWith "c:" then
          let cs := (ev.drop 2).toString
          let c : Option Int := if cs == "-" then none else some cs.toInt!
          let n := b.conns.length
          let b1 := Multi.step real realView (unhx guid) b
            (.env fun g => { g with creds := fun j => if j = n then c else g.creds j })
          Multi.step real realView (unhx guid) b1 .connect
        else if ev.startsWith "r" then
          match ((ev.drop 1).toString).splitOn ":" with
          | [k, d] => Multi.step real realView (unhx guid) b (.read k.toNat! (unhx d))
          | _ => b
        else if ev.startsWith "l" then Multi.step real realView (unhx guid) b (.lose ((ev.drop 1).toString).toNat!)
        else if ev.startsWith "t" then Multi.step real realView (unhx guid) b (.env (tick ((ev.drop 1).toString).toNat!))
        else b) b0
      let outs := b.conns.map fun c => protoOut c.proto
      (if outs.isEmpty then "-" else " | ".intercalate outs) ++
        s!" || files={filesOut b.global.world} dirs={dirsOut b.global.world} rnd={b.global.world.rndCalls}"
    | _ => "bad-env"
  | _ => "bad-input"

def runBytes (ws : List String) : String :=
  match ws with
  | [op, h] =>
    let b := unhx h
    if op == "splitws" then hxs (splitWs b)
    else if op == "strip" then hx (strip b)
    else if op == "unhex" then (match unhexlify b with | some r => "ok:" ++ hx r | none => "error")
    else if op == "hex" then hx (hexlify b)
    else if op == "ascii" then bit (isAscii b)
    else if op == "utf8" then bit (utf8Valid b)
    else if op == "int" then (match parseInt b with | some n => s!"ok:{n}" | none => "error")
    else if op == "crlf" then (let r := splitCRLF b; hxs r.1 ++ "|" ++ hx r.2)
    else if op == "cmd" then (let r := splitCmd b; hx r.1 ++ "|" ++ hx r.2)
    else if op == "dec" then hx (natToDec b.length)
    else "bad-op"
  | _ => "bad-input"

def phaseOf (s : String) : Spec.Phase :=
  if s == "WaitingForAuth" then .waitingForAuth else if s == "WaitingForData" then .waitingForData
  else if s == "WaitingForBegin" then .waitingForBegin else if s == "authenticated" then .authenticated else .closed

def phaseName : Spec.Phase → String
  | .waitingForAuth => "WaitingForAuth" | .waitingForData => "WaitingForData"
  | .waitingForBegin => "WaitingForBegin" | .authenticated => "authenticated" | .closed => "closed"

def runSpec (ws : List String) : String :=
  match ws with
  | [offered, limit, phase, rejects, line, verdict] =>
    let off := (splitNE offered ",").map unhx
    let v : Spec.Verdict := if verdict == "A" then .accept else if verdict == "R" then .reject
      else .moreData (unhx ((verdict.drop 1).toString))
    let r := Spec.step off limit.toNat! ⟨phaseOf phase, rejects.toNat!⟩ (Spec.parse (unhx line)) v
    let rep := match r.2 with
      | .rejected ms => "rejected:" ++ hxs ms
      | .ok => "ok"
      | .data c => "data:" ++ hx c
      | .error => "error"
      | .nothing => "nothing"
    s!"{phaseName r.1.phase} {r.1.rejects} {rep}"
  | _ => "bad-input"

def step (_ : Unit) (line : String) : Unit × String :=
  match Driver.words line with
  | "S" :: ws => ((), runScripted ws)
  | "R" :: ws => ((), runReal ws)
  | "N" :: ws => ((), runMultiScripted ws)
  | "M" :: ws => ((), runMultiReal ws)
  | "B" :: ws => ((), runBytes ws)
  | "P" :: ws => ((), runSpec ws)
  | _ => ((), "bad-input")

end DrvC06

def main : IO Unit := Driver.run DrvC06.step ()
