/-
Line-protocol driver of the C10 code model (`TxdbusModel.Obj.Dispatch`).

One line in, one line out.  Strings travel as the hex of their code points (6 digits each, `-` is
the empty string, `~` is Python `None`).  Lines:

  reset
      forget the exports and the history                                  -> ok
  export <path> <nclasses> {<hasIfaces 0|1> <nifaces> {<name> <nmethods> {<name> <sigIn> <sigOut> <nret>}}
                            <nattrs> {<attr> <funcId> <0 | 1 iface member> <nparams> {<param>}}}
      `exports[path] = obj` before the history starts (class chain in `__mro__` order; <param> =
      names of the positional parameters, self included)                  -> ok
  opexport <path> <obj>      operation of the history: exportObject      -> none
  opunexport <path>          operation of the history: unexportObject    -> none
  call <path> <iface|~> <member> <sig|~> <sender|~> <serial> <expectReply 0|1> <nargs>
       <names> <managedEnc> <outcome>            (<managedEnc> := <enc>: does building the
                                                  GetManagedObjects reply for <path> raise)
      the next operation of the history                                   -> events
  resolve <k> <names> <resolution>
      the Deferred returned by operation k fires                          -> events

  <names>      := <n> {<name> <0|1>}            `validateErrorName(name)` returns, for the names that can occur
  <enc>        := ok | E <cls> <errName|~> <text>        does MethodReturnMessage(...) raise
  <outcome>    := V1 <enc> | VS <n> <encWrapped> <encFlat> | R <cls> <errName|~> <text> | D
  <resolution> := V1 <enc> | VS <n> <encWrapped> <encFlat> | F <cls> <errName|~> <text>

Values are tokens: the arguments of a call are 0..nargs-1, a single return value is 100, the
elements of a returned sequence are 0..n-1 and the sequence taken as one value is 1000.

Events (joined by ` | `, `none` when there are none):
  inv <funcId> <nargs> <caller: - (not passed) | ~ (None) | hex>
  ret <replySerial> <dest|~> <sig|~> <empty | xml | managed | vals:<ids joined by ,>>
  err <name> <replySerial> <dest|~> <text>
-/
import Driver.Common
import TxdbusModel.Obj.Dispatch

open Txdbus.Obj.Dispatch

namespace Driver.C10

abbrev P := StateT (List String) Option

def tok : P String := fun ts =>
  match ts with
  | [] => none
  | t :: rest => some (t, rest)

def nat : P Nat := do
  let t ← tok
  match t.toNat? with
  | some n => pure n
  | none => failure

def bool : P Bool := do
  let n ← nat
  pure (n != 0)

def str : P Str := do
  let t ← tok
  match Driver.hexToChars? t with
  | some cs => pure cs
  | none => failure

def optStr : P (Option Str) := do
  let t ← tok
  if t == "~" then pure none else
  match Driver.hexToChars? t with
  | some cs => pure (some cs)
  | none => failure

def rep {α : Type} (p : P α) : Nat → P (List α)
  | 0 => pure []
  | n + 1 => do
    let a ← p
    let r ← rep p n
    pure (a :: r)

def method : P (Str × Method) := do
  let name ← str
  let sigIn ← str
  let sigOut ← str
  let nret ← nat
  pure (name, { name, sigIn, sigOut, nret })

def iface : P Iface := do
  let name ← str
  let n ← nat
  let ms ← rep method n
  pure { name, methods := ms }

def attr : P (Str × Func) := do
  let a ← str
  let id ← nat
  let d ← nat
  let deco ← if d == 0 then pure none else do
    let i ← str
    let m ← str
    pure (some (i, m))
  let n ← nat
  let ps ← rep str n
  pure (a, { id, deco, params := ps })

def cls : P Class := do
  let h ← bool
  let n ← nat
  let is ← rep iface n
  let k ← nat
  let as ← rep attr k
  pure { ifaces := if h then some is else none, attrs := as }

def exc : P Exc := do
  let c ← str
  let n ← optStr
  let t ← str
  pure { cls := c, errName := n, text := t }

def enc : P (Option Exc) := do
  let t ← tok
  if t == "ok" then pure none else
  if t == "E" then do
    let e ← exc
    pure (some e)
  else failure

def names : P (List (Str × Bool)) := do
  let n ← nat
  rep (do let s ← str; let b ← bool; pure (s, b)) n

/-- The driver's value tokens. -/
def singleTok : Nat := 100
def seqTok : Nat := 1000

structure Result where
  ret : Ret Nat
  encSingle : Option Exc := none
  encWrapped : Option Exc := none
  encFlat : Option Exc := none

def value : String → P Result
  | "V1" => do
    let e ← enc
    pure { ret := .single singleTok, encSingle := e }
  | "VS" => do
    let n ← nat
    let w ← enc
    let f ← enc
    pure { ret := .seq (List.range n), encWrapped := w, encFlat := f }
  | _ => failure

def mkEnv (nm : List (Str × Bool)) (r : Option Result) (managed : Option Exc := none) : Env Nat :=
  { managedErr := fun _ => managed
    encErr := fun _ body =>
      match r with
      | none => none
      | some r =>
        if body = [singleTok] then r.encSingle
        else if body = [seqTok] then r.encWrapped
        else r.encFlat
    ofSeq := fun _ => seqTok
    validErr := fun n => (dictGet nm n).getD false
    textFix := fixSource }

structure St where
  st : State := State.init []

def showOpt : Option Str → String
  | none => "~"
  | some s => Driver.charsToHex s

def showBody : Body Nat → String
  | .empty => "empty"
  | .xml _ => "xml"
  | .managed _ => "managed"
  | .vals vs => "vals:" ++ ",".intercalate (vs.map toString)

def showEvent : Event Nat → String
  | .sent (.ret s d sg b) => s!"ret {s} {showOpt d} {showOpt sg} {showBody b}"
  | .sent (.err n s d t) => s!"err {Driver.charsToHex n} {s} {showOpt d} {Driver.charsToHex t}"
  | .invoked f args caller =>
    let c := match caller with
      | none => "-"
      | some o => showOpt o
    s!"inv {f} {args.length} {c}"

def showEvents (evs : List (Nat × Event Nat)) : String :=
  if evs.isEmpty then "none" else " | ".intercalate (evs.map fun e => showEvent e.2)

def parseExport : P (Str × Obj) := do
  let path ← str
  let n ← nat
  let cs ← rep cls n
  pure (path, { classes := cs })

def parseCall : P (Env Nat × Op Nat) := do
  let path ← str
  let ifc ← optStr
  let member ← str
  let sig ← optStr
  let sender ← optStr
  let serial ← nat
  let er ← bool
  let nargs ← nat
  let nm ← names
  let me ← enc
  let kind ← tok
  let c : Call Nat := { path, iface := ifc, member, sig, sender, serial, expectReply := er,
                        body := List.range nargs }
  if kind == "D" then pure (mkEnv nm none me, .call c fun _ => .deferred)
  else if kind == "R" then do
    let e ← exc
    pure (mkEnv nm none me, .call c fun _ => .raise e)
  else do
    let r ← value kind
    pure (mkEnv nm (some r) me, .call c fun _ => .value r.ret)

def parseResolve : P (Env Nat × Op Nat) := do
  let k ← nat
  let nm ← names
  let kind ← tok
  if kind == "F" then do
    let e ← exc
    pure (mkEnv nm none, .resolve k (.fail e))
  else do
    let r ← value kind
    pure (mkEnv nm (some r), .resolve k (.value r.ret))

def finish {α : Type} (p : P α) (ts : List String) : Option α :=
  match p ts with
  | some (a, []) => some a
  | _ => none

def quietEnv : Env Nat := mkEnv [] none

def stepLine (s : St) (line : String) : St × String :=
  match Driver.words line with
  | ["reset"] => ({}, "ok")
  | "export" :: ts =>
    match finish parseExport ts with
    | some (path, o) => ({ st := { s.st with exports := dictSet s.st.exports path o } }, "ok")
    | none => (s, "parse-error")
  | "opexport" :: ts =>
    match finish parseExport ts with
    | some (path, o) => ({ st := (step quietEnv s.st (.exportObj path o)).1 }, "none")
    | none => (s, "parse-error")
  | ["opunexport", p] =>
    match Driver.hexToChars? p with
    | some path => ({ st := (step quietEnv s.st (.unexportObj path)).1 }, "none")
    | none => (s, "parse-error")
  | "call" :: ts =>
    match finish parseCall ts with
    | some (env, op) =>
      let r := step env s.st op
      ({ st := r.1 }, showEvents r.2)
    | none => (s, "parse-error")
  | "resolve" :: ts =>
    match finish parseResolve ts with
    | some (env, op) =>
      let r := step env s.st op
      ({ st := r.1 }, showEvents r.2)
    | none => (s, "parse-error")
  | _ => (s, "parse-error")

end Driver.C10

def main : IO Unit := Driver.run Driver.C10.stepLine {}
