/-
Line-protocol driver of the C10 code model (`TxdbusModel.Obj.Dispatch`).

One line in, one line out.  Strings travel as the hex of their code points (6 digits each, `-` is
the empty string, `~` is Python `None`).  Lines:

  reset
      forget the exports and the history                                  -> ok
  export <path> <nclasses> {<hasIfaces 0|1> <nifaces> {<name> <nmethods> {<name> <sigIn> <sigOut> <nret>}}
                            <nattrs> {<attr> <funcId> <0 | 1 iface member> <nparams> {<param>}}
                            <nprops> {<number of functions before it in the class body> <interface>}}
      `exports[path] = obj` before the history starts (class chain in `__mro__` order; <param> =
      names of the positional parameters, self included)                  -> ok
  h1 <line>                  the line (export / opexport / opunexport / call / resolve) addresses the SECOND handler of the
                             scenario (own exports, own pending Deferreds; every operation counts for both)
  opexport <path> <obj>      operation of the history: exportObject      -> none
  opunexport <path>          operation of the history: unexportObject    -> none
  opfailed                   an exportObject of the history that raised (a class the library cannot use): the
                             dispatcher's table is untouched, only the numbering of the operations advances -> none
  call <path> <iface|~> <member> <sig|~> <sender|~> <serial> <expectReply 0|1> <nargs>
       <names> <managedEnc> <outcome>            (<managedEnc> := <enc>: does building the
                                                  GetManagedObjects reply for <path> raise)
      the next operation of the history                                   -> events
  resolve <k> <names> <resolution>
      the Deferred returned by operation k fires                          -> events

  <names>      := <n> {<name> <0|1>}            `validateErrorName(name)` returns, for the names that can occur
  <enc>        := ok | E <cls> <errName|~> <text>        does MethodReturnMessage(...) raise
  <outcome>    := V1 <enc> | VS <n> <encWrapped> <encFlat> | R <cls> <errName|~> <text> | D
  <resolution> := V1 <enc> | VS <n> <encWrapped> <encFlat> | F <cls> <errName|~> <text>

Values are tokens: the arguments of a call are 0..nargs-1, a single return value is 100, the
elements of a returned sequence are 0..n-1 and the sequence taken as one value is 1000.

Histories with org.freedesktop.DBus.Properties calls (composition with C17's model,
`TxdbusModel.Obj.DispatchProps`; values are real values, not tokens):

  preset                                  forget the Properties scenario                       -> ok
  pclass | piface .. | pdesc .. | pbind   the class chain, as Driver/C17.lean reads it         -> ok | typeerror | declerr
  pbase                                   `DBusObject` as the generated table describes it     -> its class tokens
  pexport <o> <path> <nclasses> {class}   exportObject of instance <o> (classes of its __mro__ BELOW DBusObject, as in
                                          `export`; the driver appends `baseClass`)            -> done | raised
  punexport <path>                        unexportObject                                       -> none
  passign <o> <attr> <val>                local assignment (C17's `assign`)                    -> C17's outputs
  pcall <path> <iface|~> <member> <sig|~> <sender|~> <serial> <expectReply 0|1> <managedEnc> <nargs> {<arg>}
        <nuser> {<funcId> <N | V<val>>}
        <arg> := s<hex> | v<val> | o<n>   (values as in Driver/C17.lean); the user functions of the scenario (those that
        take a Properties member away from the library) return None / the value            -> signals and messages
  Messages of a pcall:  sig .. (C17's vocabulary) | ret <serial> <dest|~> <sig|~> <empty|xml|managed|nobody|v <sig> <val>|
  d <n> {<key> <sig> <val>}> | err <name> <serial> <dest|~> <text> | errv <serial> <dest|~> (an exception Python raised on a
  bad value: name and text are not the model's) | inv .. (user functions only)

Events (joined by ` | `, `none` when there are none):
  inv <funcId> <nargs> <caller: - (not passed) | ~ (None) | hex>
  ret <replySerial> <dest|~> <sig|~> <empty | xml | managed | vals:<ids joined by ,>>
  err <name> <replySerial> <dest|~> <text>
-/
import Driver.Common
import TxdbusModel.Obj.Dispatch
import TxdbusModel.Obj.DispatchProps

open Txdbus.Obj.Dispatch

namespace Driver.C10

abbrev P := StateT (List String) Option

def tok : P String := fun ts =>
  match ts with
  | [] => none
  | t :: rest => some (t, rest)

def nat : P Nat := do
  let t ← tok
  match t.toNat? with
  | some n => pure n
  | none => failure

def bool : P Bool := do
  let n ← nat
  pure (n != 0)

def str : P Str := do
  let t ← tok
  match Driver.hexToChars? t with
  | some cs => pure cs
  | none => failure

def optStr : P (Option Str) := do
  let t ← tok
  if t == "~" then pure none else
  match Driver.hexToChars? t with
  | some cs => pure (some cs)
  | none => failure

def rep {α : Type} (p : P α) : Nat → P (List α)
  | 0 => pure []
  | n + 1 => do
    let a ← p
    let r ← rep p n
    pure (a :: r)

def method : P (Str × Method) := do
  let name ← str
  let sigIn ← str
  let sigOut ← str
  let nret ← nat
  pure (name, { name, sigIn, sigOut, nret })

def iface : P Iface := do
  let name ← str
  let n ← nat
  let ms ← rep method n
  pure { name, methods := ms }

def attr : P (Str × Func) := do
  let a ← str
  let id ← nat
  let d ← nat
  let deco ← if d == 0 then pure none else do
    let i ← str
    let m ← str
    pure (some (i, m))
  let n ← nat
  let ps ← rep str n
  pure (a, { id, deco, params := ps })

def cls : P Class := do
  let h ← bool
  let n ← nat
  let is ← rep iface n
  let k ← nat
  let as ← rep attr k
  let np ← nat
  let ps ← rep (do let pos ← nat; let i ← str; pure (pos, i)) np
  pure { ifaces := if h then some is else none, attrs := as, propKeys := ps }

def exc : P Exc := do
  let c ← str
  let n ← optStr
  let t ← str
  pure { cls := c, errName := n, text := t }

def enc : P (Option Exc) := do
  let t ← tok
  if t == "ok" then pure none else
  if t == "E" then do
    let e ← exc
    pure (some e)
  else failure

def names : P (List (Str × Bool)) := do
  let n ← nat
  rep (do let s ← str; let b ← bool; pure (s, b)) n

/-- The driver's value tokens. -/
def singleTok : Nat := 100
def seqTok : Nat := 1000

structure Result where
  ret : Ret Nat
  encSingle : Option Exc := none
  encWrapped : Option Exc := none
  encFlat : Option Exc := none

def value : String → P Result
  | "V1" => do
    let e ← enc
    pure { ret := .single singleTok, encSingle := e }
  | "VS" => do
    let n ← nat
    let w ← enc
    let f ← enc
    pure { ret := .seq (List.range n), encWrapped := w, encFlat := f }
  | _ => failure

def mkEnv (nm : List (Str × Bool)) (r : Option Result) (managed : Option Exc := none) : Env Nat :=
  { managedErr := fun _ => managed
    encErr := fun _ body =>
      match r with
      | none => none
      | some r =>
        if body = [singleTok] then r.encSingle
        else if body = [seqTok] then r.encWrapped
        else r.encFlat
    ofSeq := fun _ => seqTok
    validErr := fun n => (dictGet nm n).getD false
    textFix := fixSource }

/-- The scenario with Properties calls: the dispatcher over real values + C17's declarations and state. -/
structure PSt where
  disp : State := State.init []
  classes : List Txdbus.Obj.Props.ClassDef := []      -- reversed: current class is the head
  bad : Bool := false
  world : Option Txdbus.Obj.Props.World := none
  pst : Txdbus.Obj.Props.St := Txdbus.Obj.Props.St.init
  inst : List (Str × Nat) := []                       -- path -> instance exported there last

structure St where
  st : State := State.init []
  /-- the dispatcher of the SECOND handler of the scenario (lines prefixed `h1`); both count every operation -/
  st1 : State := State.init []
  p : PSt := {}

def showOpt : Option Str → String
  | none => "~"
  | some s => Driver.charsToHex s

def showBody : Body Nat → String
  | .empty => "empty"
  | .xml _ => "xml"
  | .managed _ => "managed"
  | .vals vs => "vals:" ++ ",".intercalate (vs.map toString)

def showEvent : Event Nat → String
  | .sent (.ret s d sg b) => s!"ret {s} {showOpt d} {showOpt sg} {showBody b}"
  | .sent (.err n s d t) => s!"err {Driver.charsToHex n} {s} {showOpt d} {Driver.charsToHex t}"
  | .invoked f args caller =>
    let c := match caller with
      | none => "-"
      | some o => showOpt o
    s!"inv {f} {args.length} {c}"

def showEvents (evs : List (Nat × Event Nat)) : String :=
  if evs.isEmpty then "none" else " | ".intercalate (evs.map fun e => showEvent e.2)

def parseExport : P (Str × Obj) := do
  let path ← str
  let n ← nat
  let cs ← rep cls n
  pure (path, { classes := cs })

def parseCall : P (Env Nat × Op Nat) := do
  let path ← str
  let ifc ← optStr
  let member ← str
  let sig ← optStr
  let sender ← optStr
  let serial ← nat
  let er ← bool
  let nargs ← nat
  let nm ← names
  let me ← enc
  let kind ← tok
  let c : Call Nat := { path, iface := ifc, member, sig, sender, serial, expectReply := er,
                        body := List.range nargs }
  if kind == "D" then pure (mkEnv nm none me, .call c fun _ => .deferred)
  else if kind == "R" then do
    let e ← exc
    pure (mkEnv nm none me, .call c fun _ => .raise e)
  else do
    let r ← value kind
    pure (mkEnv nm (some r) me, .call c fun _ => .value r.ret)

def parseResolve : P (Env Nat × Op Nat) := do
  let k ← nat
  let nm ← names
  let kind ← tok
  if kind == "F" then do
    let e ← exc
    pure (mkEnv nm none, .resolve k (.fail e))
  else do
    let r ← value kind
    pure (mkEnv nm (some r), .resolve k (.value r.ret))

def finish {α : Type} (p : P α) (ts : List String) : Option α :=
  match p ts with
  | some (a, []) => some a
  | _ => none

def quietEnv : Env Nat := mkEnv [] none

/-! ### Histories with Properties calls -/

namespace P17

open Txdbus.Obj Txdbus.Obj.DispatchProps

def parseInt? (s : String) : Option Int :=
  match s.toList with
  | '-' :: t => (String.ofList t).toNat?.map fun n => -(Int.ofNat n)
  | _ => s.toNat?.map Int.ofNat

def parseScalar? (s : String) : Option Props.Scalar :=
  match s.toList with
  | ['B', '0'] => some (.bool false)
  | ['B', '1'] => some (.bool true)
  | 'I' :: t => (parseInt? (String.ofList t)).map .int
  | 'D' :: t => (String.ofList t).toNat?.map .dbl
  | 'S' :: t => (Driver.hexToChars? (String.ofList t)).map .str
  | _ => none

def splitNonEmpty (s : String) (sep : String) : List String :=
  if s.isEmpty then [] else s.splitOn sep

def parseVal? (s : String) : Option PVal :=
  match s.toList with
  | ['N'] => some .none
  | ['B', '0'] => some (.bool false)
  | ['B', '1'] => some (.bool true)
  | 'I' :: t => (parseInt? (String.ofList t)).map .int
  | 'D' :: t => (String.ofList t).toNat?.map .dbl
  | 'S' :: t => (Driver.hexToChars? (String.ofList t)).map .str
  | 'L' :: ':' :: t =>
    if t.isEmpty then some (.strs [])
    else (((String.ofList t).splitOn ",").mapM Driver.hexToChars?).map .strs
  | 'W' :: c :: 'I' :: t => (parseInt? (String.ofList t)).map (.wint c)
  | 'W' :: c :: 'S' :: t => (Driver.hexToChars? (String.ofList t)).map (.wstr c)
  | 'X' :: ':' :: t => ((splitNonEmpty (String.ofList t) ",").mapM parseScalar?).map .list
  | 'T' :: ':' :: t => ((splitNonEmpty (String.ofList t) ",").mapM parseScalar?).map .tuple
  | 'K' :: ':' :: t =>
    ((splitNonEmpty (String.ofList t) ",").mapM fun (e : String) =>
      match e.splitOn "=" with
      | [k, v] => do
        let k ← Driver.hexToChars? k
        let v ← parseScalar? v
        pure (k, v)
      | _ => none).map .dict
  | 'Y' :: ':' :: t =>
    ((splitNonEmpty (String.ofList t) ";").mapM fun (e : String) =>
      if e == "_" then some [] else (e.splitOn ",").mapM Driver.hexToChars?).map .lists
  | _ => none

def showInt (n : Int) : String := if n < 0 then "-" ++ toString n.natAbs else toString n.natAbs

def showScalar : Props.Scalar → String
  | .int n => "I" ++ showInt n
  | .bool b => if b then "B1" else "B0"
  | .str s => "S" ++ Driver.charsToHex s
  | .dbl b => "D" ++ toString b

def showVal : PVal → String
  | .none => "N"
  | .int n => "I" ++ showInt n
  | .bool b => if b then "B1" else "B0"
  | .str s => "S" ++ Driver.charsToHex s
  | .dbl b => "D" ++ toString b
  | .strs l => "L:" ++ ",".intercalate (l.map Driver.charsToHex)
  | .wint c n => "W" ++ String.singleton c ++ "I" ++ showInt n
  | .wstr c s => "W" ++ String.singleton c ++ "S" ++ Driver.charsToHex s
  | .list l => "X:" ++ ",".intercalate (l.map showScalar)
  | .tuple l => "T:" ++ ",".intercalate (l.map showScalar)
  | .dict l => "K:" ++ ",".intercalate (l.map fun e => Driver.charsToHex e.1 ++ "=" ++ showScalar e.2)
  | .lists l => "Y:" ++ ";".intercalate (l.map fun x =>
      if x.isEmpty then "_" else ",".intercalate (x.map Driver.charsToHex))

def showErr : Props.ErrCat → String
  | .unknownObject => "unknownObject" | .unknownProp => "unknownProp" | .notReadable => "notReadable"
  | .notWritable => "notWritable" | .unknownIface => "unknownIface" | .value => "value" | .noAttr => "noAttr"

def showOut : Props.Out → String
  | .ret => "ret"
  | .retV s w => s!"retv {Driver.charsToHex s} {showVal w}"
  | .retD l => s!"retd {l.length}" ++ String.join (l.map fun e =>
      s!" {Driver.charsToHex e.1} {Driver.charsToHex e.2.1} {showVal e.2.2}")
  | .err e => "err " ++ showErr e
  | .signal o i p s w => s!"sig {o} {Driver.charsToHex i} {Driver.charsToHex p} {Driver.charsToHex s} {showVal w}"
  | .raised => "raised"
  | .done => "done"

def parseProps : List String → Option (List Props.RawProp)
  | [] => some []
  | n :: s :: r :: w :: e :: rest => do
    let n ← Driver.hexToChars? n
    let s ← Driver.hexToChars? s
    let r ← (if r == "1" then some true else if r == "0" then some false else none)
    let w ← (if w == "1" then some true else if w == "0" then some false else none)
    let e ← (match e with
      | "t" => some Props.EmitsArg.true_ | "f" => some Props.EmitsArg.false_
      | "i" => some Props.EmitsArg.invalidates | "c" => some Props.EmitsArg.const | _ => none)
    let tl ← parseProps rest
    pure (⟨n, s, r, w, e⟩ :: tl)
  | _ => none

/-- the exception Python raises on a bad value, as far as the model goes: a class that is not `Exception` -/
def vexc : Exc := { cls := "ValueError".toList, errName := none, text := [] }

def vexcName : Str := pyExceptionPrefix ++ vexc.cls

def pvArg (t : String) : Option PV :=
  match t.toList with
  | 's' :: r => (Driver.hexToChars? (String.ofList r)).map .str
  | 'v' :: r => (parseVal? (String.ofList r)).map .val
  | 'o' :: r => (String.ofList r).toNat?.map .other
  | _ => none

def showPBody : Body PV → String
  | .empty => "empty"
  | .xml _ => "xml"
  | .managed _ => "managed"
  | .vals [.variant s w] => s!"v {Driver.charsToHex s} {showVal w}"
  | .vals [.dict l] => s!"d {l.length}" ++ String.join (l.map fun e =>
      s!" {Driver.charsToHex e.1} {Driver.charsToHex e.2.1} {showVal e.2.2}")
  | .vals _ => "nobody"

def showPEvent : Event PV → Option String
  | .sent (.ret s d sg b) => some s!"ret {s} {showOpt d} {showOpt sg} {showPBody b}"
  | .sent (.err n s d t) =>
    if n = vexcName then some s!"errv {s} {showOpt d}"
    else some s!"err {Driver.charsToHex n} {s} {showOpt d} {Driver.charsToHex t}"
  | .invoked f args caller =>
    if f ≥ 10000 then none else
    let c := match caller with
      | none => "-"
      | some o => showOpt o
    some s!"inv {f} {args.length} {c}"

def showMethodToks (m : Str × Method) : List String :=
  [Driver.charsToHex m.1, Driver.charsToHex m.2.sigIn, Driver.charsToHex m.2.sigOut, toString m.2.nret]

def showClassToks (c : Class) : List String :=
  let ifs := c.ifaces.getD []
  [if c.ifaces.isSome then "1" else "0", toString ifs.length] ++
    ifs.flatMap (fun i => [Driver.charsToHex i.name, toString i.methods.length] ++ i.methods.flatMap showMethodToks) ++
    [toString c.attrs.length] ++
    c.attrs.flatMap (fun a =>
      [Driver.charsToHex a.1, toString a.2.id] ++
      (match a.2.deco with
       | some (i, m) => ["1", Driver.charsToHex i, Driver.charsToHex m]
       | none => ["0"]) ++
      [toString a.2.params.length] ++ a.2.params.map Driver.charsToHex) ++
    [toString c.propKeys.length] ++ c.propKeys.flatMap (fun p => [toString p.1, Driver.charsToHex p.2])

def pEnv (managed : Option Exc) : Env PV :=
  { managedErr := fun _ => managed
    encErr := fun _ _ => none          -- encodability of Properties results is C17's model's
    ofSeq := fun _ => .other 1000
    validErr := fun _ => true
    textFix := fixSource }

def parsePExport : P (Nat × Str × Obj) := do
  let o ← nat
  let path ← str
  let n ← nat
  let cs ← rep cls n
  pure (o, path, { classes := cs ++ [baseClass] })

def parsePCall : P (Option Exc × Call PV × List (Nat × Outcome PV)) := do
  let path ← str
  let ifc ← optStr
  let member ← str
  let sig ← optStr
  let sender ← optStr
  let serial ← nat
  let er ← bool
  let me ← enc
  let nargs ← nat
  let args ← rep (do let t ← tok; match pvArg t with | some a => pure a | none => failure) nargs
  -- what the USER functions of the scenario return (functions that take Properties members away from the library)
  let nuser ← nat
  let us ← rep (do
    let fid ← nat
    let t ← tok
    let oc : Outcome PV ← (match t.toList with
      | ['N'] => pure (.value (.single (.val .none)))
      | 'V' :: r =>
        match parseVal? (String.ofList r) with
        | some v =>
          -- the value travels in a variant when the member returns one: signature inferred as C17's model infers it
          match Props.encodeVariant ⟨none, v⟩ with
          | some (sg, w) => pure (.value (.single (.variant sg w)))
          | none => pure (.raise vexc)
        | none => failure
      | _ => failure)
    pure (fid, oc)) nuser
  pure (me, { path, iface := ifc, member, sig, sender, serial, expectReply := er, body := args }, us)

def runC17 (d : PSt) (op : Props.Op) : PSt × List Props.Out :=
  match d.world with
  | none => (d, [])
  | some W =>
    let r := Props.step Props.Cfg.repaired W d.pst op
    ({ d with pst := r.1 }, r.2)

def stepLine (d : PSt) (ws : List String) : PSt × String :=
  match ws with
  | ["preset"] => ({}, "ok")
  | ["pclass"] => ({ d with classes := ⟨[], []⟩ :: d.classes }, "ok")
  | "piface" :: name :: rest =>
    match d.classes, Driver.hexToChars? name, parseProps rest with
    | c :: cs, some name, some raw =>
      match Props.mkIface name raw with
      | some f => ({ d with classes := { c with ifaces := c.ifaces ++ [f] } :: cs }, "ok")
      | none => ({ d with bad := true }, "typeerror")
    | _, _, _ => (d, "parse-error")
  | ["pdesc", a, p, i] =>
    match d.classes, Driver.hexToChars? a, Driver.hexToChars? p with
    | c :: cs, some a, some p =>
      let i? : Option (Option Str) := if i == "~" then some none else (Driver.hexToChars? i).map some
      match i? with
      | some i => ({ d with classes := { c with descs := c.descs ++ [⟨a, p, i⟩] } :: cs }, "ok")
      | none => (d, "parse-error")
    | _, _, _ => (d, "parse-error")
  | ["pbind"] =>
    if d.bad then (d, "declerr") else
    match Props.elaborate d.classes.reverse with
    | some W => ({ d with world := some W, pst := Props.St.init }, "ok")
    | none => (d, "declerr")
  | ["pbase"] => (d, " ".intercalate (showClassToks baseClass))
  | "pexport" :: ts =>
    match finish parsePExport ts with
    | some (o, path, obj) =>
      let r := runC17 d (.export o)
      if r.2 = [.done] then
        ({ r.1 with disp := (step (pEnv none) r.1.disp (.exportObj path obj)).1,
                    inst := dictSet r.1.inst path o }, "done")
      else ({ r.1 with disp := { r.1.disp with next := r.1.disp.next + 1 } }, "raised")
    | none => (d, "parse-error")
  | ["punexport", p] =>
    match Driver.hexToChars? p with
    | some path => ({ d with disp := (step (pEnv none) d.disp (.unexportObj path)).1 }, "none")
    | none => (d, "parse-error")
  | ["passign", o, a, v] =>
    match o.toNat?, Driver.hexToChars? a, parseVal? v with
    | some o, some a, some v =>
      let r := runC17 d (.assign o a v)
      (r.1, " | ".intercalate (r.2.map showOut))
    | _, _, _ => (d, "parse-error")
  | "pcall" :: ts =>
    match finish parsePCall ts, d.world with
    | some (me, c, us), some W =>
      let L : Lib := { cfg := Props.Cfg.repaired, W := W, o := (dictGet d.inst c.path).getD 0, vexc := vexc }
      let user : Nat → Outcome PV := fun id =>
        match us.find? (fun u => u.1 == id) with
        | some u => u.2
        | none => .value (.single (.other 100))
      let r := callStep (pEnv me) L d.disp d.pst c user
      let msgs := r.2.2.2.map showOut ++ r.2.2.1.filterMap (fun e => showPEvent e.2)
      ({ d with disp := r.1, pst := r.2.1 }, if msgs.isEmpty then "none" else " | ".intercalate msgs)
    | _, _ => (d, "parse-error")
  | _ => (d, "parse-error")

end P17

/-- operation lines advance the operation counter of the handler they do NOT address too -/
def isOpLine (w : String) : Bool :=
  w == "opexport" || w == "opunexport" || w == "opfailed" || w == "call" || w == "resolve"

def bump (s : State) : State := { s with next := s.next + 1 }

def stepLine0 (s : St) (ws : List String) : St × String :=
  match ws with
  | ["reset"] => ({}, "ok")
  | "export" :: ts =>
    match finish parseExport ts with
    | some (path, o) => ({ s with st := { s.st with exports := dictSet s.st.exports path o } }, "ok")
    | none => (s, "parse-error")
  | "opexport" :: ts =>
    match finish parseExport ts with
    | some (path, o) => ({ s with st := (step quietEnv s.st (.exportObj path o)).1 }, "none")
    | none => (s, "parse-error")
  | ["opfailed"] => ({ s with st := { s.st with next := s.st.next + 1 } }, "none")
  | ["opunexport", p] =>
    match Driver.hexToChars? p with
    | some path => ({ s with st := (step quietEnv s.st (.unexportObj path)).1 }, "none")
    | none => (s, "parse-error")
  | "call" :: ts =>
    match finish parseCall ts with
    | some (env, op) =>
      let r := step env s.st op
      ({ s with st := r.1 }, showEvents r.2)
    | none => (s, "parse-error")
  | "resolve" :: ts =>
    match finish parseResolve ts with
    | some (env, op) =>
      let r := step env s.st op
      ({ s with st := r.1 }, showEvents r.2)
    | none => (s, "parse-error")
  | w :: ts =>
    if w.startsWith "p" then
      let r := P17.stepLine s.p (w :: ts)
      ({ s with p := r.1 }, r.2)
    else (s, "parse-error")
  | _ => (s, "parse-error")

/-- `h1 <line>`: the line addresses the second handler of the scenario. -/
def stepLine (s : St) (line : String) : St × String :=
  match Driver.words line with
  | "h1" :: w :: ts =>
    let r := stepLine0 { s with st := s.st1, st1 := s.st } (w :: ts)
    if r.2 == "parse-error" then (s, "parse-error")
    else ({ r.1 with st := if isOpLine w then bump r.1.st1 else r.1.st1, st1 := r.1.st }, r.2)
  | w :: ts =>
    let r := stepLine0 s (w :: ts)
    if isOpLine w && r.2 != "parse-error" then ({ r.1 with st1 := bump r.1.st1 }, r.2) else r
  | [] => (s, "parse-error")

end Driver.C10

def main : IO Unit := Driver.run Driver.C10.stepLine {}
