import Driver.Common
import Driver.Val
import TxdbusModel.Proto.Framing
import TxdbusModel.Proto.Receive
import TxdbusModel.Msg.WireCodec
import TxdbusModel.Gen.Message
/-!
Driver for property C04: runs the code model of `BasicDBusProtocol.dataReceived` over a list of reads.

Input line (one scenario per line, the driver is stateless):

    R <client 0|1> <authenticated 0|1> <script> <read> <read> ...

  script   the outcomes of the (abstract) authenticator for the lines it is handed, in order:
           a word over c (cont) s (success) f (failed), "-" for none; after the script: cont
  read     hex of one `dataReceived` argument ("-" = the empty read)

Output line: the effects in order, `M<hex>` raw message, `L<hex>` auth line, `X` loseConnection,
`!` exception, then `| <buffer hex> <nextMsgLen> <big 0|1> <authenticated> <firstByte> <closed>`.

    O <hex>            the pre-repair recursive binary branch on one read: `<n messages> <depth>`

    P <client 0|1> <authenticated 0|1> <script> <fds> <read> <read> ...
                       the COMPOSED model (Proto/Receive.lean `recvRun`): the framing model over the reads and, per
                       delivered frame, the whole of `rawDBusMessageReceived`: C03's model of
                       `message.parseMessage(raw, self._receivedFDs)` (Msg/Message.lean, body codec = C01's code model
                       `wireCodec`, tables `Gen.Message.tables`), the slice `_receivedFDs[m.unix_fds:]`, the dispatch on
                       the message type; an exception of parseMessage escapes dataReceived (`!`, the later frames of that
                       read stay buffered, no further read).  <fds> = the initial `_receivedFDs`: `-` (empty) or comma
                       separated integers.
                       -> the output of `R`, then ` || `, then per delivered frame (separated by ` ; `)
                       `ok hook=<call|ret|err|sig|none> type=<n> serial=<n> er=<T|F> as=<T|F> of=<otherFlags> path=<attr>
                       interface=.. member=.. error_name=.. reply_serial=.. destination=.. sender=.. signature=..
                       unix_fds=.. body=<N | value>` or `err <ExceptionName>` (`-` when nothing was delivered), then
                       ` || fds=<final _receivedFDs>`;  attr = N | s<strhex> | i<dec> | b0 | b1 | d<16 hex> | ?other;
                       value in the syntax of Driver/Val.lean.

    H <n> <client_0> <script_0> ... <client_n-1> <script_n-1> <c>:<read> <c>:<read> ...
                       a HISTORY over n connections of one process (Proto/Receive.lean `Conns.runHist`): every
                       connection starts as a freshly made protocol (`St.init`, its own scripted authenticator); the
                       event `<c>:<read>` is one `dataReceived(read)` on connection c.
                       -> per connection, in index order and separated by ` ;; `, the output of `R` for it (the effects
                       that happened ON THAT connection, its final state).
-/
open Txdbus.Proto
open Txdbus.Proto.Receive
open Txdbus.Proto.Receive.Conns

namespace DrvC04

def hexVal (c : Char) : Option Nat :=
  if '0' ≤ c ∧ c ≤ '9' then some (c.toNat - 48)
  else if 'a' ≤ c ∧ c ≤ 'f' then some (c.toNat - 87)
  else if 'A' ≤ c ∧ c ≤ 'F' then some (c.toNat - 55)
  else none

/-- Tail-recursive hex parser (reads of a megabyte must not overflow the stack). -/
def parseHexGo : List Char → List UInt8 → Option (List UInt8)
  | [], acc => some acc.reverse
  | [_], _ => none
  | a :: b :: t, acc =>
    match hexVal a, hexVal b with
    | some x, some y => parseHexGo t (UInt8.ofNat (x * 16 + y) :: acc)
    | _, _ => none

def parseHex (s : String) : Option (List UInt8) :=
  if s == "-" then some [] else parseHexGo s.toList []

def pushHex (out : String) (bs : List UInt8) : String :=
  if bs.isEmpty then out.push '-' else
  bs.foldl (fun o b => (o.push (Driver.nibble (b.toNat / 16))).push (Driver.nibble (b.toNat % 16))) out

def b01 (b : Bool) : String := if b then "1" else "0"

/-- The scripted authenticator: its state is the list of outcomes still to come. -/
def scripted : Auth (List AuthRes) :=
  ⟨fun st _ => match st with
    | [] => ([], .cont)
    | r :: t => (t, r)⟩

def parseScript (s : String) : Option (List AuthRes) :=
  if s == "-" then some [] else
  s.toList.mapM fun c =>
    if c == 'c' then some AuthRes.cont else if c == 's' then some .success
    else if c == 'f' then some .failed else none

def showEffects (es : List Effect) : String :=
  es.foldl (fun o e =>
    match e with
    | .msg m => (pushHex (o.push 'M') m).push ' '
    | .line l => (pushHex (o.push 'L') l).push ' '
    | .lose => o ++ "X "
    | .crash => o ++ "! ") ""

def mapMTR {α β : Type} (f : α → Option β) : List α → List β → Option (List β)
  | [], acc => some acc.reverse
  | a :: t, acc => match f a with
    | some b => mapMTR f t (b :: acc)
    | none => none

def attrStr : Txdbus.PyVal → String
  | .none => "N"
  | .bool b => if b then "b1" else "b0"
  | .int _ n => "i" ++ toString n
  | .float w => "d" ++ Driver.u64ToHex w
  | .str _ s => "s" ++ Driver.charsToHex s
  | _ => "?other"

def attrNames : List (Txdbus.Msg.Attr × String) :=
  [(.path, "path"), (.interface, "interface"), (.member, "member"), (.errorName, "error_name"),
   (.replySerial, "reply_serial"), (.destination, "destination"), (.sender, "sender"),
   (.signature, "signature"), (.unixFds, "unix_fds")]

def tf (b : Bool) : String := if b then "T" else "F"

/-- Step budget of the body codec (as Driver/C03.lean, Driver/WireOps.lean). -/
def wFuel : Nat := 300

def hookName : Option Hook → String
  | some .methodCallReceived => "call"
  | some .methodReturnReceived => "ret"
  | some .errorReceived => "err"
  | some .signalReceived => "sig"
  | none => "none"

def showFds (l : List Txdbus.PyVal) : String :=
  if l.isEmpty then "-" else ",".intercalate (l.map fun v => match v with
    | .int _ n => toString n
    | _ => "?")

def parseFds (t : String) : Option (List Txdbus.PyVal) :=
  if t == "-" then some []
  else ((t.splitOn ",").mapM String.toInt?).map fun l => l.map (Txdbus.PyVal.int .plain)

def showParsed (r : Except Txdbus.PyErr (Option Hook × Txdbus.Msg.Msg Txdbus.PyVal)) : String :=
  match r with
  | .error e => "err " ++ Driver.pyErrName e
  | .ok (h, m) =>
    "ok hook=" ++ hookName h ++ " type=" ++ toString (Txdbus.Gen.Message.tables.messageType m.cls) ++ " serial=" ++ toString m.serial ++
    " er=" ++ tf m.expectReply ++ " as=" ++ tf m.autoStart ++ " of=" ++ toString m.otherFlags ++
    String.join (attrNames.map fun (a, n) => " " ++ n ++ "=" ++ attrStr (m.attrs a)) ++
    " body=" ++ (match m.body with
                 | none => "N"
                 | some v => Driver.printVal v)

def showState (s : St (List AuthRes)) (effs : List Effect) : String :=
  let o := showEffects effs
  let o := pushHex (o ++ "| ") s.buffer
  o ++ " " ++ toString s.nextMsgLen ++ " " ++ b01 s.bigEndian ++ " " ++ b01 s.authenticated
    ++ " " ++ b01 s.firstByte ++ " " ++ b01 s.closed

/-- `client script client script ...` (n pairs), then the events. -/
def parseConns : Nat → List String → Option (List (Bool × List AuthRes) × List String)
  | 0, rest => some ([], rest)
  | n + 1, c :: sc :: rest =>
    match parseScript sc, parseConns n rest with
    | some script, some (cs, evs) => some ((c == "1", script) :: cs, evs)
    | _, _ => none
  | _, _ => none

def parseEvent (t : String) : Option Event :=
  match t.splitOn ":" with
  | [c, h] =>
    match c.toNat?, parseHex h with
    | some k, some d => some (k, d)
    | _, _ => none
  | _ => none

def handle (line : String) : String :=
  match Driver.words line with
  | "H" :: n :: rest =>
    match n.toNat? with
    | none => "error bad-input"
    | some n =>
      match parseConns n rest with
      | none => "error bad-input"
      | some (cs, evs) =>
        match mapMTR parseEvent evs [] with
        | none => "error bad-input"
        | some es =>
          if es.any (fun e => e.1 ≥ n) then "error bad-connection" else
          let w : Nat → St (List AuthRes) := fun k =>
            match cs[k]? with
            | some (cl, script) => St.init cl script
            | none => St.init true []
          let r := runHist scripted w es
          " ;; ".intercalate ((List.range n).map fun k =>
            let s := r.1 k
            let o := showEffects (effectsOf k r.2)
            let o := pushHex (o ++ "| ") s.buffer
            o ++ " " ++ toString s.nextMsgLen ++ " " ++ b01 s.bigEndian ++ " " ++ b01 s.authenticated
              ++ " " ++ b01 s.firstByte ++ " " ++ b01 s.closed)
  | "P" :: c :: a :: sc :: fd :: reads =>
    match parseScript sc, parseFds fd, mapMTR parseHex reads [] with
    | some script, some fds, some rs =>
      let s0 : St (List AuthRes) :=
        { client := c == "1", buffer := [], nextMsgLen := 0, bigEndian := false,
          authenticated := a == "1", firstByte := true, closed := false, auth := script }
      let r := recvRun Txdbus.Gen.Message.tables (Txdbus.Msg.wireCodec wFuel) scripted s0 fds rs
      let parsed := r.2.2.1.map showParsed
      showState r.1 r.2.1 ++ " || " ++ (if parsed.isEmpty then "-" else " ; ".intercalate parsed)
        ++ " || fds=" ++ showFds r.2.2.2
    | _, _, _ => "error bad-input"
  | "R" :: c :: a :: sc :: reads =>
    match parseScript sc, mapMTR parseHex reads [] with
    | some script, some rs =>
      let s0 : St (List AuthRes) :=
        { client := c == "1", buffer := [], nextMsgLen := 0, bigEndian := false,
          authenticated := a == "1", firstByte := true, closed := false, auth := script }
      let r := run scripted s0 rs
      let s := r.1
      let o := showEffects r.2
      let o := pushHex (o ++ "| ") s.buffer
      o ++ " " ++ toString s.nextMsgLen ++ " " ++ b01 s.bigEndian ++ " " ++ b01 s.authenticated
        ++ " " ++ b01 s.firstByte ++ " " ++ b01 s.closed
    | _, _ => "error bad-input"
  | ["O", h] =>
    match parseHex h with
    | some bs =>
      match binRecOld (bs.length + 2) bs 0 false 1 with
      | some (_, ms, d) => toString ms.length ++ " " ++ toString d
      | none => "error fuel"
    | none => "error bad-input"
  | _ => "error bad-command"

end DrvC04

def main : IO Unit := Driver.run (fun (s : Unit) line => (s, DrvC04.handle line)) ()
