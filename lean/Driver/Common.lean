/-
Shared helpers for the line-protocol drivers: the read/eval/print loop and small
parsers (hex, naturals, tokens).  Core Lean only.
-/
namespace Driver

/-- Run `step` on every input line (trailing newline removed), print one output line per
input line.  The only `partial` definition in the tree (I/O loop). -/
partial def loop {σ : Type} (h : IO.FS.Stream) (out : IO.FS.Stream) (step : σ → String → σ × String) (s : σ) : IO Unit := do
  let line ← h.getLine
  if line.isEmpty then
    out.flush
    return ()
  let line := if line.back == '\n' then (line.dropEnd 1).toString else line
  let line := if line.back == '\r' then (line.dropEnd 1).toString else line
  let (s', o) := step s line
  out.putStrLn o
  loop h out step s'

def run {σ : Type} (step : σ → String → σ × String) (init : σ) : IO Unit := do
  loop (← IO.getStdin) (← IO.getStdout) step init

def hexDigit? (c : Char) : Option Nat :=
  if '0' ≤ c ∧ c ≤ '9' then some (c.toNat - '0'.toNat)
  else if 'a' ≤ c ∧ c ≤ 'f' then some (c.toNat - 'a'.toNat + 10)
  else if 'A' ≤ c ∧ c ≤ 'F' then some (c.toNat - 'A'.toNat + 10)
  else none

/-- Parse an even-length hex string into bytes ("-" or "" is the empty string). -/
def hexToBytes? (s : String) : Option (List UInt8) :=
  if s == "-" then some [] else
  let rec go : List Char → Option (List UInt8)
    | [] => some []
    | [_] => none
    | a :: b :: t => do
      let x ← hexDigit? a
      let y ← hexDigit? b
      let r ← go t
      pure (UInt8.ofNat (x * 16 + y) :: r)
  go s.toList

def nibble (n : Nat) : Char :=
  if n < 10 then Char.ofNat (n + '0'.toNat) else Char.ofNat (n - 10 + 'a'.toNat)

/-- Bytes as lowercase hex; the empty list prints as "-". -/
def bytesToHex (bs : List UInt8) : String :=
  if bs.isEmpty then "-" else
  String.ofList (bs.flatMap fun b => [nibble (b.toNat / 16), nibble (b.toNat % 16)])

/-- A Python `str` travels as the hex of its code points, 6 hex digits each ("-" = empty). -/
def hexToChars? (s : String) : Option (List Char) :=
  if s == "-" then some [] else
  let rec go (fuel : Nat) (cs : List Char) : Option (List Char) :=
    match fuel with
    | 0 => if cs.isEmpty then some [] else none
    | fuel + 1 =>
      match cs with
      | [] => some []
      | a :: b :: c :: d :: e :: f :: t => do
        let ds ← [a, b, c, d, e, f].mapM hexDigit?
        let n := ds.foldl (fun acc x => acc * 16 + x) 0
        let r ← go fuel t
        pure (Char.ofNat n :: r)
      | _ => none
  go (s.length + 1) s.toList

def charsToHex (cs : List Char) : String :=
  if cs.isEmpty then "-" else
  String.ofList (cs.flatMap fun c =>
    let n := c.toNat
    [nibble (n / 1048576 % 16), nibble (n / 65536 % 16), nibble (n / 4096 % 16),
     nibble (n / 256 % 16), nibble (n / 16 % 16), nibble (n % 16)])

def words (s : String) : List String :=
  (s.splitOn " ").filter (· ≠ "")

end Driver
