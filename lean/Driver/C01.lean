import Driver.WireOps
/-! Driver for property C01 (wire codec round trip): the operations of Driver/WireOps.lean. -/
def main : IO Unit := Driver.run (fun (s : Unit) line => (s, Driver.wireStep line)) ()
