import Driver.Common
import TxdbusModel.Intro.Xml
import TxdbusModel.Intro.Registry
/-!
Driver for property C15: runs the code model of interface.py / introspection.py on one case per line.

Strings travel as tokens `=<chars>`: characters of `[A-Za-z0-9_./(){}]` raw, every other one as `%XXXXXX`
(6 hex digits of the code point); the empty string is `=`.

Input lines
  doc <replace> <path> K <n> <ifacedef>*n [F <n> <attempt>*n G <n> <attempt>*n] X <n> (<objpath> <n> <ifacedef>*n)*n Q <n> (<filter|-> <method> <nargs>)*n
  evs <replace> K <n> <ifacedef>*n E <n> (S <name> <n> (<key> <value>)*n | E <name>)*n
  ifacedef := <name> <n> <op>*n
  attempt  := <name> <register> <n> <ctorarg>*n     `DBusInterface(name, *args[, noRegister=True])` inside try/except;
              ctorarg := m … | M … | s … | S … | p … (a member object, as in op) | o (not a member object)
              F: attempts made after the cache was filled and before the first parse; G: between the two parses
  op       := m <name> <in> <out> | M <name> <in> <out> <nargs> <nret> (object already counted) | s <name> <sig>
              | S <name> <sig> <nargs> (already counted) | p <name> <sig> <r> <w> <t|f|i> | dm <name> | ds <name>
              | dp <name> | x
Output
  doc:  `none` | `err <kind>` | `ok <events>|<result>|<calls>|2|<result of a second parse of the same events with
        the other flag on the cache left by the first>[|F|<outcome>,…|<outcome>,…]`   (a result may be `err <kind>`;
        outcome := ok | e:<kind>, the F and the G attempts, only when the line has an F section)
  evs:  <result>
  events := event;event;…     event := S,<name>,<k>=<v>,… | E,<name>
  result := R,<ref>,…|C,<name>=<ref>,…|H,<iface>;<iface>;…       ref := k<i> (known object i) | n<j> (j-th new object)
  iface  := <name>!<method>+…!<signal>+…!<property>+…   method := name:in:out:nargs:nret   signal := name:sig:nargs
            property := name:sig:access:<emits>   emits := s<str> | bT | bF
  calls  := Q,<x>,…   x := A (AttributeError) | T (TypeError) | S:<iface>:<sigIn>:<sigOut>
-/
open Txdbus Txdbus.Intro

namespace Driver.C15

def safeChar (c : Char) : Bool :=
  c.isAlphanum || c == '_' || c == '.' || c == '/' || c == '(' || c == ')' || c == '{' || c == '}'

def encChars (cs : List Char) : List Char :=
  cs.flatMap fun c =>
    if safeChar c then [c] else
      let n := c.toNat
      ['%', nibble (n / 1048576 % 16), nibble (n / 65536 % 16), nibble (n / 4096 % 16),
       nibble (n / 256 % 16), nibble (n / 16 % 16), nibble (n % 16)]

def enc (cs : List Char) : String := String.ofList (encChars cs)

def decChars : Nat → List Char → Option (List Char)
  | 0, cs => if cs.isEmpty then some [] else none
  | _ + 1, [] => some []
  | f + 1, '%' :: a :: b :: c :: d :: e :: g :: t => do
    let ds ← [a, b, c, d, e, g].mapM hexDigit?
    let n := ds.foldl (fun acc x => acc * 16 + x) 0
    let r ← decChars f t
    pure (Char.ofNat n :: r)
  | _ + 1, '%' :: _ => none
  | f + 1, c :: t => do
    let r ← decChars f t
    pure (c :: r)

def decTok (s : String) : Option (List Char) :=
  match s.toList with
  | '=' :: r => decChars (r.length + 1) r
  | _ => none

abbrev P := StateT (List String) (Except String)

def tok : P String := do
  match (← get) with
  | [] => throw "unexpected end of line"
  | t :: ts => set ts; pure t

def str : P (List Char) := do
  let t ← tok
  match decTok t with
  | some s => pure s
  | none => throw s!"bad string token {t}"

def nat : P Nat := do
  let t ← tok
  match t.toNat? with
  | some n => pure n
  | none => throw s!"bad number {t}"

def flag : P Bool := do
  let t ← tok
  if t == "1" then pure true else if t == "0" then pure false else throw s!"bad flag {t}"

def expect (s : String) : P Unit := do
  let t ← tok
  if t == s then pure () else throw s!"expected {s}, got {t}"

def many {α : Type} (p : P α) : Nat → P (List α)
  | 0 => pure []
  | n + 1 => do
    let a ← p
    let r ← many p n
    pure (a :: r)

def counted {α : Type} (p : P α) : P (List α) := do
  let n ← nat
  many p n

def op : P Op := do
  let t ← tok
  if t == "m" then
    let n ← str; let a ← str; let r ← str
    pure (.addMethod (Method.new n a r))
  else if t == "M" then
    -- a Method object that was counted before (already added to another interface, or `nargs` set by hand)
    let n ← str; let a ← str; let r ← str; let na ← nat; let nr ← nat
    pure (.addMethod ⟨n, (na : Int), (nr : Int), a, r⟩)
  else if t == "s" then
    let n ← str; let a ← str
    pure (.addSignal (Signal.new n a))
  else if t == "S" then
    let n ← str; let a ← str; let na ← nat
    pure (.addSignal ⟨n, (na : Int), a⟩)
  else if t == "p" then
    let n ← str; let sg ← str; let r ← flag; let w ← flag
    let e ← tok
    let ea ← if e == "t" then pure EmitsArg.true else if e == "f" then pure EmitsArg.false
             else if e == "i" then pure EmitsArg.invalidates else throw s!"bad emits {e}"
    pure (.addProperty (Property.new n sg r w ea))
  else if t == "dm" then
    let n ← str; pure (.delMethod n)
  else if t == "ds" then
    let n ← str; pure (.delSignal n)
  else if t == "dp" then
    let n ← str; pure (.delProperty n)
  else if t == "x" then pure .getXml
  else throw s!"bad op {t}"

/-- an interface definition: the name and the operations that build it -/
def ifaceDef : P (List Char × List Op) := do
  let n ← str
  let ops ← counted op
  pure (n, ops)

def build (d : List Char × List Op) : Except Err Cached := (Cached.new d.1).applyAll d.2

def buildAll : List (List Char × List Op) → Except Err (List Cached)
  | [] => .ok []
  | d :: ds =>
    match build d with
    | .error e => .error e
    | .ok c =>
      match buildAll ds with
      | .error e => .error e
      | .ok cs => .ok (c :: cs)

def buildObjs : List (List Char × List (List Char × List Op)) → Except Err (List (List Char × List Cached))
  | [] => .ok []
  | (p, ds) :: r =>
    match buildAll ds with
    | .error e => .error e
    | .ok cs =>
      match buildObjs r with
      | .error e => .error e
      | .ok rs => .ok ((p, cs) :: rs)

def errName : Err → String
  | .notMember => "typeError"
  | .split .typeError => "typeError"
  | .split .stopIteration => "stopIteration"
  | .keyError => "keyError"
  | .attributeError => "attributeError"
  | .unmodelled => "unmodelled"

def sep (s : String) (l : List String) : String := s.intercalate l

def showEvent : Event → String
  | .start n a => sep "," ("S" :: enc n :: a.map fun (k, v) => enc k ++ "=" ++ enc v)
  | .stop n => "E," ++ enc n

def showEvents (es : List Event) : String := sep ";" (es.map showEvent)

def showEmits : Emits → String
  | .str s => "s" ++ enc s
  | .bool true => "bT"
  | .bool false => "bF"

def showInt (i : Int) : String := toString i

def showIface (i : Interface) : String :=
  sep "!" [enc i.name,
    sep "+" (i.methods.map fun m => sep ":" [enc m.name, enc m.sigIn, enc m.sigOut, showInt m.nargs, showInt m.nret]),
    sep "+" (i.signals.map fun s => sep ":" [enc s.name, enc s.sig, showInt s.nargs]),
    sep "+" (i.properties.map fun p => sep ":" [enc p.name, enc p.sig, enc p.access, showEmits p.emits])]

def showRef (nk : Nat) (id : Nat) : String :=
  if id < nk then "k" ++ toString id else "n" ++ toString (id - nk)

def showResult (nk : Nat) (st : HState) : String :=
  sep "|" [sep "," ("R" :: st.interfaces.map (showRef nk)),
           sep "," ("C" :: st.known.map fun (k, v) => enc k ++ "=" ++ showRef nk v),
           "H," ++ sep ";" ((st.heap.drop nk).map showIface)]

/-- the cache before the parse: known definition `j` is object `j`; a later definition of the same
name overwrites the entry (`knownInterfaces[name] = obj` in list order) -/
def knownOf (ks : List Cached) : List (List Char × Nat) :=
  (ks.zipIdx).foldl (fun acc (c, j) => kset acc c.iface.name j) []

/-- a positional argument of the constructor: a member object or `o` (anything else) -/
def ctorArg : P CtorArg := do
  match (← get) with
  | "o" :: ts => set ts; pure .other
  | _ =>
    let o ← op
    match o with
    | .addMethod m => pure (.method m)
    | .addSignal s => pure (.signal s)
    | .addProperty p => pure (.property p)
    | _ => throw "bad constructor argument"

def attempt : P (List Char × Bool × List CtorArg) := do
  let n ← str
  let r ← flag
  let a ← counted ctorArg
  pure (n, r, a)

/-- the optional `F … G …` section -/
def attempts : P (Option (List (List Char × Bool × List CtorArg) × List (List Char × Bool × List CtorArg))) := do
  match (← get) with
  | "F" :: ts =>
    set ts
    let f ← counted attempt
    expect "G"
    let g ← counted attempt
    pure (some (f, g))
  | _ => pure none

/-- `try: DBusInterface(...) except: …` one after the other: outcomes and the process afterwards -/
def runAttempts (w : Proc) : List (List Char × Bool × List CtorArg) → List String × Proc
  | [] => ([], w)
  | (n, r, a) :: rest =>
    let (res, w') := w.construct n a r
    let o := match res with
      | .ok _ => "ok"
      | .error e => "e:" ++ errName e
    let (os, w'') := runAttempts w' rest
    (o :: os, w'')

def query : P (Option (List Char) × List Char × Nat) := do
  let f ← tok
  let filter ← if f == "-" then pure none else
    match decTok f with
    | some s => pure (some s)
    | none => throw s!"bad filter {f}"
  let m ← str
  let n ← nat
  pure (filter, m, n)

def showCall : CallCheck → String
  | .noSuchMethod => "A"
  | .wrongCount => "T"
  | .sent i a r => sep ":" ["S", enc i, enc a, enc r]

def docCase : P String := do
  let replace ← flag
  let path ← str
  expect "K"
  let kdefs ← counted ifaceDef
  let att ← attempts
  expect "X"
  let objs ← counted (do let p ← str; let ds ← counted ifaceDef; pure (p, ds))
  expect "Q"
  let qs ← counted query
  match buildAll kdefs with
  | .error e => pure ("err " ++ errName e)
  | .ok ks =>
    match buildObjs objs with
    | .error e => pure ("err " ++ errName e)
    | .ok exported =>
      match generate path exported with
      | .error e => pure ("err " ++ errName e)
      | .ok none => pure "none"
      | .ok (some evs) =>
        -- the process after the cache was filled, then the constructions attempted before the first parse
        let (before, between) := att.getD ([], [])
        let (o1, w1) := runAttempts ⟨ks.map (·.iface), knownOf ks⟩ before
        match getInterfaces w1.heap w1.known replace evs with
        | .error e => pure (sep "|" ["ok " ++ showEvents evs, "err " ++ errName e])
        | .ok st =>
          let rec_ := st.result.filterMap id
          let calls := qs.map fun (f, m, n) => showCall (callCheck rec_ f m n)
          -- the constructions attempted between the two parses
          let (o2, w2) := runAttempts ⟨st.heap, st.known⟩ between
          -- the same text parsed a second time, with the other flag, on the cache the first parse left
          let second := match getInterfaces w2.heap w2.known (!replace) evs with
            | .error e => "err " ++ errName e
            | .ok st2 => showResult ks.length st2
          let tail := if att.isSome then ["F", sep "," o1, sep "," o2] else []
          pure (sep "|" (["ok " ++ showEvents evs, showResult ks.length st, sep "," ("Q" :: calls), "2", second]
                         ++ tail))

def event : P Event := do
  let t ← tok
  if t == "S" then
    let n ← str
    let a ← counted (do let k ← str; let v ← str; pure (k, v))
    pure (.start n a)
  else if t == "E" then
    let n ← str
    pure (.stop n)
  else throw s!"bad event {t}"

def evsCase : P String := do
  let replace ← flag
  expect "K"
  let kdefs ← counted ifaceDef
  expect "E"
  let evs ← counted event
  match buildAll kdefs with
  | .error e => pure ("err " ++ errName e)
  | .ok ks =>
    match getInterfaces (ks.map (·.iface)) (knownOf ks) replace evs with
    | .error e => pure ("err " ++ errName e)
    | .ok st => pure (showResult ks.length st)

def line (s : String) : String :=
  match words s with
  | "doc" :: r =>
    match (docCase.run r) with
    | .ok (o, []) => o
    | .ok (_, _) => "parse-error trailing tokens"
    | .error e => "parse-error " ++ e
  | "evs" :: r =>
    match (evsCase.run r) with
    | .ok (o, []) => o
    | .ok (_, _) => "parse-error trailing tokens"
    | .error e => "parse-error " ++ e
  | _ => "parse-error unknown command"

end Driver.C15

def main : IO Unit := Driver.run (fun (s : Unit) l => (s, Driver.C15.line l)) ()
