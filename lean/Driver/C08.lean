import Driver.Common
import TxdbusModel.Client.Calls
/-!
Driver for property C08: the pending-call model, one operation per line.

Values are opaque tokens without spaces: `s<hex code points>` for a Python `str`,
`o<hex>` for anything else.  Strings (signatures, error names) are `S<hex code points>`
(6 hex digits per code point, `S-` = empty), `N` = None.

  reset <0|1>                         new connection; 1 = ready (Hello answered)     -> ok
  call <serial> <0|1> <N|Z|P> <rs>    callRemote: expectReply, timeout None/0/positive, returnSignature
  callbad <rs>                        callRemote whose message construction raised
  ret <reply_serial> <sig> <body>     method return; body = `N` | `L tok*`
  err <reply_serial> <name> <body>    error reply
  expire <tid>                        the reactor runs the timeout of call <tid>
  lost <n>                            connectionLost(reason n)
  onerr <did> (<N|Z|P> <rs> <serial>)*   the caller attaches to Deferred <did> an errback that issues these
                                      calls (expectReply=True) when it runs                       -> ok
  onok <did> (<N|Z|P> <rs> <serial>)*    the same for a callback (runs on a value)               -> ok
  ondisc raise | ondisc calls (...)*   notifyOnDisconnect of a callback that raises / issues calls -> ok
  cvt <rs> N | cvt <rs> M <sig> <body>   _cbCvtReply called directly

  <rs> = K (the _NO_CHECK_RETURN default) | N (None) | S<hex>

Every state operation answers
  F[<did>=<outcome>;...] P[<serial>:<did>:<t|->,...] T[<tid>:<serial>,...] X[<fault>,...]
with the firings and faults that are new since the previous answer.
-/
open Txdbus.Calls Driver

abbrev DV := String
abbrev DSt := St DV Nat
abbrev DStR := StR DV Nat

def asStrTok (t : DV) : Option (List Char) :=
  match t.toList with
  | 's' :: rest => hexToChars? (String.ofList rest)
  | _ => none

def parseStr? (t : String) : Option (Option (List Char)) :=
  match t.toList with
  | ['N'] => some none
  | 'S' :: rest => (hexToChars? (String.ofList rest)).map some
  | _ => none

def parseRs? (t : String) : Option RetSig :=
  match t.toList with
  | ['K'] => some .noCheck
  | ['N'] => some .pyNone
  | 'S' :: rest => (hexToChars? (String.ofList rest)).map .str
  | _ => none

def parseBody? : List String → Option (Option (List DV))
  | ["N"] => some none
  | "L" :: toks => some (some toks)
  | _ => none

def parseTmo? (t : String) : Option (Option Nat) :=
  if t == "N" then some none else if t == "Z" then some (some 0) else if t == "P" then some (some 1) else none

def showCvt : Cvt DV → String
  | .none => "N"
  | .one v => "1 " ++ v
  | .many vs => " ".intercalate ("L" :: vs)
  | .remoteError _ => "SE"
  | .pyError => "PYERR"

def showOutcome : Outcome DV Nat → String
  | .value c => showCvt c
  | .remoteError n m vs => " ".intercalate ("RE" :: charsToHex n :: charsToHex m :: vs)
  | .timeOut _ => "TO"
  | .lost r => "LOST " ++ toString r
  | .constructFailed => "EXC"

def showFault : Fault → String
  | .keyError => "keyError"
  | .alreadyCalled => "alreadyCalled"
  | .callbackRaised => "callbackRaised"

def insertSorted (x : Nat × Nat) : List (Nat × Nat) → List (Nat × Nat)
  | [] => [x]
  | y :: t => if x.1 ≤ y.1 then x :: y :: t else y :: insertSorted x t

def showState (old new : DSt) : String :=
  let fs := (new.log.drop old.log.length).map fun (did, f) =>
    toString did ++ "=" ++ showOutcome (outcome (rsOf new did) f)
  let ps := new.pending.map fun (serial, p) =>
    toString serial ++ ":" ++ toString p.did ++ ":" ++ (if p.timer.isSome then "t" else "-")
  let ts := (new.timers.foldr insertSorted []).map fun (tid, serial) => toString tid ++ ":" ++ toString serial
  let xs := (new.faults.drop old.faults.length).map showFault
  "F[" ++ ";".intercalate fs ++ "] P[" ++ ",".intercalate ps ++ "] T[" ++ ",".intercalate ts
    ++ "] X[" ++ ",".intercalate xs ++ "]"

def parseOp? (ws : List String) : Option (Op DV Nat) :=
  match ws with
  | ["call", serial, er, tmo, rs] => do
    let serial ← serial.toNat?
    let tmo ← parseTmo? tmo
    let rs ← parseRs? rs
    pure (.call serial (er == "1") tmo rs)
  | ["callbad", rs] => do
    let rs ← parseRs? rs
    pure (.callBad rs)
  | "ret" :: serial :: sig :: body => do
    let serial ← serial.toNat?
    let sig ← parseStr? sig
    let body ← parseBody? body
    pure (.ret serial ⟨sig, body⟩)
  | "err" :: serial :: name :: body => do
    let serial ← serial.toNat?
    let name ← parseStr? name
    let body ← parseBody? body
    pure (.err serial (name.getD []) body)
  | ["expire", tid] => do
    let tid ← tid.toNat?
    pure (.expire tid)
  | ["lost", r] => do
    let r ← r.toNat?
    pure (.lost r)
  | _ => none

def parseNewCalls? : List String → Option (List NewCall)
  | [] => some []
  | tmo :: rs :: serial :: rest => do
    let tmo ← parseTmo? tmo
    let rs ← parseRs? rs
    let serial ← serial.toNat?
    let more ← parseNewCalls? rest
    pure (⟨serial, tmo, rs⟩ :: more)
  | _ => none

def stepLine (s : DStR) (line : String) : DStR × String :=
  let ws := words line
  match ws with
  | ["reset", r] => (⟨St.init DV Nat (r == "1"), [], []⟩, "ok")
  | "onok" :: did :: rest =>
    match did.toNat?, parseNewCalls? rest with
    | some did, some calls => (stepR asStrTok s (.onOk did calls), "ok")
    | _, _ => (s, "bad-input")
  | ["ondisc", "raise"] => (stepR asStrTok s (.onDisconnect .raises), "ok")
  | "ondisc" :: "calls" :: rest =>
    match parseNewCalls? rest with
    | some calls => (stepR asStrTok s (.onDisconnect (.issues calls)), "ok")
    | none => (s, "bad-input")
  | "onerr" :: did :: rest =>
    match did.toNat?, parseNewCalls? rest with
    | some did, some calls => (stepR asStrTok s (.onErr did calls), "ok")
    | _, _ => (s, "bad-input")
  | ["cvt", rs, "N"] =>
    match parseRs? rs with
    | some rs => (s, showCvt (cvtReply (none : Option (Reply DV)) rs))
    | none => (s, "bad-input")
  | "cvt" :: rs :: "M" :: sig :: body =>
    match parseRs? rs, parseStr? sig, parseBody? body with
    | some rs, some sig, some body => (s, showCvt (cvtReply (some ⟨sig, body⟩) rs))
    | _, _, _ => (s, "bad-input")
  | _ =>
    match parseOp? ws with
    | some op =>
      let s' := stepR asStrTok s (.op op)
      (s', showState s.base s'.base)
    | none => (s, "bad-input")

def main : IO Unit := Driver.run stepLine (⟨St.init DV Nat true, [], []⟩ : DStR)
