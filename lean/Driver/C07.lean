import Driver.Common
import TxdbusModel.Auth.Client
import TxdbusModel.Auth.ClientSha1
import TxdbusModel.Auth.SpecServerRef
import TxdbusModel.Auth.ClientHandshake
import TxdbusModel.Auth.Handshake2
/-!
Driver for property C07: runs the client authenticator model on one scenario per input line.

  run <unix 0|1> <user hex> <dir> <rnd hex> <nfiles> (<ctx hex> <content hex | !>)* <nchunks> <chunk hex>*
        dir = none | <st_mode decimal>:<owned 0|1>        `!` = open() raises
     -> <events> | auth=<0|1> disc=<0|1> buffer=<hex> binary=<hex> guid=<hex|none>
        events: N | R:<hex> | S:<hex> | C | A      (the text after `ERROR ` of a cookie failure is the
        name of the failure kind)

  runp <n> <mechanism hex>*n <rest as run>          the same with an explicit preference list

  hs <unix 0|1> <accept ext 0|1> <accept cookie 0|1> <accept anon 0|1> <fdAgree 0|1> <guid hex-as-hex>
     <user hex> <dir> <rnd hex> <nfiles> (<ctx> <content>)* <cookieCtx hex> <cookieId hex> <cookie hex> <challenge hex>
     -> <transcript: C:<hex> / S:<hex> …> | client=<0|1> server=<state> disc=<0|1>

  hs2 <unix 0|1> <guid hex> <hello hex> <user hex> <clientHome hex> <initStat mode:owned> <bus euid> <client euid>
      <creds;passwd;dirs;files;now;ctx>   (the world, written as for drv_c06 `R`, without the sha table: SHA-1 is computed)
      <errtexts: `-` or kind:hex joined by `,`>  (text of the client's ERROR line per failure kind; default: the kind's name)
      <schedule: `-` or moves joined by `,`: S<n> = one read of the bus, C<n> = one read of the client, n+1 bytes at most>
     -> the composition of the client model and the bus model (Auth/Handshake2.lean) after the schedule:
        <client events> | auth=.. disc=.. buffer=.. binary=.. guid=.. || sent=.. closed=.. auth=.. crashed=.. guid=.. bin=..
        first=.. buf=.. handed=.. state=.. rejects=.. cur=.. files=<home:id.time.cookie/..> dirs=.. rnd=.. owned=<-|0|1> || c2s=<hex> s2c=<hex>
-/
open Txdbus.AuthClient

namespace DrvC07

def errName : CookieErr → Bytes
  | .oddLength => b!"oddLength" | .nonHex => b!"nonHex" | .arity => b!"arity" | .badContext => b!"badContext" | .stat => b!"stat"
  | .perms => b!"perms" | .owner => b!"owner" | .ctxAscii => b!"ctxAscii" | .openFile => b!"openFile"
  | .noCookie => b!"noCookie"

def hx (bs : Bytes) : String := Driver.bytesToHex bs

def evStr : Ev → String
  | .nul => "N" | .recv l => "R:" ++ hx l | .send l => "S:" ++ hx l | .close => "C" | .authenticated => "A"

def b01 (b : Bool) : String := if b then "1" else "0"

def parseDir (s : String) : Option (Option (Nat × Bool)) :=
  if s == "none" then some none else
  match s.splitOn ":" with
  | [m, o] => match m.toNat? with
    | some mode => some (some (mode, o == "1"))
    | none => none
  | _ => none

/-- Parse `<nfiles> (<ctx> <content>)*`; returns the lookup and the remaining tokens. -/
def parseFiles (toks : List String) : Option ((Bytes → Option Bytes) × List String) :=
  match toks with
  | [] => none
  | n :: rest =>
    match n.toNat? with
    | none => none
    | some k =>
      let rec go (k : Nat) (toks : List String) (acc : List (Bytes × Option Bytes)) :
          Option (List (Bytes × Option Bytes) × List String) :=
        match k, toks with
        | 0, toks => some (acc.reverse, toks)
        | k + 1, c :: v :: toks =>
          match Driver.hexToBytes? c with
          | none => none
          | some ctx =>
            if v == "!" then go k toks ((ctx, none) :: acc)
            else match Driver.hexToBytes? v with
              | some content => go k toks ((ctx, some content) :: acc)
              | none => none
        | _, _ => none
      match go k rest [] with
      | none => none
      | some (tbl, toks) =>
        some ((fun ctx => match tbl.find? (fun e => e.1 == ctx) with
                          | some e => e.2
                          | none => none), toks)

def parseEnv (toks : List String) : Option (Env × List String) :=
  match toks with
  | user :: dir :: rnd :: rest =>
    match Driver.hexToBytes? user, parseDir dir, Driver.hexToBytes? rnd, parseFiles rest with
    | some u, some d, some r, some (files, toks) =>
      some ({ user := u, dirStat := d, file := files, rnd := r, sha1 := Sha1.sha1, errText := errName }, toks)
    | _, _, _, _ => none
  | _ => none

def parseChunks (toks : List String) : Option (List Bytes) :=
  match toks with
  | [] => none
  | n :: rest =>
    match n.toNat? with
    | none => none
    | some k => if rest.length != k then none else rest.mapM Driver.hexToBytes?

def optHex : Option Bytes → String
  | none => "none"
  | some b => hx b

def showProto (p : Proto) : String :=
  " ".intercalate (p.trace.map evStr) ++ " | auth=" ++ b01 p.authenticated ++ " disc=" ++ b01 p.disconnecting
    ++ " buffer=" ++ hx p.buffer ++ " binary=" ++ hx p.binary ++ " guid=" ++ optHex p.auth.guid

def stStr : SpecServer.St → String
  | .waitingForAuth => "WaitingForAuth" | .waitingForData _ => "WaitingForData"
  | .waitingForBegin => "WaitingForBegin" | .authenticated => "Authenticated" | .closed => "Closed"

def cmdRunWith (pref : List Bytes) (toks : List String) : String :=
  match toks with
  | unix :: rest =>
    match parseEnv rest with
    | some (env, toks) =>
      match parseChunks toks with
      | some chunks => showProto (clientRun pref (unix == "1") (fun _ => env) chunks)
      | none => "error bad-chunks"
    | none => "error bad-env"
  | _ => "error bad-run"

def cmdRun (toks : List String) : String := cmdRunWith Txdbus.Gen.ClientAuth.preference toks

/-- `runp <n> <mechanism hex>*n <rest as run>`: the same with an explicit preference list. -/
def cmdRunP (toks : List String) : String :=
  match toks with
  | n :: rest =>
    match n.toNat? with
    | some k =>
      match (rest.take k).mapM Driver.hexToBytes? with
      | some pref => if rest.length < k then "error bad-pref" else cmdRunWith pref (rest.drop k)
      | none => "error bad-pref"
    | none => "error bad-pref"
  | _ => "error bad-runp"

def cmdHs (toks : List String) : String :=
  match toks with
  | unix :: ae :: ac :: aa :: fd :: guid :: rest =>
    match Driver.hexToBytes? guid, parseEnv rest with
    | some g, some (env, [cctx, cid, cookie, chal]) =>
      match Driver.hexToBytes? cctx, Driver.hexToBytes? cid, Driver.hexToBytes? cookie, Driver.hexToBytes? chal with
      | some cctx, some cid, some cookie, some chal =>
        let cfg : SpecServer.Cfg :=
          { accepts := fun m => match m with
              | .external => ae == "1" | .cookie => ac == "1" | .anonymous => aa == "1",
            fdAgree := fd == "1", guidHex := g, cookieCtx := cctx, cookieId := cid, cookie := cookie,
            challenge := chal, sha1 := Sha1.sha1 }
        let sys := handshake Txdbus.Gen.ClientAuth.preference (unix == "1") cfg (fun _ => env) 32
        " ".intercalate (sys.transcript.map fun (c, l) => (if c then "C:" else "S:") ++ hx l)
          ++ " | client=" ++ b01 sys.client.authenticated ++ " server=" ++ stStr sys.server
          ++ " disc=" ++ b01 sys.client.disconnecting
      | _, _, _, _ => "error bad-cookie"
    | _, _ => "error bad-hs-env"
  | _ => "error bad-hs"

/-! ### the composition with the bus model (`hs2`) -/
section hs2
open Txdbus.AuthServer (RealWorld Inst PwEnt DirState CookieEnt EnvCfg)

def splitNE (s : String) (sep : String) : List String :=
  if s == "-" || s == "" then [] else s.splitOn sep

def unhx (s : String) : Bytes := (Driver.hexToBytes? s).getD []

/-- `os.urandom`: the k-th call with length n (the same function as drv_c06 and the harness use). -/
def rndFn (k n : Nat) : Bytes := (List.range n).map fun j => UInt8.ofNat ((k * 131 + j * 17 + 7) % 256)

def parsePasswd (s : String) : List PwEnt :=
  (splitNE s ",").filterMap fun e =>
    match e.splitOn ":" with
    | [n, u, g, h] => some ⟨unhx n, u.toNat!, g.toNat!, unhx h⟩
    | _ => none

def parseDirs (s : String) : List (Bytes × DirState) :=
  (splitNE s ",").filterMap fun e =>
    match e.splitOn ":" with
    | [h, d] => some (unhx h, if d == "g" then .good else if d == "b" then .bad else .absent)
    | _ => none

def parseKeyFiles (s : String) : List (Bytes × List CookieEnt) :=
  (splitNE s ",").filterMap fun e =>
    match e.splitOn ":" with
    | [h, es] =>
      some (unhx h, (splitNE es "/").filterMap fun c =>
        match c.splitOn "." with
        | [i, t, k] => some ⟨i.toNat!, t.toNat!, unhx k⟩
        | _ => none)
    | _ => none

def parseWorld (env : String) : Option RealWorld :=
  match env.splitOn ";" with
  | [creds, passwd, dirs, files, now, ctx] =>
    let frac := now.endsWith "+"
    let nowS := if frac then (now.dropEnd 1).toString else now
    let cfg : EnvCfg := ⟨if creds == "-" then none else some creds.toInt!, parsePasswd passwd, nowS.toNat!, frac, rndFn,
                         Sha1.sha1, unhx ctx⟩
    some ⟨cfg, parseDirs dirs, parseKeyFiles files, 0⟩
  | _ => none

def parseErrTexts (s : String) : CookieErr → Bytes :=
  let tbl : List (String × Bytes) := (splitNE s ",").filterMap fun e =>
    match e.splitOn ":" with
    | [k, t] => some (k, unhx t)
    | _ => none
  fun e =>
    let name := String.ofList ((errName e).map fun b => Char.ofNat b.toNat)
    match tbl.find? (fun p => p.1 == name) with
    | some p => p.2
    | none => errName e

def parseMoves (s : String) : Option (List Txdbus.Handshake2.Move) :=
  (splitNE s ",").mapM fun m =>
    match (m.drop 1).toString.toNat? with
    | none => none
    | some n => if m.startsWith "S" then some (.toServer n) else if m.startsWith "C" then some (.toClient n) else none

def hxs (l : List Bytes) : String := if l.isEmpty then "-" else ",".intercalate (l.map hx)

def srvStName : Txdbus.AuthServer.St → String
  | .waitingForAuth => "WaitingForAuth" | .waitingForData => "WaitingForData" | .waitingForBegin => "WaitingForBegin"

def filesOut (w : RealWorld) : String :=
  let fs := w.files.map fun (h, es) => hx h ++ ":" ++ "/".intercalate (es.map fun e => s!"{e.id}.{e.time}.{hx e.cookie}")
  let fs := fs.toArray.qsort (· < ·) |>.toList
  if fs.isEmpty then "-" else ",".intercalate fs

def dirsOut (w : RealWorld) : String :=
  let ds := w.dirs.filter (fun p => p.2 ≠ .absent) |>.map fun (h, d) => hx h ++ ":" ++ (if d = .good then "g" else "b")
  let ds := ds.toArray.qsort (· < ·) |>.toList
  if ds.isEmpty then "-" else ",".intercalate ds

/-- Did the bus create a keyring directory during this run, and does the client's ownership test pass on it? -/
def createdOut (cfg : Txdbus.Handshake2.Cfg) (w : RealWorld) : String :=
  let created := w.dirs.filter fun p => p.2 ≠ .absent && Txdbus.AuthServer.lookupDir cfg.w0 p.1 == .absent
  if created.isEmpty then "-" else b01 (Txdbus.Handshake2.createdOwned cfg)

def showBus (p : Txdbus.Handshake2.SProto) : String :=
  s!"sent={hxs p.sent} closed={b01 p.closed} auth={b01 p.authenticated} crashed={b01 p.crashed} " ++
  s!"guid={match p.guid with | some g => hx g | none => "none"} bin={hx p.binary} " ++
  s!"first={b01 p.firstByte} buf={if p.authenticated then "-" else hx p.buffer} " ++
  s!"handed={hxs (p.log.map (·.line))} state={srvStName p.srv.state} rejects={p.srv.rejects} " ++
  s!"cur={match p.srv.cur with | some (n, _) => hx n | none => "none"} " ++
  s!"files={filesOut p.srv.world} dirs={dirsOut p.srv.world} rnd={p.srv.world.rndCalls}"

def cmdHs2 (toks : List String) : String :=
  match toks with
  | [unix, guid, hello, user, home, istat, beuid, euid, env, errs, sched] =>
    match parseDir istat, parseWorld env, parseMoves sched, euid.toNat?, beuid.toNat? with
    | some (some ist), some w, some moves, some eu, some beu =>
      let cfg : Txdbus.Handshake2.Cfg :=
        { unix := unix == "1", guid := unhx guid, hello := unhx hello, user := unhx user, clientHome := unhx home,
          initStat := ist, busEuid := beu, euid := eu, errText := parseErrTexts errs, w0 := w }
      let st := Txdbus.Handshake2.run cfg (Txdbus.Handshake2.init cfg) moves
      showProto st.c ++ " || " ++ showBus st.s ++ " owned=" ++ createdOut cfg st.s.srv.world
        ++ " || c2s=" ++ hx st.c2s ++ " s2c=" ++ hx st.s2c
    | _, _, _, _, _ => "error bad-hs2-args"
  | _ => "error bad-hs2"

end hs2

def step (_ : Unit) (line : String) : Unit × String :=
  match Driver.words line with
  | "run" :: toks => ((), cmdRun toks)
  | "runp" :: toks => ((), cmdRunP toks)
  | "hs" :: toks => ((), cmdHs toks)
  | "hs2" :: toks => ((), cmdHs2 toks)
  | _ => ((), "error unknown-command")

end DrvC07

def main : IO Unit := Driver.run DrvC07.step ()
