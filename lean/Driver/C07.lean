import Driver.Common
import TxdbusModel.Auth.Client
import TxdbusModel.Auth.ClientSha1
import TxdbusModel.Auth.SpecServerRef
import TxdbusModel.Auth.ClientHandshake
/-!
Driver for property C07: runs the client authenticator model on one scenario per input line.

  run <unix 0|1> <user hex> <dir> <rnd hex> <nfiles> (<ctx hex> <content hex | !>)* <nchunks> <chunk hex>*
        dir = none | <st_mode decimal>:<owned 0|1>        `!` = open() raises
     -> <events> | auth=<0|1> disc=<0|1> buffer=<hex> binary=<hex> guid=<hex|none>
        events: N | R:<hex> | S:<hex> | C | A      (the text after `ERROR ` of a cookie failure is the
        name of the failure kind)

  runp <n> <mechanism hex>*n <rest as run>          the same with an explicit preference list

  hs <unix 0|1> <accept ext 0|1> <accept cookie 0|1> <accept anon 0|1> <fdAgree 0|1> <guid hex-as-hex>
     <user hex> <dir> <rnd hex> <nfiles> (<ctx> <content>)* <cookieCtx hex> <cookieId hex> <cookie hex> <challenge hex>
     -> <transcript: C:<hex> / S:<hex> …> | client=<0|1> server=<state> disc=<0|1>
-/
open Txdbus.AuthClient

namespace DrvC07

def errName : CookieErr → Bytes
  | .oddLength => b!"oddLength" | .nonHex => b!"nonHex" | .arity => b!"arity" | .badContext => b!"badContext" | .stat => b!"stat"
  | .perms => b!"perms" | .owner => b!"owner" | .ctxAscii => b!"ctxAscii" | .openFile => b!"openFile"
  | .noCookie => b!"noCookie"

def hx (bs : Bytes) : String := Driver.bytesToHex bs

def evStr : Ev → String
  | .nul => "N" | .recv l => "R:" ++ hx l | .send l => "S:" ++ hx l | .close => "C" | .authenticated => "A"

def b01 (b : Bool) : String := if b then "1" else "0"

def parseDir (s : String) : Option (Option (Nat × Bool)) :=
  if s == "none" then some none else
  match s.splitOn ":" with
  | [m, o] => match m.toNat? with
    | some mode => some (some (mode, o == "1"))
    | none => none
  | _ => none

/-- Parse `<nfiles> (<ctx> <content>)*`; returns the lookup and the remaining tokens. -/
def parseFiles (toks : List String) : Option ((Bytes → Option Bytes) × List String) :=
  match toks with
  | [] => none
  | n :: rest =>
    match n.toNat? with
    | none => none
    | some k =>
      let rec go (k : Nat) (toks : List String) (acc : List (Bytes × Option Bytes)) :
          Option (List (Bytes × Option Bytes) × List String) :=
        match k, toks with
        | 0, toks => some (acc.reverse, toks)
        | k + 1, c :: v :: toks =>
          match Driver.hexToBytes? c with
          | none => none
          | some ctx =>
            if v == "!" then go k toks ((ctx, none) :: acc)
            else match Driver.hexToBytes? v with
              | some content => go k toks ((ctx, some content) :: acc)
              | none => none
        | _, _ => none
      match go k rest [] with
      | none => none
      | some (tbl, toks) =>
        some ((fun ctx => match tbl.find? (fun e => e.1 == ctx) with
                          | some e => e.2
                          | none => none), toks)

def parseEnv (toks : List String) : Option (Env × List String) :=
  match toks with
  | user :: dir :: rnd :: rest =>
    match Driver.hexToBytes? user, parseDir dir, Driver.hexToBytes? rnd, parseFiles rest with
    | some u, some d, some r, some (files, toks) =>
      some ({ user := u, dirStat := d, file := files, rnd := r, sha1 := Sha1.sha1, errText := errName }, toks)
    | _, _, _, _ => none
  | _ => none

def parseChunks (toks : List String) : Option (List Bytes) :=
  match toks with
  | [] => none
  | n :: rest =>
    match n.toNat? with
    | none => none
    | some k => if rest.length != k then none else rest.mapM Driver.hexToBytes?

def optHex : Option Bytes → String
  | none => "none"
  | some b => hx b

def showProto (p : Proto) : String :=
  " ".intercalate (p.trace.map evStr) ++ " | auth=" ++ b01 p.authenticated ++ " disc=" ++ b01 p.disconnecting
    ++ " buffer=" ++ hx p.buffer ++ " binary=" ++ hx p.binary ++ " guid=" ++ optHex p.auth.guid

def stStr : SpecServer.St → String
  | .waitingForAuth => "WaitingForAuth" | .waitingForData _ => "WaitingForData"
  | .waitingForBegin => "WaitingForBegin" | .authenticated => "Authenticated" | .closed => "Closed"

def cmdRunWith (pref : List Bytes) (toks : List String) : String :=
  match toks with
  | unix :: rest =>
    match parseEnv rest with
    | some (env, toks) =>
      match parseChunks toks with
      | some chunks => showProto (clientRun pref (unix == "1") (fun _ => env) chunks)
      | none => "error bad-chunks"
    | none => "error bad-env"
  | _ => "error bad-run"

def cmdRun (toks : List String) : String := cmdRunWith Txdbus.Gen.ClientAuth.preference toks

/-- `runp <n> <mechanism hex>*n <rest as run>`: the same with an explicit preference list. -/
def cmdRunP (toks : List String) : String :=
  match toks with
  | n :: rest =>
    match n.toNat? with
    | some k =>
      match (rest.take k).mapM Driver.hexToBytes? with
      | some pref => if rest.length < k then "error bad-pref" else cmdRunWith pref (rest.drop k)
      | none => "error bad-pref"
    | none => "error bad-pref"
  | _ => "error bad-runp"

def cmdHs (toks : List String) : String :=
  match toks with
  | unix :: ae :: ac :: aa :: fd :: guid :: rest =>
    match Driver.hexToBytes? guid, parseEnv rest with
    | some g, some (env, [cctx, cid, cookie, chal]) =>
      match Driver.hexToBytes? cctx, Driver.hexToBytes? cid, Driver.hexToBytes? cookie, Driver.hexToBytes? chal with
      | some cctx, some cid, some cookie, some chal =>
        let cfg : SpecServer.Cfg :=
          { accepts := fun m => match m with
              | .external => ae == "1" | .cookie => ac == "1" | .anonymous => aa == "1",
            fdAgree := fd == "1", guidHex := g, cookieCtx := cctx, cookieId := cid, cookie := cookie,
            challenge := chal, sha1 := Sha1.sha1 }
        let sys := handshake Txdbus.Gen.ClientAuth.preference (unix == "1") cfg (fun _ => env) 32
        " ".intercalate (sys.transcript.map fun (c, l) => (if c then "C:" else "S:") ++ hx l)
          ++ " | client=" ++ b01 sys.client.authenticated ++ " server=" ++ stStr sys.server
          ++ " disc=" ++ b01 sys.client.disconnecting
      | _, _, _, _ => "error bad-cookie"
    | _, _ => "error bad-hs-env"
  | _ => "error bad-hs"

def step (_ : Unit) (line : String) : Unit × String :=
  match Driver.words line with
  | "run" :: toks => ((), cmdRun toks)
  | "runp" :: toks => ((), cmdRunP toks)
  | "hs" :: toks => ((), cmdHs toks)
  | _ => ((), "error unknown-command")

end DrvC07

def main : IO Unit := Driver.run DrvC07.step ()
