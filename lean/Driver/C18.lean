import Driver.Common
/-! Driver for property C18 (stub: the model for this property is not built yet). -/
def main : IO Unit := Driver.run (fun (s : Unit) _ => (s, "unimplemented")) ()
