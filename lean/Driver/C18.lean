import Driver.Common
import TxdbusModel.Valid.Grammar
import TxdbusModel.Valid.Names
import TxdbusModel.Valid.MsgNames
/-!
Driver for property C18.  One request per line, one answer per line.  A Python `str` travels
as the hex of its code points (6 digits each, "-" = empty); `~` stands for `None`.

  v <s>                               -> 15 tokens: for path, iface, error, bus, member:
                                         <model, isdigit(non-ASCII)=True> <model, isdigit(non-ASCII)=False> <grammar 0|1>
  call <path> <member> <iface|~> <dest|~>   -> <outcome na=True> <outcome na=False>
  ret <dest|~>                              -> same
  err <error_name> <dest|~>                 -> same
  sig <path> <member> <iface> <dest|~>      -> same

Outcomes: accept | MarshallingError | IndexError | Exception.
-/
open Txdbus.Valid

namespace Driver.C18

def showOutcome : Outcome → String
  | .accept => "accept"
  | .raised .marshallingError => "MarshallingError"
  | .raised .indexError => "IndexError"
  | .raised .exception => "Exception"

def bit (b : Bool) : String := if b then "1" else "0"

def naT : Char → Bool := fun _ => true
def naF : Char → Bool := fun _ => false

def triple (f : (Char → Bool) → Outcome) (g : Bool) : String :=
  showOutcome (f naT) ++ " " ++ showOutcome (f naF) ++ " " ++ bit g

def both (f : (Char → Bool) → Outcome) : String :=
  showOutcome (f naT) ++ " " ++ showOutcome (f naF)

def optStr? (w : String) : Option (Option Str) :=
  if w == "~" then some none else (Driver.hexToChars? w).map some

def step (_ : Unit) (line : String) : Unit × String :=
  let out : String :=
    match Driver.words line with
    | ["v", w] =>
      match Driver.hexToChars? w with
      | none => "bad-input"
      | some s =>
        String.intercalate " " [
          triple (fun _ => validateObjectPath s) (Grammar.objectPath s),
          triple (fun na => validateInterfaceName na s) (Grammar.interfaceName s),
          triple (fun na => validateErrorName na s) (Grammar.errorName s),
          triple (fun na => validateBusName na s) (Grammar.busName s),
          triple (fun na => validateMemberName na s) (Grammar.memberName s)]
    | ["call", p, m, i, d] =>
      match Driver.hexToChars? p, Driver.hexToChars? m, optStr? i, optStr? d with
      | some p, some m, some i, some d => both fun na => constructMethodCall na p m i d
      | _, _, _, _ => "bad-input"
    | ["ret", d] =>
      match optStr? d with
      | some d => both fun na => constructMethodReturn na d
      | _ => "bad-input"
    | ["err", e, d] =>
      match Driver.hexToChars? e, optStr? d with
      | some e, some d => both fun na => constructError na e d
      | _, _ => "bad-input"
    | ["sig", p, m, i, d] =>
      match Driver.hexToChars? p, Driver.hexToChars? m, Driver.hexToChars? i, optStr? d with
      | some p, some m, some i, some d => both fun na => constructSignal na p m i d
      | _, _, _, _ => "bad-input"
    | _ => "bad-request"
  ((), out)

end Driver.C18

def main : IO Unit := Driver.run Driver.C18.step ()
