import Driver.Common
import Driver.Val
import TxdbusModel.Proto.Fds
import TxdbusModel.Proto.FdsMsg
import TxdbusModel.Gen.Message
import TxdbusModel.Msg.Bridge
import TxdbusModel.Wire.ToSpec
/-!
Driver for property C20 (file descriptors stay attached to the message that carried them).

    S <hasSig 0|1> <oob0> <tree>
        sender: `_marshal` + `sendMessage` of a body given as a tree
          tree  ::=  h<nat>  |  p  |  [ tree* ]      (tokens separated by spaces; the body is the
                                                      top-level sequence of trees)
          oob0  ::=  comma separated naturals, "-" for the empty list
        output: `hdr=<n|-> idx=<list> oob=<list> send=<f<n> ... W>`

    V <n> (<rawhex> <declared|-> <idxlist|->){n} E <ev>*
        receiver in binary mode, fresh queue; the table is the abstract parser `info`
        (raw message -> declared unix_fds, indices of its `h` arguments); unknown raw: (-, -)
          ev ::= f<nat> | r<hex>
        output: one `D <rawhex> a=<args> b=<queue before> q=<queue after>` per delivery, then
                `| <buffer hex> <queue>`

    W <client 0|1> <script> <n> (<rawhex> <declared|-> <idxlist|->){n} E <ev>*
        the same on a freshly connected protocol in line mode (the queue exists from connectionMade
        on); script = outcomes of the abstract authenticator per handled line (c / s / f, "-" = none);
        output as for V, followed by ` <authenticated 0|1> <closed 0|1>`

    I <rawhex>
        `infoOfParse` (Proto/FdsMsg.lean): the abstract parser read off C03's `parseMessage` model
        output: `<declared|-> <idxlist|->`

    X <n> <call>{n} E <ev>*
        C20 composed with C03 / C04 / C01 (extension 2026-09-30): sender and receiver on CONSTRUCTED messages.
          call ::= <cls> <next> <max> <er> <as> <path> <member> <iface> <errname> <rserial> <dest> <sender> <sig>
                   <oob> <k> <k body tokens>
                   (the arguments of `buildw` of Driver/C03.lean: cls = call|ret|err|sig, next = the serial counter,
                   max = _maxMsgLen, er/as = T|F, str arguments N | s<strhex>, rserial N | decimal;
                   oob = N (oobFDs=None) | - (oobFDs=[]) | comma separated naturals (a pre-filled list);
                   body = `N` or one value in the syntax of Driver/Val.lean, k = its number of tokens)
        sender: C03's constructor model with C01's code model as body codec (`Msg.construct`, `wireCodec`), then
        `oobAfter` / `sendConstructed` (= `sendMessage`); receiver: `recvRun` with `infoOfParse` on the events,
        and for every delivery `parsedDelivery` (C03's `parseMessage`, C01's codec, on the queue of that moment).
        output: `M raw=<hex> send=<f<n> ... W|?> tree=<tokens|-|?>` (or `M err=<Exception>`) per call, joined by
                ` ; `, then ` || `, then `D <rawhex> a=<args> b=<queue before> q=<queue after> p=<body|N|!Exception>`
                per delivery joined by ` ; `, then ` | <buffer hex> <queue>`, then ` L <hook calls> <crashed 0|1> <queue>`:
                the literal receiver `litRecvRun` (descriptor events + C04's `Receive.handleFrame`) on the same events
-/
open Txdbus.Proto Txdbus.Proto.FdsE2E

namespace DrvC20

def parseNat? (s : String) : Option Nat := s.toNat?

def parseNatList (s : String) : Option (List Nat) :=
  if s == "-" then some [] else (s.splitOn ",").mapM parseNat?

def showNatList (l : List Nat) : String :=
  if l.isEmpty then "-" else ",".intercalate (l.map toString)

def showOptList (l : List (Option Nat)) : String :=
  if l.isEmpty then "-" else ",".intercalate (l.map fun o => match o with | some n => toString n | none => "None")

/-- Parse a sequence of trees up to the closing bracket (or the end at depth 0).  Fuel = token count. -/
def parseTrees : Nat → List String → Option (List BV × List String)
  | 0, _ => none
  | _ + 1, [] => some ([], [])
  | fuel + 1, tok :: rest =>
    if tok == "]" then some ([], tok :: rest)
    else if tok == "[" then
      match parseTrees fuel rest with
      | some (items, "]" :: rest') =>
        match parseTrees fuel rest' with
        | some (more, rest'') => some (BV.seq items :: more, rest'')
        | none => none
      | _ => none
    else if tok == "p" then
      match parseTrees fuel rest with
      | some (more, rest') => some (BV.plain :: more, rest')
      | none => none
    else if tok.startsWith "h" then
      match (tok.drop 1).toString.toNat?, parseTrees fuel rest with
      | some n, some (more, rest') => some (BV.fd n :: more, rest')
      | _, _ => none
    else none

def hexVal (c : Char) : Option Nat :=
  if '0' ≤ c ∧ c ≤ '9' then some (c.toNat - 48)
  else if 'a' ≤ c ∧ c ≤ 'f' then some (c.toNat - 87)
  else none

def parseHexGo : List Char → List UInt8 → Option (List UInt8)
  | [], acc => some acc.reverse
  | [_], _ => none
  | a :: b :: t, acc =>
    match hexVal a, hexVal b with
    | some x, some y => parseHexGo t (UInt8.ofNat (x * 16 + y) :: acc)
    | _, _ => none

def parseHex (s : String) : Option (List UInt8) :=
  if s == "-" then some [] else parseHexGo s.toList []

def sender (hasSig : String) (oob0 : String) (toks : List String) : String :=
  match parseNatList oob0, parseTrees (toks.length + 1) toks with
  | some o, some (body, []) =>
    let m := marshalMsg (hasSig == "1") body o
    let ev := sendMessage m
    "hdr=" ++ (match m.header with | some k => toString k | none => "-")
      ++ " idx=" ++ showNatList m.indices ++ " oob=" ++ showNatList m.oob
      ++ " send=" ++ " ".intercalate (ev.map fun e => match e with | .sendFd d => "f" ++ toString d | .write => "W")
  | _, _ => "error bad-input"

def parseTable : Nat → List String → Option (List (List UInt8 × MsgInfo) × List String)
  | 0, rest => some ([], rest)
  | n + 1, raw :: decl :: idx :: rest =>
    match parseHex raw, (if decl == "-" then some none else (parseNat? decl).map some), parseNatList idx,
          parseTable n rest with
    | some r, some d, some i, some (t, rest') => some ((r, ⟨d, i⟩) :: t, rest')
    | _, _, _, _ => none
  | _, _ => none

def parseEv (s : String) : Option Ev :=
  if s.startsWith "f" then (parseNat? (s.drop 1).toString).map Ev.fd
  else if s.startsWith "r" then (parseHex (s.drop 1).toString).map Ev.read
  else none

def lookup (t : List (List UInt8 × MsgInfo)) (raw : List UInt8) : MsgInfo :=
  match t.find? (fun e => e.1 == raw) with
  | some e => e.2
  | none => ⟨none, []⟩

def noAuth : Auth Unit := ⟨fun _ _ => ((), .cont)⟩

def receiver (n : String) (toks : List String) : String :=
  match parseNat? n with
  | none => "error bad-input"
  | some n =>
    match parseTable n toks with
    | some (table, "E" :: evs) =>
      match evs.mapM parseEv with
      | none => "error bad-event"
      | some es =>
        let s0 : St Unit := { St.init true () with authenticated := true }
        let r := recvRun noAuth (lookup table) ⟨s0, []⟩ es
        let ds := r.2.map fun d =>
          "D " ++ Driver.bytesToHex d.raw ++ " a=" ++ showOptList d.args ++ " b=" ++ showNatList d.queueBefore
            ++ " q=" ++ showNatList d.queueAfter
        " ".intercalate ds ++ " | " ++ Driver.bytesToHex r.1.st.buffer ++ " " ++ showNatList r.1.queue
    | _ => "error bad-table"

def scripted : Auth (List AuthRes) :=
  ⟨fun st _ => match st with
    | [] => ([], .cont)
    | r :: t => (t, r)⟩

def parseScript (s : String) : Option (List AuthRes) :=
  if s == "-" then some [] else
  s.toList.mapM fun c =>
    if c == 'c' then some AuthRes.cont else if c == 's' then some .success
    else if c == 'f' then some .failed else none

def b01 (b : Bool) : String := if b then "1" else "0"

def receiverLine (client script n : String) (toks : List String) : String :=
  match parseNat? n, parseScript script with
  | some n, some sc =>
    match parseTable n toks with
    | some (table, "E" :: evs) =>
      match evs.mapM parseEv with
      | none => "error bad-event"
      | some es =>
        let s0 : St (List AuthRes) := St.init (client == "1") sc
        let r := recvRun scripted (lookup table) ⟨s0, []⟩ es
        let ds := r.2.map fun d =>
          "D " ++ Driver.bytesToHex d.raw ++ " a=" ++ showOptList d.args ++ " b=" ++ showNatList d.queueBefore
            ++ " q=" ++ showNatList d.queueAfter
        " ".intercalate ds ++ " | " ++ Driver.bytesToHex r.1.st.buffer ++ " " ++ showNatList r.1.queue
          ++ " " ++ b01 r.1.st.authenticated ++ " " ++ b01 r.1.st.closed
    | _ => "error bad-table"
  | _, _ => "error bad-input"


/-! ### C20 composed with C03 (Proto/FdsMsg.lean) -/

open Txdbus Txdbus.Msg Driver in
def infoLine (rawhex : String) : String :=
  match parseHex rawhex with
  | none => "error bad-input"
  | some raw =>
    let i := infoOfParse Gen.Message.tables raw
    (match i.declared with | some k => toString k | none => "-") ++ " " ++ showNatList i.indices

def xFuel : Nat := 300

def optStr? (t : String) : Option (Option (List Char)) :=
  if t == "N" then some none
  else if t.startsWith "s" then (Driver.hexToChars? (t.drop 1).toString).map some
  else none

def bool? (t : String) : Option Bool :=
  if t == "T" then some true else if t == "F" then some false else none

open Txdbus in
def oobX? (t : String) : Option (Option (List PyVal)) :=
  if t == "N" then some none
  else (parseNatList t).map fun l => some (l.map fdVal)

mutual
def bvTokens : BV → List String
  | .fd d => ["h" ++ toString d]
  | .plain => ["p"]
  | .seq items => "[" :: (bvTokensL items ++ ["]"])
def bvTokensL : List BV → List String
  | [] => []
  | v :: vs => bvTokens v ++ bvTokensL vs
end

open Txdbus Txdbus.Msg Driver in
/-- One constructor call -> (the call, next serial, max length, remaining tokens). -/
def parseCall (toks : List String) : Option (Call PyVal × Nat × Nat × List String) :=
  match toks with
  | cls :: nxt :: mx :: er :: as :: path :: member :: iface :: errname :: rserial :: dest :: sender :: sg :: oob ::
      k :: rest =>
    match nxt.toNat?, mx.toNat?, bool? er, bool? as, optStr? path, optStr? member, optStr? iface, k.toNat? with
    | some nxt, some mx, some er, some as, some path, some member, some iface, some k =>
      let btoks := rest.take k
      let rest' := rest.drop k
      let body? : Option (Option PyVal) :=
        if btoks == ["N"] then some none
        else match parseVals 1 btoks with
          | some ([v], []) => some (some v)
          | _ => none
      match optStr? errname, (if rserial == "N" then some none else rserial.toInt?.map some), optStr? dest,
            optStr? sender, optStr? sg, oobX? oob, body? with
      | some errname, some rserial, some dest, some sender, some sg, some oob, some body =>
        let call : Option (Call PyVal) :=
          if cls == "call" then
            some (.methodCall { path := path, member := member, interface := iface, destination := dest,
                                signature := sg, body := body, expectReply := er, autoStart := as, oobFDs := oob })
          else if cls == "ret" then
            rserial.map fun rs => .methodReturn { replySerial := rs, body := body, destination := dest, signature := sg }
          else if cls == "err" then
            rserial.map fun rs => .error { errorName := errname, replySerial := rs, destination := dest,
                                           signature := sg, body := body, sender := sender }
          else if cls == "sig" then
            some (.signal { path := path, member := member, interface := iface, destination := dest,
                            signature := sg, body := body })
          else none
        if rest.length < k then none else call.map fun c => (c, nxt, mx, rest')
      | _, _, _, _, _, _, _ => none
    | _, _, _, _, _, _, _, _ => none
  | _ => none

def parseCalls : Nat → List String → Option (List (Txdbus.Msg.Call Txdbus.PyVal × Nat × Nat) × List String)
  | 0, rest => some ([], rest)
  | n + 1, toks =>
    match parseCall toks with
    | some (c, nxt, mx, rest) =>
      match parseCalls n rest with
      | some (cs, rest') => some ((c, nxt, mx) :: cs, rest')
      | none => none
    | none => none

open Txdbus Txdbus.Msg Driver in
/-- The sender side for one call: `M raw=… send=… tree=…`. -/
def senderLine (c : Call PyVal) (nxt mx : Nat) : String :=
  let T := Gen.Message.tables
  let r := construct T (wireCodec xFuel) (fun _ => false) mx ⟨nxt⟩ c
  match r.2 with
  | .error e => "M err=" ++ pyErrName e
  | .ok m =>
    -- `sendMessage(msg)`: `sendOfCall` (only MethodCallMessage has `oobFDs`)
    let send : String :=
      match sendOfCall xFuel c with
      | some evs => " ".intercalate (evs.map fun e => match e with | .sendFd d => "f" ++ toString d | .write => "W")
      | none => "?"
    -- the body as the sender model of Proto/Fds.lean walks it
    let tree : String :=
      match c.signature, c.body with
      | some (ch :: cs), some pv =>
        match parseSig (ch :: cs) with
        | some ts =>
          let res := if c.oob.isSome then Code.toSpecTop 200000 ts pv
                     else (Msg.toSpecTopNoFd 200000 ts pv).map fun vs => (vs, [])
          match res with
          | some (vs, fds) =>
            match fds.mapM fdNat? with
            | some ds =>
              let toks := bvTokensL (bvOfFields ds vs ts)
              if toks.isEmpty then "-" else " ".intercalate toks
            | none => "?"
          | none => "?"
        | none => "?"
      | _, _ => "-"
    "M raw=" ++ bytesToHex m.raw ++ " send=" ++ send ++ " tree=" ++ tree

open Txdbus Txdbus.Msg Driver in
def composed (n : String) (toks : List String) : String :=
  match parseNat? n with
  | none => "error bad-input"
  | some n =>
    match parseCalls n toks with
    | some (calls, "E" :: evs) =>
      match evs.mapM parseEv with
      | none => "error bad-event"
      | some es =>
        let T := Gen.Message.tables
        let ms := calls.map fun (c, nxt, mx) => senderLine c nxt mx
        let s0 : St Unit := { St.init true () with authenticated := true }
        let r := recvRun noAuth (infoOfParse T) ⟨s0, []⟩ es
        let ds := r.2.map fun d =>
          let p : String :=
            match parsedDelivery T xFuel d with
            | .error e => "!" ++ pyErrName e
            | .ok m' =>
              match m'.body with
              | none => "N"
              | some v => printVal v
          "D " ++ bytesToHex d.raw ++ " a=" ++ showOptList d.args ++ " b=" ++ showNatList d.queueBefore
            ++ " q=" ++ showNatList d.queueAfter ++ " p=" ++ p
        -- the literal receiver (`litRecvRun`: descriptor events + C04's `Receive.handleFrame`) on the same events
        let l := litRecvRun T xFuel noAuth ⟨s0, [], false⟩ es
        let lq : String := match l.1.queue.mapM fdNat? with | some q => showNatList q | none => "?"
        let lok := (l.2.filter fun c => match c with | .ok _ => true | .error _ => false).length
        " ; ".intercalate ms ++ " || " ++ " ; ".intercalate ds ++ " | " ++ bytesToHex r.1.st.buffer ++ " " ++
          showNatList r.1.queue ++ " L " ++ toString lok ++ " " ++ b01 l.1.crashed ++ " " ++ lq
    | _ => "error bad-calls"

def handle (line : String) : String :=
  match Driver.words line with
  | "S" :: hasSig :: oob0 :: toks => sender hasSig oob0 toks
  | "V" :: n :: toks => receiver n toks
  | "W" :: client :: script :: n :: toks => receiverLine client script n toks
  | ["I", rawhex] => infoLine rawhex
  | "X" :: n :: toks => composed n toks
  | _ => "error bad-command"

end DrvC20

def main : IO Unit := Driver.run (fun (s : Unit) line => (s, DrvC20.handle line)) ()
