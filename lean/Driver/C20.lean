import Driver.Common
import TxdbusModel.Proto.Fds
/-!
Driver for property C20 (file descriptors stay attached to the message that carried them).

    S <hasSig 0|1> <oob0> <tree>
        sender: `_marshal` + `sendMessage` of a body given as a tree
          tree  ::=  h<nat>  |  p  |  [ tree* ]      (tokens separated by spaces; the body is the
                                                      top-level sequence of trees)
          oob0  ::=  comma separated naturals, "-" for the empty list
        output: `hdr=<n|-> idx=<list> oob=<list> send=<f<n> ... W>`

    V <n> (<rawhex> <declared|-> <idxlist|->){n} E <ev>*
        receiver in binary mode, fresh queue; the table is the abstract parser `info`
        (raw message -> declared unix_fds, indices of its `h` arguments); unknown raw: (-, -)
          ev ::= f<nat> | r<hex>
        output: one `D <rawhex> a=<args> b=<queue before> q=<queue after>` per delivery, then
                `| <buffer hex> <queue>`

    W <client 0|1> <script> <n> (<rawhex> <declared|-> <idxlist|->){n} E <ev>*
        the same on a freshly connected protocol in line mode (the queue exists from connectionMade
        on); script = outcomes of the abstract authenticator per handled line (c / s / f, "-" = none);
        output as for V, followed by ` <authenticated 0|1> <closed 0|1>`
-/
open Txdbus.Proto

namespace DrvC20

def parseNat? (s : String) : Option Nat := s.toNat?

def parseNatList (s : String) : Option (List Nat) :=
  if s == "-" then some [] else (s.splitOn ",").mapM parseNat?

def showNatList (l : List Nat) : String :=
  if l.isEmpty then "-" else ",".intercalate (l.map toString)

def showOptList (l : List (Option Nat)) : String :=
  if l.isEmpty then "-" else ",".intercalate (l.map fun o => match o with | some n => toString n | none => "None")

/-- Parse a sequence of trees up to the closing bracket (or the end at depth 0).  Fuel = token count. -/
def parseTrees : Nat → List String → Option (List BV × List String)
  | 0, _ => none
  | _ + 1, [] => some ([], [])
  | fuel + 1, tok :: rest =>
    if tok == "]" then some ([], tok :: rest)
    else if tok == "[" then
      match parseTrees fuel rest with
      | some (items, "]" :: rest') =>
        match parseTrees fuel rest' with
        | some (more, rest'') => some (BV.seq items :: more, rest'')
        | none => none
      | _ => none
    else if tok == "p" then
      match parseTrees fuel rest with
      | some (more, rest') => some (BV.plain :: more, rest')
      | none => none
    else if tok.startsWith "h" then
      match (tok.drop 1).toString.toNat?, parseTrees fuel rest with
      | some n, some (more, rest') => some (BV.fd n :: more, rest')
      | _, _ => none
    else none

def hexVal (c : Char) : Option Nat :=
  if '0' ≤ c ∧ c ≤ '9' then some (c.toNat - 48)
  else if 'a' ≤ c ∧ c ≤ 'f' then some (c.toNat - 87)
  else none

def parseHexGo : List Char → List UInt8 → Option (List UInt8)
  | [], acc => some acc.reverse
  | [_], _ => none
  | a :: b :: t, acc =>
    match hexVal a, hexVal b with
    | some x, some y => parseHexGo t (UInt8.ofNat (x * 16 + y) :: acc)
    | _, _ => none

def parseHex (s : String) : Option (List UInt8) :=
  if s == "-" then some [] else parseHexGo s.toList []

def sender (hasSig : String) (oob0 : String) (toks : List String) : String :=
  match parseNatList oob0, parseTrees (toks.length + 1) toks with
  | some o, some (body, []) =>
    let m := marshalMsg (hasSig == "1") body o
    let ev := sendMessage m
    "hdr=" ++ (match m.header with | some k => toString k | none => "-")
      ++ " idx=" ++ showNatList m.indices ++ " oob=" ++ showNatList m.oob
      ++ " send=" ++ " ".intercalate (ev.map fun e => match e with | .sendFd d => "f" ++ toString d | .write => "W")
  | _, _ => "error bad-input"

def parseTable : Nat → List String → Option (List (List UInt8 × MsgInfo) × List String)
  | 0, rest => some ([], rest)
  | n + 1, raw :: decl :: idx :: rest =>
    match parseHex raw, (if decl == "-" then some none else (parseNat? decl).map some), parseNatList idx,
          parseTable n rest with
    | some r, some d, some i, some (t, rest') => some ((r, ⟨d, i⟩) :: t, rest')
    | _, _, _, _ => none
  | _, _ => none

def parseEv (s : String) : Option Ev :=
  if s.startsWith "f" then (parseNat? (s.drop 1).toString).map Ev.fd
  else if s.startsWith "r" then (parseHex (s.drop 1).toString).map Ev.read
  else none

def lookup (t : List (List UInt8 × MsgInfo)) (raw : List UInt8) : MsgInfo :=
  match t.find? (fun e => e.1 == raw) with
  | some e => e.2
  | none => ⟨none, []⟩

def noAuth : Auth Unit := ⟨fun _ _ => ((), .cont)⟩

def receiver (n : String) (toks : List String) : String :=
  match parseNat? n with
  | none => "error bad-input"
  | some n =>
    match parseTable n toks with
    | some (table, "E" :: evs) =>
      match evs.mapM parseEv with
      | none => "error bad-event"
      | some es =>
        let s0 : St Unit := { St.init true () with authenticated := true }
        let r := recvRun noAuth (lookup table) ⟨s0, []⟩ es
        let ds := r.2.map fun d =>
          "D " ++ Driver.bytesToHex d.raw ++ " a=" ++ showOptList d.args ++ " b=" ++ showNatList d.queueBefore
            ++ " q=" ++ showNatList d.queueAfter
        " ".intercalate ds ++ " | " ++ Driver.bytesToHex r.1.st.buffer ++ " " ++ showNatList r.1.queue
    | _ => "error bad-table"

def scripted : Auth (List AuthRes) :=
  ⟨fun st _ => match st with
    | [] => ([], .cont)
    | r :: t => (t, r)⟩

def parseScript (s : String) : Option (List AuthRes) :=
  if s == "-" then some [] else
  s.toList.mapM fun c =>
    if c == 'c' then some AuthRes.cont else if c == 's' then some .success
    else if c == 'f' then some .failed else none

def b01 (b : Bool) : String := if b then "1" else "0"

def receiverLine (client script n : String) (toks : List String) : String :=
  match parseNat? n, parseScript script with
  | some n, some sc =>
    match parseTable n toks with
    | some (table, "E" :: evs) =>
      match evs.mapM parseEv with
      | none => "error bad-event"
      | some es =>
        let s0 : St (List AuthRes) := St.init (client == "1") sc
        let r := recvRun scripted (lookup table) ⟨s0, []⟩ es
        let ds := r.2.map fun d =>
          "D " ++ Driver.bytesToHex d.raw ++ " a=" ++ showOptList d.args ++ " b=" ++ showNatList d.queueBefore
            ++ " q=" ++ showNatList d.queueAfter
        " ".intercalate ds ++ " | " ++ Driver.bytesToHex r.1.st.buffer ++ " " ++ showNatList r.1.queue
          ++ " " ++ b01 r.1.st.authenticated ++ " " ++ b01 r.1.st.closed
    | _ => "error bad-table"
  | _, _ => "error bad-input"

def handle (line : String) : String :=
  match Driver.words line with
  | "S" :: hasSig :: oob0 :: toks => sender hasSig oob0 toks
  | "V" :: n :: toks => receiver n toks
  | "W" :: client :: script :: n :: toks => receiverLine client script n toks
  | _ => "error bad-command"

end DrvC20

def main : IO Unit := Driver.run (fun (s : Unit) line => (s, DrvC20.handle line)) ()
