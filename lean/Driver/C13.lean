import Driver.Common
import TxdbusModel.Bus.Names
import TxdbusModel.Bus.SpecNames
/-!
Driver for property C13.  One history per line, one answer per line.

  h <op> <op> ...      run the history on a fresh bus (code model `Txdbus.Bus.step`)
      ops:  c            connect (the next unique name `:1.k`)
            d<c>         connection c is lost
            q<c>,<n>,<f> RequestName(name n, flags f) by c
            r<c>,<n>     ReleaseName(n) by c
            o<c>,<n>     GetNameOwner(n) by c
            l<c>,<n>     ListQueuedOwners(n) by c
            x<c>[,<k>]   other traffic of c through the bus (kind k is the harness's business)
            u<c>,<dest>[,<t>]  c sends a message (type t: the harness's business) addressed to <dest>
            g<c>,<dest>  GetNameOwner(<dest>) by c, any name
              <dest>:  k<j> the unique name ":1.j"   n<i> well-known name i   f<i> another colon name
                       b (only after u / a) the bus's own name: answered by the bus, never forwarded (`HStep.sendBus`)
            a<dest>[,<t>]  a NEW connection whose first message is addressed to <dest> (no Hello): `connect`, then
                         `send` by the connection just named; one field (the send's)
            m<c>,<j>     AddMatch of a rule that matches the harness's own messages: other traffic of c
    answer: one field per step, joined by " | ":   <events>#<Bus.busNames>#<clients' busNames>
      events (in the order sent), joined by ",", "-" when none:
            A<to>:<n> NameAcquired   L<to>:<n> NameLost   B<n>:<old>:<new> NameOwnerChanged broadcast
            r<to>:<code>   o<to>:<owner>   l<to>:<c.c.c>   e<to>:NameHasNoOwner
            D<j> the addressed message is written to connection j (only)   D- to nobody (`routerLookup`)
      Bus.busNames sorted by name:  <n>=<c.c.c>;...      clients sorted by id: <c>=<n>:<0|1>,...;...
      a step on which Python raises prints ERR:<key|index|attr>; later steps print "!".
  t <op> <op> ...      as `h`, but only the field of the LAST step is printed
  s <op> <op> ...      the same history on the specification (`Txdbus.Bus.Spec.run`, deterministic
                       instance: a replaced owner leaves the queue): per step <events>#<queues>
                       (no NameOwnerChanged in the events); `u` / `g` steps print the owner of the
                       destination according to `Spec.State.ownerOf`
  e <op> <op> ...      per step the owner changes C13's model computes for a router that keeps its own copy of the
                       heads (`Bus.ownerChanges`, = C14's `setOwner` / `unsetOwner` effects by `ownerEffects_eq_changes`):
                       <n>=<k> new owner, <n>=- no owner, sorted by name, "-" when none; "!" after an exception
  f <a> <r> <d> <e> <code>   client side: flag word of requestBusName(a, r, d), on_result(code) with
                       errbackUnlessAcquired = e, reason class of FailedToAcquireName(code)
                       -> <flags> <ok:code|raise:code> <class>
-/
open Txdbus.Bus

namespace Driver.C13

def nat? (s : String) : Option Nat := s.toNat?

def parseOp (w : String) : Option Op :=
  match w.toList with
  | ['c'] => some .connect
  | 'd' :: r => (nat? (String.ofList r)).map .disconnect
  | k :: r =>
    match (String.ofList r).splitOn ",", k with
    | [a, b, c], 'q' => do pure (.request (← nat? a) (← nat? b) (← nat? c))
    | [a, b], 'r' => do pure (.release (← nat? a) (← nat? b))
    | [a, b], 'o' => do pure (.getOwner (← nat? a) (← nat? b))
    | [a, b], 'l' => do pure (.listQueued (← nat? a) (← nat? b))
    | [a, _], 'x' => do pure (.other (← nat? a))
    | [a], 'x' => do pure (.other (← nat? a))
    | _, _ => none
  | [] => none

def parseDest (w : String) : Option Dest :=
  match w.toList with
  | 'k' :: r => (nat? (String.ofList r)).map .unique
  | 'n' :: r => (nat? (String.ofList r)).map .wellKnown
  | 'f' :: r => (nat? (String.ofList r)).map (fun _ => .foreign)
  | _ => none

/-- A token: a step, or a new connection whose first message is an addressed one (`none`: to the bus). -/
inductive Tok where
  | step (h : HStep)
  | first (d : Option Dest)

def sendTo (c : Conn) (d : String) : Option HStep :=
  if d == "b" then some (.sendBus c) else (parseDest d).map (.send c)

def parseHStep (w : String) : Option HStep :=
  match w.toList with
  | 'u' :: r =>
    match (String.ofList r).splitOn "," with
    | [a, d] => do sendTo (← nat? a) d
    | [a, d, _] => do sendTo (← nat? a) d
    | _ => none
  | 'm' :: r =>
    match (String.ofList r).splitOn "," with
    | [a, _] => do pure (.op (.other (← nat? a)))
    | _ => none
  | 'g' :: r =>
    match (String.ofList r).splitOn "," with
    | [a, d] => do pure (.ask (← nat? a) (← parseDest d))
    | _ => none
  | _ => (parseOp w).map .op

def parseTok (w : String) : Option Tok :=
  match w.toList with
  | 'a' :: r =>
    match (String.ofList r).splitOn "," with
    | d :: _ => if d == "b" then some (.first none) else (parseDest d).map (fun x => .first (some x))
    | _ => none
  | _ => (parseHStep w).map .step

/-- The steps a token stands for, given the number the next connection gets. -/
def Tok.steps (next : Conn) : Tok → List HStep
  | .step h => [h]
  | .first (some d) => [.op .connect, .send next d]
  | .first none => [.op .connect, .sendBus next]

def showConns (q : List Conn) : String := String.intercalate "." (q.map toString)

def showOpt : Option Conn → String
  | none => "-"
  | some c => toString c

def showEvent : Event → String
  | .nameAcquired t n => s!"A{t}:{n}"
  | .nameLost t n => s!"L{t}:{n}"
  | .ownerChanged n o w => s!"B{n}:{showOpt o}:{showOpt w}"
  | .reply t c => s!"r{t}:{c}"
  | .replyOwner t o => s!"o{t}:{o}"
  | .replyQueue t q => s!"l{t}:{showConns q}"
  | .replyNoOwner t => s!"e{t}:NameHasNoOwner"

def showEvents (evs : List Event) : String :=
  if evs.isEmpty then "-" else String.intercalate "," (evs.map showEvent)

def insertBy {α : Type} (key : α → Nat) (x : α) : List α → List α
  | [] => [x]
  | y :: t => if key x ≤ key y then x :: y :: t else y :: insertBy key x t

def sortBy {α : Type} (key : α → Nat) (l : List α) : List α := l.foldr (insertBy key) []

def showState (s : State) : String :=
  let names := (sortBy Prod.fst s.busNames).map fun (n, q) => s!"{n}={showConns q}"
  let cls := (sortBy Prod.fst s.clients).map fun (c, t) =>
    s!"{c}=" ++ String.intercalate "," (t.map fun (n, b) => s!"{n}:{if b then 1 else 0}")
  String.intercalate ";" names ++ "#" ++ String.intercalate ";" cls

def showErr : Err → String
  | .key => "ERR:key"
  | .index => "ERR:index"
  | .attr => "ERR:attr"

def showOut : HOut → String
  | .events evs => showEvents evs
  | .delivered (some j) => s!"D{j}"
  | .delivered none => "D-"

/-- Run the steps of one token; the field shown is the one of the last step. -/
def runSteps (s : State) : List HStep → Except Err (State × String)
  | [] => .ok (s, "-#" ++ showState s)
  | [h] =>
    match stepL s h with
    | .error e => .error e
    | .ok (s1, o) => .ok (s1, showOut o ++ "#" ++ showState s1)
  | h :: hs =>
    match stepL s h with
    | .error e => .error e
    | .ok (s1, _) => runSteps s1 hs

def runHistory (s : State) : List Tok → List String
  | [] => []
  | t :: ts =>
    match runSteps s (t.steps s.nextId) with
    | .error e => showErr e :: ts.map (fun _ => "!")
    | .ok (s1, f) => f :: runHistory s1 ts

def showChanges (l : List (Name × Option Conn)) : String :=
  if l.isEmpty then "-" else
    String.intercalate "," ((sortBy Prod.fst l).map fun (n, o) => s!"{n}={showOpt o}")

/-- The owner changes of the steps of one token. -/
def effSteps (s : State) : List HStep → Except Err (State × List (Name × Option Conn))
  | [] => .ok (s, [])
  | h :: hs =>
    match stepL s h with
    | .error e => .error e
    | .ok (s1, _) =>
      let here := match h with
        | .op op => ownerChanges s s1 op
        | _ => []
      match effSteps s1 hs with
      | .error e => .error e
      | .ok (s2, l) => .ok (s2, here ++ l)

def runEffects (s : State) : List Tok → List String
  | [] => []
  | t :: ts =>
    match effSteps s (t.steps s.nextId) with
    | .error _ => "!" :: ts.map (fun _ => "!")
    | .ok (s1, l) => showChanges l :: runEffects s1 ts

/-- The names a history mentions (the spec state is a function; only these are printed). -/
def opName : Op → List Name
  | .request _ n _ => [n]
  | .release _ n => [n]
  | .getOwner _ n => [n]
  | .listQueued _ n => [n]
  | _ => []

def showSpecState (names : List Name) (σ : Spec.State) : String :=
  String.intercalate ";" ((names.filter fun n => !(σ.queue n).isEmpty).map fun n =>
    s!"{n}=" ++ String.intercalate "." ((σ.queue n).map fun e => s!"{e.conn}{if e.allow then "a" else ""}"))

def showSpecEvent : Spec.Ev → String
  | .nameAcquired t n => s!"A{t}:{n}"
  | .nameLost t n => s!"L{t}:{n}"
  | .reply t c => s!"r{t}:{c}"
  | .replyOwner t o => s!"o{t}:{o}"
  | .replyQueue t q => s!"l{t}:{showConns q}"
  | .replyNoOwner t => s!"e{t}:NameHasNoOwner"

def runSpecSteps (names : List Name) (fresh : Conn) (σ : Spec.State) : List HStep → List String
  | [] => []
  | .op op :: ops =>
    match Spec.exec names fresh σ op with
    | none => "REFUSED" :: ops.map (fun _ => "!")
    | some (σ1, evs) =>
      ((if evs.isEmpty then "-" else String.intercalate "," (evs.map showSpecEvent))
        ++ "#" ++ showSpecState names σ1)
        :: runSpecSteps names (if op = Op.connect then fresh + 1 else fresh) σ1 ops
  | .send _ d :: ops =>        -- who owns the destination at this moment (`Spec.State.ownerOf`)
    ((match σ.ownerOf d with | some j => s!"D{j}" | none => "D-") ++ "#" ++ showSpecState names σ)
      :: runSpecSteps names fresh σ ops
  | .sendBus _ :: ops =>       -- answered by the bus, not forwarded
    ("D-#" ++ showSpecState names σ) :: runSpecSteps names fresh σ ops
  | .ask c d :: ops =>
    (showSpecEvent (Spec.ownerOfAnswer σ c d) ++ "#" ++ showSpecState names σ) :: runSpecSteps names fresh σ ops

/-- Expand the tokens (a token `a..` is connect + send by the new connection: its first field is dropped). -/
def expandToks (fresh : Conn) : List Tok → List (HStep × Bool)
  | [] => []
  | .step h :: ts => (h, true) :: expandToks (if h = HStep.op Op.connect then fresh + 1 else fresh) ts
  | t@(.first _) :: ts => ((t.steps fresh).zip [false, true]) ++ expandToks (fresh + 1) ts

def runSpec (names : List Name) (toks : List Tok) : List String :=
  let ex := expandToks 1 toks
  let out := runSpecSteps names 1 Spec.State.init (ex.map Prod.fst)
  -- a refused step ends the output early: pad with "!"
  let out := out ++ List.replicate (ex.length - out.length) "!"
  ((ex.zip out).filter (fun p => p.1.2)).map Prod.snd

def hstepName : HStep → List Name
  | .op o => opName o
  | .send _ (.wellKnown n) => [n]
  | .ask _ (.wellKnown n) => [n]
  | _ => []

def bool? (w : String) : Option Bool :=
  if w == "1" then some true else if w == "0" then some false else none

def step (_ : Unit) (line : String) : Unit × String :=
  let out : String :=
    match Driver.words line with
    | "h" :: ws =>
      match ws.mapM parseTok with
      | none => "bad-input"
      | some ops => String.intercalate " | " (runHistory State.init ops)
    | "e" :: ws =>
      match ws.mapM parseTok with
      | none => "bad-input"
      | some ops => String.intercalate " | " (runEffects State.init ops)
    | "t" :: ws =>
      match ws.mapM parseTok with
      | none => "bad-input"
      | some ops => ((runHistory State.init ops).getLast?).getD "empty"
    | "s" :: ws =>
      match ws.mapM parseTok with
      | none => "bad-input"
      | some toks =>
        let names := sortBy id (((toks.flatMap (Tok.steps 0)).flatMap hstepName).eraseDups)
        String.intercalate " | " (runSpec names toks)
    | ["f", a, r, d, e, code] =>
      match bool? a, bool? r, bool? d, bool? e, nat? code with
      | some a, some r, some d, some e, some code =>
        let res := match clientOnResult e code with
          | .ok v => s!"ok:{v}"
          | .error v => s!"raise:{v}"
        s!"{clientFlags a r d} {res} {failedReason code}"
      | _, _, _, _, _ => "bad-input"
    | _ => "bad-input"
  ((), out)

end Driver.C13

def main : IO Unit := Driver.run Driver.C13.step ()
