/-
UTF-8 and ASCII codecs as Python's `codecs.encode(s, 'utf-8')` / `codecs.decode(b, 'utf-8')` /
`codecs.encode(s, 'ascii')` / `codecs.decode(b, 'ascii')` perform them (error handler 'strict'),
over `List Char` (a Python `str` as its code points) and `List UInt8` (a Python `bytes`).
Core Lean only; total; executable; every function is structurally recursive (so `decide` works).

Scope note.  A Lean `Char` is a Unicode *scalar value* (never a surrogate U+D800..U+DFFF, never
above U+10FFFF), so the encoders are total here.  A Python `str` may contain lone surrogates, for
which `codecs.encode(s, 'utf-8')` raises `UnicodeEncodeError`; such strings are outside `List Char`
and have to be handled by the caller of this model (no string that a strict UTF-8 decode produced
contains one).

The encoder computes the same bytes as Lean core's `String.utf8EncodeChar` / `List.utf8Encode`
(restated here with explicit `Nat` arithmetic; `Proofs/Wire/Utf8.lean` proves
`utf8EncodeChar c = String.utf8EncodeChar c` and `(utf8Encode cs).toByteArray = cs.utf8Encode`).
The decoder is written here on lists (core's decoder works on `ByteArray` positions only).  The
payload bits are extracted with `% 2^k` (= the bit mask `& (2^k - 1)`), deliberately not with
`- 0xC0` etc.: subtraction of a large literal makes `simp` unfold `Nat.sub` unary and run out of
recursion depth on this toolchain.
-/
namespace Txdbus

/-! ## UTF-8 encoder -/

/-- The UTF-8 encoding (1 to 4 bytes) of one code point. -/
def utf8EncodeChar (c : Char) : List UInt8 :=
  let v := c.toNat
  if v < 0x80 then
    [UInt8.ofNat v]
  else if v < 0x800 then
    [UInt8.ofNat (0xC0 + v / 0x40), UInt8.ofNat (0x80 + v % 0x40)]
  else if v < 0x10000 then
    [UInt8.ofNat (0xE0 + v / 0x1000), UInt8.ofNat (0x80 + v / 0x40 % 0x40), UInt8.ofNat (0x80 + v % 0x40)]
  else
    [UInt8.ofNat (0xF0 + v / 0x40000), UInt8.ofNat (0x80 + v / 0x1000 % 0x40),
     UInt8.ofNat (0x80 + v / 0x40 % 0x40), UInt8.ofNat (0x80 + v % 0x40)]

/-- `codecs.encode(s, 'utf-8')`: the concatenation of the encodings of the code points. -/
def utf8Encode : List Char → List UInt8
  | [] => []
  | c :: cs => utf8EncodeChar c ++ utf8Encode cs

/-! ## Strict UTF-8 decoder -/

/-- A continuation byte `10xxxxxx` (0x80..0xBF). -/
def utf8IsCont (b : UInt8) : Bool :=
  0x80 ≤ b.toNat && b.toNat < 0xC0

/-- The code point of a 2-byte sequence `110xxxxx 10xxxxxx` (the payload bits `x`; `% 2^k` is the
bit mask `& (2^k - 1)`). -/
def utf8Val2 (b0 b1 : UInt8) : Nat :=
  b0.toNat % 0x20 * 0x40 + b1.toNat % 0x40

/-- The code point of a 3-byte sequence `1110xxxx 10xxxxxx 10xxxxxx`. -/
def utf8Val3 (b0 b1 b2 : UInt8) : Nat :=
  b0.toNat % 0x10 * 0x1000 + b1.toNat % 0x40 * 0x40 + b2.toNat % 0x40

/-- The code point of a 4-byte sequence `11110xxx 10xxxxxx 10xxxxxx 10xxxxxx`. -/
def utf8Val4 (b0 b1 b2 b3 : UInt8) : Nat :=
  b0.toNat % 0x08 * 0x40000 + b1.toNat % 0x40 * 0x1000 + b2.toNat % 0x40 * 0x40 + b3.toNat % 0x40

/-- `x :: ·` under `Option` (the decoded rest may have failed). -/
def utf8Cons (c : Char) : Option (List Char) → Option (List Char)
  | some cs => some (c :: cs)
  | none => none

/-- `codecs.decode(b, 'utf-8')` with the 'strict' error handler; `none` = `UnicodeDecodeError`.
Rejected: a continuation byte 0x80..0xBF or one of 0xC0, 0xC1, 0xF5..0xFF in lead position; a
sequence cut short by the end of input or by a non-continuation byte; an overlong form (a 3-byte
form below U+0800, a 4-byte form below U+10000; the 2-byte overlongs are the leads 0xC0, 0xC1);
a surrogate U+D800..U+DFFF; a code point above U+10FFFF. -/
def utf8Decode : List UInt8 → Option (List Char)
  | [] => some []
  | b0 :: bs =>
    if b0.toNat < 0x80 then
      utf8Cons (Char.ofNat b0.toNat) (utf8Decode bs)
    else if b0.toNat < 0xC2 then
      none                                  -- stray continuation byte, or overlong lead 0xC0 / 0xC1
    else if b0.toNat < 0xE0 then
      match bs with
      | b1 :: bs1 =>
        if utf8IsCont b1 then
          utf8Cons (Char.ofNat (utf8Val2 b0 b1)) (utf8Decode bs1)
        else none
      | _ => none
    else if b0.toNat < 0xF0 then
      match bs with
      | b1 :: b2 :: bs2 =>
        if utf8IsCont b1 && utf8IsCont b2
            && 0x800 ≤ utf8Val3 b0 b1 b2                                         -- not overlong
            && !(0xD800 ≤ utf8Val3 b0 b1 b2 && utf8Val3 b0 b1 b2 < 0xE000) then  -- not a surrogate
          utf8Cons (Char.ofNat (utf8Val3 b0 b1 b2)) (utf8Decode bs2)
        else none
      | _ => none
    else if b0.toNat < 0xF5 then
      match bs with
      | b1 :: b2 :: b3 :: bs3 =>
        if utf8IsCont b1 && utf8IsCont b2 && utf8IsCont b3
            && 0x10000 ≤ utf8Val4 b0 b1 b2 b3                                    -- not overlong
            && utf8Val4 b0 b1 b2 b3 < 0x110000 then                              -- at most U+10FFFF
          utf8Cons (Char.ofNat (utf8Val4 b0 b1 b2 b3)) (utf8Decode bs3)
        else none
      | _ => none
    else
      none                                  -- 0xF5..0xFF never start a sequence

/-! ## ASCII -/

/-- `codecs.encode(s, 'ascii')`: every code point must be below 128; `none` = `UnicodeEncodeError`. -/
def asciiEncode : List Char → Option (List UInt8)
  | [] => some []
  | c :: cs =>
    if c.toNat < 0x80 then
      match asciiEncode cs with
      | some bs => some (UInt8.ofNat c.toNat :: bs)
      | none => none
    else none

/-- `codecs.decode(b, 'ascii')`: every byte must be below 128; `none` = `UnicodeDecodeError`. -/
def asciiDecode : List UInt8 → Option (List Char)
  | [] => some []
  | b :: bs =>
    if b.toNat < 0x80 then
      match asciiDecode bs with
      | some cs => some (Char.ofNat b.toNat :: cs)
      | none => none
    else none

end Txdbus
