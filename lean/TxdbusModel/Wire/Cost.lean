import TxdbusModel.Sig.Split
import TxdbusModel.Wire.Utf8
import TxdbusModel.Gen.C05Wire
/-
Control-flow / cost model of the decoder (property C05): `txdbus/marshal.py` `unmarshal`, the 17
`unmarshal_*` functions and `txdbus/message.py` `parseMessage`, on ARBITRARY signature strings
(unbalanced, unknown codes, empty) and ARBITRARY data.

The model tracks what decides termination and work - the signature (`List Char`), the data bytes that
steer control (array length words, string / signature length fields, the signature bytes of a variant),
offsets, byte order - and a *shape* of every decoded value that is just rich enough to mirror the
remaining value-dependent control flow (dict construction from `a{..}` items: `IndexError` /
unhashable key; truthiness and type of the `signature` header field in `parseMessage`).

Result: `Out` = status (`ok` / `err e` / `outOfFuel`), offset after the call, `steps` = number of
invocations of an entry of `marshal.unmarshallers` (what the harness counts by wrapping the dict
entries; `unmarshal_variant`'s direct call of `unmarshal_signature` and `unmarshal_struct`'s call of
`unmarshal` are not dict dispatches and are not counted), `depth` = nesting depth of those
invocations, `frames` = estimate of the Python frames in use (for the `RecursionError`
canonicalisation only), `size` = number of value nodes built, `vals` = shapes of the values,
`work` = `steps` + what one invocation additionally touches: the characters of `ct` it slices (`ct[1:-1]`, `ct[1:]`), the
data bytes a string / signature read slices, and - charged in `seq`, per piece - the characters `genCompleteTypes`
scans, slices and concatenates to produce that piece (`firstCost`; quadratic in a run of leading `a`), `chars` = total
length of the decoded strings.

Fuel: every one of the three mutually recursive functions consumes one unit per call, and passes the
remaining fuel to *each* of its callees, so fuel bounds the length of the longest chain
call -> (callee | loop continuation).  `Properties/C05.lean` proves that `2*|sig| + 2*|data| + 2` is
always enough (`unmarshal_fuel_adequate`) and that `steps` is bounded linearly in the data length
for every fuel (`unmarshal_steps_linear`).

`chk = true` mirrors the repaired array loop (commit 635620f: zero-length element check);
`chk = false` is the loop as it was, kept for the witness `prefix_array_loop_never_terminates`.
Core Lean only.
-/
namespace Txdbus.Cost
open Txdbus.Gen.C05Wire (UKind)

/-- Exception classes of the decode path. -/
inductive Err where
  | struct        -- struct.error: unpack_from beyond the buffer
  | key           -- KeyError: type code not in `pad` / `unmarshallers`
  | index         -- IndexError: `vsig[0]` of an empty variant signature, `item[1]`, `rawMessage[0]`
  | type          -- TypeError: `compoundSig[i:None + 1]` (unbalanced bracket), unhashable dict key
  | runtime       -- RuntimeError('generator raised StopIteration'): `a` with nothing after it
  | unicode       -- UnicodeDecodeError
  | marshalling   -- txdbus.error.MarshallingError
  deriving DecidableEq, Repr, Inhabited

inductive Status where
  | ok | err (e : Err) | outOfFuel
  deriving DecidableEq, Repr, Inhabited

/-- Shape of a decoded Python value. -/
inductive Shape where
  | int (raw : Nat)          -- int / bool from a fixed-size reader: the unsigned reading of its bytes
  | dbl (truthy : Bool)      -- float
  | none                     -- `None` (descriptor index into the empty descriptor list)
  | str (s : List Char)
  | list (xs : List Shape)   -- struct value, array that is not a dict
  | dict (n : Nat)           -- `a{..}`: a dict built from `n` items
  deriving Repr, Inhabited

def Shape.truthy : Shape → Bool
  | .int raw => raw != 0
  | .dbl t => t
  | .none => false
  | .str s => !s.isEmpty
  | .list xs => !xs.isEmpty
  | .dict n => n != 0

def Shape.hashable : Shape → Bool
  | .list _ => false
  | .dict _ => false
  | _ => true

structure Out where
  st : Status
  off : Nat
  steps : Nat
  depth : Nat
  frames : Nat
  size : Nat
  vals : List Shape
  work : Nat
  chars : Nat
  deriving Repr, Inhabited

/-- The two tables of `marshal.py` the decoder dispatches on. -/
structure Tables where
  align : List (Char × Nat)
  kind : List (Char × UKind)

def Tables.alignOf (T : Tables) (c : Char) : Option Nat := T.align.lookup c
def Tables.kindOf (T : Tables) (c : Char) : Option UKind := T.kind.lookup c

/-- The tables of the current source. -/
def genTables : Tables := ⟨Txdbus.Gen.C05Wire.alignTable, Txdbus.Gen.C05Wire.kindTable⟩

/-- `len(pad[code](off))` for alignment `a`: `x % align and (align - x % align) or 0`. -/
def padLen (a off : Nat) : Nat := if off % a = 0 then 0 else a - off % a

/-- `data[a:b]` for `0 ≤ a` (slices clamp). -/
def slice (data : List UInt8) (a b : Nat) : List UInt8 := (data.drop a).take (b - a)

def leVal : List UInt8 → Nat
  | [] => 0
  | b :: bs => b.toNat + 256 * leVal bs

/-- The unsigned integer denoted by `bs` in the given byte order (`lendian`). -/
def uval (le : Bool) (bs : List UInt8) : Nat := if le then leVal bs else leVal bs.reverse

def fixedShape (cls : Nat) (le : Bool) (bs : List UInt8) : Shape :=
  if cls = 0 then .int (uval le bs)
  else if cls = 1 then .dbl (uval le bs % 2 ^ (8 * bs.length - 1) != 0)    -- -0.0 is falsy
  else .none

def splitErr : SplitErr → Err
  | .typeError => .type
  | .stopIteration => .runtime

/-- number of leading `a` (nested generator frames while the first piece is produced). -/
def leadingA : List Char → Nat
  | 'a' :: cs => leadingA cs + 1
  | _ => 0

/-- Frames in use while `next()` produces the piece at the head of `sig`: one nested generator per leading `a`
(measured on CPython 3.12: a resumed generator costs 4/3 of a plain call against the recursion limit), plus
the generator itself and `find_end`.  Only used to canonicalise `RecursionError`. -/
def genFrames (sig : List Char) : Nat := 4 * leadingA sig / 3 + 2

/-- `d = {}; for item in values: d[item[0]] = item[1]` - the exception it raises, if any
(right-hand side first: `item[1]`, then `item[0]`, then the hash). -/
def dictErr : List Shape → Option Err
  | [] => none
  | .list (k :: _ :: _) :: rest => if k.hashable then dictErr rest else some .type
  | .list _ :: _ => some .index
  | _ :: _ => some .type

def fail (e : Err) (off steps depth frames work : Nat) : Out :=
  { st := .err e, off := off, steps := steps, depth := depth, frames := frames, size := 0, vals := [],
    work := work, chars := 0 }

def noFuel : Out :=
  { st := .outOfFuel, off := 0, steps := 0, depth := 0, frames := 0, size := 0, vals := [], work := 0, chars := 0 }

/-- Characters touched by `next()` of `genCompleteTypes` while it produces the first piece of `s`: `find_end` scan
plus the slice for a bracket (2 per character of the piece); for a leading `a` the slice `compoundSig[i+1:]`, the
nested generator's own cost and the concatenation `'a' + ct`; 1 for any other character. -/
def firstCost : List Char → Nat
  | [] => 0
  | c :: cs =>
    if c = '(' then
      match findEnd '(' ')' 1 cs with
      | some x => 2 * (x + 2)
      | none => 0
    else if c = '{' then
      match findEnd '{' '}' 1 cs with
      | some x => 2 * (x + 2)
      | none => 0
    else if c = 'a' then
      cs.length + firstCost cs +
        (match firstType cs with
         | .ok (ct, _) => ct.length + 1
         | .error _ => 0)
    else 1

/-- What a failing `next()` may have touched (upper bound). -/
def scanErr (s : List Char) : Nat := (s.length + 1) * (s.length + 1)

section
variable (T : Tables) (chk : Bool) (fds : Option (List Nat)) (data : List UInt8) (le : Bool)

mutual
/-- `unmarshallers[ct[0]](ct, data, off, lendian, oobFDs)`; `fds = none` is `oobFDs=None`. -/
def one : Nat → List Char → Nat → Out
  | 0, _, _ => noFuel
  | f + 1, ct, off =>
    match ct with
    | [] => fail .index off 0 0 0 0
    | c :: tl =>
      let dc := 1 + (c :: tl).length          -- the dispatch itself + the characters of `ct` it may slice
      match T.kindOf c with
      | none => fail .key off 0 0 0 0
      | some (.fixed need adv cls) =>
        if off + need ≤ data.length then
          if cls = 2 then
            -- unmarshal_unix_fd: `try: fd = oobFDs[index] except IndexError: fd = None`
            match fds with
            | Option.none => fail .type off 1 1 0 dc
            | some l =>
              { st := .ok, off := off + adv, steps := 1, depth := 1, frames := 0, size := 1,
                vals := [match l[uval le (slice data off (off + need))]? with
                         | some fd => .int fd
                         | Option.none => .none],
                work := dc, chars := 0 }
          else
            { st := .ok, off := off + adv, steps := 1, depth := 1, frames := 0, size := 1,
              vals := [fixedShape cls le (slice data off (off + need))], work := dc, chars := 0 }
        else fail .struct off 1 1 0 dc
      | some .string =>
        if off + 4 ≤ data.length then
          let slen := uval le (slice data off (off + 4))
          let sl := (slice data (off + 4) (off + 4 + slen)).length
          match utf8Decode (slice data (off + 4) (off + 4 + slen)) with
          | none => fail .unicode off 1 1 0 (dc + sl)
          | some s =>
            { st := .ok, off := off + 4 + slen + 1, steps := 1, depth := 1, frames := 0, size := 1,
              vals := [.str s], work := dc + sl, chars := s.length }
        else fail .struct off 1 1 0 dc
      | some .signature =>
        if off + 1 ≤ data.length then
          let slen := uval le (slice data off (off + 1))
          let sl := (slice data (off + 1) (off + 1 + slen)).length
          match asciiDecode (slice data (off + 1) (off + 1 + slen)) with
          | none => fail .unicode off 1 1 0 (dc + sl)
          | some s =>
            { st := .ok, off := off + 1 + slen + 1, steps := 1, depth := 1, frames := 0, size := 1,
              vals := [.str s], work := dc + sl, chars := s.length }
        else fail .struct off 1 1 0 dc
      | some .array =>
        if off + 4 ≤ data.length then
          let dlen := uval le (slice data off (off + 4))
          match tl with
          | [] => fail .index off 1 1 0 dc
          | tc :: _ =>
            match T.alignOf tc with
            | none => fail .key off 1 1 0 dc
            | some a =>
              let start := off + 4 + padLen a (off + 4)
              let r := loop f tl a start (start + dlen)
              match r.st with
              | .ok =>
                if tc = '{' then
                  match dictErr r.vals with
                  | some e => fail e off (r.steps + 1) (r.depth + 1) r.frames (r.work + dc)
                  | none =>
                    { st := .ok, off := r.off, steps := r.steps + 1, depth := r.depth + 1, frames := r.frames,
                      size := r.size + 1, vals := [.dict r.vals.length], work := r.work + dc, chars := r.chars }
                else
                  { st := .ok, off := r.off, steps := r.steps + 1, depth := r.depth + 1, frames := r.frames,
                    size := r.size + 1, vals := [.list r.vals], work := r.work + dc, chars := r.chars }
              | st => { st := st, off := r.off, steps := r.steps + 1, depth := r.depth + 1, frames := r.frames,
                        size := 0, vals := [], work := r.work + dc, chars := 0 }
        else fail .struct off 1 1 0 dc
      | some .struct =>
        let r := seq f tl.dropLast off
        { st := r.st, off := r.off, steps := r.steps + 1, depth := r.depth + 1, frames := r.frames + 1,
          size := r.size + 1, vals := [.list r.vals], work := r.work + dc, chars := r.chars }
      | some .variant =>
        if off + 1 ≤ data.length then
          let slen := uval le (slice data off (off + 1))
          let sl := (slice data (off + 1) (off + 1 + slen)).length
          match asciiDecode (slice data (off + 1) (off + 1 + slen)) with
          | none => fail .unicode off 1 1 0 (dc + sl)
          | some vsig =>
            let off1 := off + 1 + slen + 1
            match vsig with
            | [] => fail .index off 1 1 0 (dc + sl)
            | vc :: _ =>
              match T.alignOf vc with
              | none => fail .key off 1 1 0 (dc + sl)
              | some a =>
                let r := seq f vsig (off1 + padLen a off1)
                match r.st with
                | .ok =>
                  match r.vals with
                  | [] => fail .index off (r.steps + 1) (r.depth + 1) (r.frames + 1) (r.work + (dc + sl))
                  | v :: _ =>
                    { st := .ok, off := r.off, steps := r.steps + 1, depth := r.depth + 1, frames := r.frames + 1,
                      size := r.size, vals := [v], work := r.work + (dc + sl), chars := r.chars }
                | st => { st := st, off := r.off, steps := r.steps + 1, depth := r.depth + 1,
                          frames := r.frames + 1, size := 0, vals := [], work := r.work + (dc + sl), chars := 0 }
        else fail .struct off 1 1 0 dc

/-- `unmarshal(sig, data, off, lendian, oobFDs)`: the `for ct in genCompleteTypes(sig)` loop. -/
def seq : Nat → List Char → Nat → Out
  | 0, _, _ => noFuel
  | f + 1, sig, off =>
    match sig with
    | [] => { st := .ok, off := off, steps := 0, depth := 0, frames := 0, size := 0, vals := [], work := 0, chars := 0 }
    | _ :: _ =>
      match firstType sig with
      | .error e => fail (splitErr e) off 0 0 (genFrames sig) (scanErr sig)
      | .ok (ct, rest) =>
        match ct with
        | [] => fail .index off 0 0 0 0
        | c :: _ =>
          match T.alignOf c with
          | none => fail .key off 0 0 (genFrames ct) (firstCost sig)
          | some a =>
            let r1 := one f ct (off + padLen a off)
            match r1.st with
            | .ok =>
              let r2 := seq f rest r1.off
              { st := r2.st, off := r2.off, steps := r1.steps + r2.steps, depth := max r1.depth r2.depth,
                frames := max (max (genFrames ct) (r1.frames + 2)) r2.frames,
                size := r1.size + r2.size, vals := r1.vals ++ r2.vals,
                work := firstCost sig + r1.work + r2.work, chars := r1.chars + r2.chars }
            | st => { st := st, off := r1.off, steps := r1.steps, depth := r1.depth,
                      frames := max (genFrames ct) (r1.frames + 2), size := 0, vals := [],
                      work := firstCost sig + r1.work, chars := 0 }

/-- The `while offset < end_offset` loop of `unmarshal_array` and the `offset == end_offset` check. -/
def loop : Nat → List Char → Nat → Nat → Nat → Out
  | 0, _, _, _, _ => noFuel
  | f + 1, tsig, a, off, endOff =>
    if off < endOff then
      let p := off + padLen a off
      let r1 := one f tsig p
      match r1.st with
      | .ok =>
        if chk && r1.off == p then fail .marshalling off r1.steps r1.depth (r1.frames + 2) r1.work
        else
          let r2 := loop f tsig a r1.off endOff
          { st := r2.st, off := r2.off, steps := r1.steps + r2.steps, depth := max r1.depth r2.depth,
            frames := max (r1.frames + 2) r2.frames, size := r1.size + r2.size, vals := r1.vals ++ r2.vals,
            work := r1.work + r2.work, chars := r1.chars + r2.chars }
      | st => { st := st, off := r1.off, steps := r1.steps, depth := r1.depth, frames := r1.frames + 2,
                size := 0, vals := [], work := r1.work, chars := 0 }
    else if off = endOff then
      { st := .ok, off := off, steps := 0, depth := 0, frames := 0, size := 0, vals := [], work := 0, chars := 0 }
    else fail .marshalling off 0 0 0 0
end

end

/-- `marshal.unmarshal(sig, data, off, lendian, oobFDs)`; `consumed = out.off - off`. -/
def unmarshal (T : Tables) (chk : Bool) (fds : Option (List Nat)) (fuel : Nat) (sig : List Char)
    (data : List UInt8) (off : Nat) (le : Bool) : Out :=
  let r := seq T chk fds data le fuel sig off
  { r with frames := r.frames + 1 }

/-- Fuel that is always enough for `unmarshal` (`Properties/C05.lean: unmarshal_fuel_adequate`). -/
def fuelFor (sig : List Char) (data : List UInt8) : Nat := 2 * sig.length + 2 * data.length + 2

/-- Fuel that is always enough for the VALUE model `Code.unmarshal` of `Wire/Code.lean`, whose fuel counts nesting levels
of per-type calls (`Properties/C05.lean: code_fuel_adequate`): one more than the bound of `unmarshal_depth_bounded`. -/
def codeFuel (sig : List Char) (data : List UInt8) (off : Nat) : Nat := sig.length + (data.length - off) + 1

/-- Bound on `steps` (`unmarshal_steps_linear`): linear in the number of data bytes from `off` on, with
a factor given by the longest signature in play (the top-level one, or a variant's: at most 255). -/
def stepBound (sig : List Char) (data : List UInt8) (off : Nat) : Nat :=
  sig.length + (max sig.length 255 + 2) * (data.length - off) + 1

/-- The per-invocation constant of the work bound for signatures of length at most `L`: the scan for one piece
(`(L+1)^2`, reached by a run of `a`) plus the slice of `ct` plus the invocation itself. -/
def workUnit (L : Nat) : Nat := (L + 1) * (L + 1) + L + 1

/-- Bound on `work` (`unmarshal_work_linear`). -/
def workBound (sig : List Char) (data : List UInt8) (off : Nat) : Nat :=
  workUnit (max sig.length 255) * stepBound sig data off + (data.length - off) + (max sig.length 255 + 1) * (max sig.length 255 + 1)

/-! ## parseMessage -/

structure POut where
  st : Status
  steps : Nat
  depth : Nat
  frames : Nat
  size : Nat
  /-- 0: no body decoded; 1: body decoded with a `str` signature; 2: signature field rejected -/
  body : Nat
  work : Nat
  chars : Nat
  deriving Repr, Inhabited

/-- the value of the last header field whose code is `sigCode` (`setattr` in list order). -/
def lastField (sigCode : Nat) : List Shape → Option Shape → Option Shape
  | [], acc => acc
  | .list (.int c :: v :: _) :: rest, acc => lastField sigCode rest (if c = sigCode then some v else acc)
  | _ :: rest, acc => lastField sigCode rest acc

/-- `message.parseMessage(data, [])`.  `fix = true`: the repaired code (the `signature` header field
must be a `str` of at most 255 characters); `fix = false`: the code before that repair, mirrored for
`str` values only (a non-empty list / dict / non-zero number is answered `TypeError` as an approximation). -/
def parseMessage (T : Tables) (hf : List Char) (mtypes : List Nat) (sigCode : Nat) (fix : Bool)
    (fds : Option (List Nat)) (fuel : Nat) (data : List UInt8) : POut :=
  match data with
  | [] => ⟨.err .index, 0, 0, 0, 0, 0, 0, 0⟩
  | b0 :: _ =>
    let le := b0.toNat == 108
    let h := unmarshal T true fds fuel hf data 0 le
    match h.st with
    | .ok =>
      match (h.vals[1]? : Option Shape) with
      | some (.int mt) =>
        if !mtypes.contains mt then ⟨.err .marshalling, h.steps, h.depth, h.frames, 0, 0, h.work, 0⟩
        else
          let nheader := h.off
          let body := data.drop (nheader + padLen 8 nheader)
          -- rawHeader, rawPadding, rawBody: three slices that together copy the message once
          let w := h.work + data.length
          match (h.vals[6]? : Option Shape) with
          | some (.list fields) =>
            match lastField sigCode fields Option.none with
            | Option.none => ⟨.ok, h.steps, h.depth, h.frames, h.size, 0, w, h.chars⟩
            | some v =>
              if !v.truthy then ⟨.ok, h.steps, h.depth, h.frames, h.size, 0, w, h.chars⟩
              else
                match v with
                | .str s =>
                  if fix && s.length > 255 then ⟨.err .marshalling, h.steps, h.depth, h.frames, 0, 2, w, 0⟩
                  else
                    let b := unmarshal T true fds fuel s body 0 le
                    ⟨b.st, h.steps + b.steps, max h.depth b.depth, max h.frames b.frames, h.size + b.size, 1,
                     w + b.work, h.chars + b.chars⟩
                | _ => ⟨.err (if fix then .marshalling else .type), h.steps, h.depth, h.frames, 0, 2, w, 0⟩
          | _ => ⟨.err .index, h.steps, h.depth, h.frames, 0, 0, w, 0⟩
      | _ => ⟨.err .index, h.steps, h.depth, h.frames, 0, 0, h.work, 0⟩
    | st => ⟨st, h.steps, h.depth, h.frames, 0, 0, h.work, 0⟩

/-- Fuel that is always enough for `parseMessage` of the repaired code (`parseMessage_total`). -/
def parseFuel (hf : List Char) (data : List UInt8) : Nat := 2 * (max hf.length 255) + 2 * data.length + 2

/-- Step bound of `parseMessage` (repaired code): linear in the message length. -/
def parseStepBound (hf : List Char) (data : List UInt8) : Nat :=
  hf.length + 255 + (max hf.length 255 + 2) * data.length + 2

/-- Work bound of `parseMessage` (repaired code). -/
def parseWorkBound (hf : List Char) (data : List UInt8) : Nat :=
  workUnit (max hf.length 255) * parseStepBound hf data + 3 * data.length + (max hf.length 255 + 1) * (max hf.length 255 + 1)

end Txdbus.Cost
