import TxdbusModel.Wire.InferTy
/-
Spec side of the second half of C19, written from the property statement:

* `Travels okPath v t` - the Python value `v` conforms to the DBus type `t`, i.e. it can travel under
  `t`: every scalar is of the class the basic type asks for and fits its range / form, containers conform
  element-wise, a variant position holds any value that conforms to the type inferred for it.
* `InClaim okPath v` - the hypothesis of the property: in each container the elements all have the class
  of the first one and share one DBus type, or they differ in Python class (and then travel as nested
  variants); every scalar fits the type inferred for it; dict keys share one basic type.
  (Values without a DBus type - `()`, ints beyond 64 bits, a dict with container keys - have no inferred
  type and are outside by `scalar` / `tuple` / the key conditions.)
`okPath` is the object-path validity test (Valid/ owns the real one; Properties/C19 instantiates it).
Not covered by `fitsBasic`: instances of the `Boolean` wrapper class (they infer 'b' and are sent as a
boolean, but come back as `bool`; the wire proofs of C01 relate 'b' to `bool` values only).
Core Lean only.
-/
namespace Txdbus

/-- Half-open value range of the integer type codes. -/
def Basic.intRange? : Basic → Option (Int × Int)
  | .y => some (0, 256) | .n => some (-32768, 32768) | .q => some (0, 65536)
  | .i => some (-2147483648, 2147483648) | .u => some (0, 4294967296)
  | .x => some (-9223372036854775808, 9223372036854775808) | .t => some (0, 18446744073709551616)
  | _ => none

/-- The scalar `pv` is of the class basic type `c` asks for and fits it. -/
def fitsBasic (okPath : List Char → Bool) (pv : PyVal) (c : Basic) : Bool :=
  match c.intRange? with
  | some (lo, hi) =>
    match pv with
    | .int _ n => decide (lo ≤ n) && decide (n < hi)
    | _ => false
  | none =>
    match c, pv with
    | .b, .bool _ => true
    | .d, .float _ => true
    | .s, .str _ s => !s.contains (Char.ofNat 0)
    | .o, .str _ s => !s.contains (Char.ofNat 0) && okPath s
    | .g, .str _ s => s.all (fun ch => decide (ch.toNat < 128) && decide (ch.toNat ≠ 0)) && decide (s.length ≤ 255)
    | _, _ => false

def PyVal.isScalar : PyVal → Bool
  | .bool _ => true
  | .int _ _ => true
  | .float _ => true
  | .str _ _ => true
  | _ => false

/-- `v` conforms to (can travel under) the single complete type `t`. -/
inductive Travels (okPath : List Char → Bool) : PyVal → Ty → Prop
  | basic (pv : PyVal) (c : Basic) : fitsBasic okPath pv c = true → Travels okPath pv (.basic c)
  | variant (pv : PyVal) (t : Ty) : inferTy pv = some t → Travels okPath pv t → Travels okPath pv .variant
  | list (xs : List PyVal) (el : Ty) : el.notEntry = true → (∀ e, e ∈ xs → Travels okPath e el) →
      Travels okPath (.list xs) (.array el)
  | bytearray (bs : List UInt8) : Travels okPath (.bytearray bs) (.array (.basic .y))
  | tuple (xs : List PyVal) (fs : List Ty) : xs.length = fs.length →
      (∀ i (h1 : i < xs.length) (h2 : i < fs.length), Travels okPath xs[i] fs[i]) →
      Travels okPath (.tuple xs) (.struct fs)
  | dict (kvs : List (PyVal × PyVal)) (kt vt : Ty) :
      (∀ kv, kv ∈ kvs → Travels okPath kv.1 kt) → (∀ kv, kv ∈ kvs → Travels okPath kv.2 vt) →
      Travels okPath (.dict kvs) (.array (.dict kt vt))

/-- The hypothesis of the round-trip claim. -/
inductive InClaim (okPath : List Char → Bool) : PyVal → Prop
  | scalar (v : PyVal) (c : Basic) : v.isScalar = true → inferTy v = some (.basic c) →
      fitsBasic okPath v c = true → InClaim okPath v
  | bytearray (bs : List UInt8) : InClaim okPath (.bytearray bs)
  | listEmpty : InClaim okPath (.list [])
  /-- all elements have the class of the first one and share its DBus type -/
  | listSame (x : PyVal) (xs : List PyVal) : sameClass x.pyType xs = true →
      InClaim okPath x → (∀ e, e ∈ xs → InClaim okPath e) → (∀ e, e ∈ xs → inferTy e = inferTy x) →
      InClaim okPath (.list (x :: xs))
  /-- the elements differ in Python class: nested variants -/
  | listMixed (x : PyVal) (xs : List PyVal) : sameClass x.pyType xs = false →
      InClaim okPath x → (∀ e, e ∈ xs → InClaim okPath e) → InClaim okPath (.list (x :: xs))
  | tuple (xs : List PyVal) : xs ≠ [] → (∀ e, e ∈ xs → InClaim okPath e) → InClaim okPath (.tuple xs)
  | dictEmpty : InClaim okPath (.dict [])
  | dictSame (k v : PyVal) (rest : List (PyVal × PyVal)) (kc : Basic) :
      sameValueClass v.pyType rest = true →
      (∀ kv, kv ∈ (k, v) :: rest → inferTy kv.1 = some (.basic kc)) →
      (∀ kv, kv ∈ (k, v) :: rest → fitsBasic okPath kv.1 kc = true) →
      InClaim okPath v → (∀ kv, kv ∈ rest → InClaim okPath kv.2) →
      (∀ kv, kv ∈ rest → inferTy kv.2 = inferTy v) →
      InClaim okPath (.dict ((k, v) :: rest))
  | dictMixed (k v : PyVal) (rest : List (PyVal × PyVal)) (kc : Basic) :
      sameValueClass v.pyType rest = false →
      (∀ kv, kv ∈ (k, v) :: rest → inferTy kv.1 = some (.basic kc)) →
      (∀ kv, kv ∈ (k, v) :: rest → fitsBasic okPath kv.1 kc = true) →
      InClaim okPath v → (∀ kv, kv ∈ rest → InClaim okPath kv.2) →
      InClaim okPath (.dict ((k, v) :: rest))

end Txdbus
