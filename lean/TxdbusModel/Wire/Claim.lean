import TxdbusModel.Wire.InferTy
/-
Spec side of the second half of C19, written from the property statement:

* `Travels okPath v t` - the Python value `v` conforms to the DBus type `t`, i.e. it can travel under
  `t`: every scalar fits the range / form of the basic type it is sent as, containers conform element-wise,
  a variant position holds any value that conforms to the type inferred for it.  This is the domain on
  which the wire codec (C01/C02: `Spec.encode` accepts, `Spec.decode_encode`) round-trips.
* `InClaim okPath v` - the hypothesis of the property: in each container the elements all share one DBus
  type, or differ in Python type (and then travel as nested variants, or as their common base type
  provided they fit it); every scalar fits the type inferred for it; no empty tuple; dict keys share
  one basic type.
`okPath` is the object-path validity test (Valid/ owns the real one; any predicate works here).
Core Lean only.
-/
namespace Txdbus

/-- Half-open value range of the integer type codes. -/
def Basic.intRange? : Basic → Option (Int × Int)
  | .y => some (0, 256) | .n => some (-32768, 32768) | .q => some (0, 65536)
  | .i => some (-2147483648, 2147483648) | .u => some (0, 4294967296)
  | .x => some (-9223372036854775808, 9223372036854775808) | .t => some (0, 18446744073709551616)
  | _ => none

/-- The scalar `pv` can be sent as basic type `c` and comes back equal. -/
def fitsBasic (okPath : List Char → Bool) (pv : PyVal) (c : Basic) : Bool :=
  match c.intRange? with
  | some (lo, hi) =>
    match pv.asInt? with
    | some n => decide (lo ≤ n) && decide (n < hi)
    | none => false
  | none =>
    match c, pv with
    | .b, .bool _ => true
    | .b, .int .boolean n => n == 0 || n == 1
    | .d, .float _ => true
    | .s, .str _ s => !s.contains (Char.ofNat 0)
    | .o, .str _ s => !s.contains (Char.ofNat 0) && okPath s
    | .g, .str _ s => s.all (fun ch => ch.toNat < 128 && ch.toNat ≠ 0) && decide (s.length ≤ 255)
    | _, _ => false

def PyVal.isScalar : PyVal → Bool
  | .bool _ => true
  | .int _ _ => true
  | .float _ => true
  | .str _ _ => true
  | _ => false

/-- `v` conforms to (can travel under) the single complete type `t`. -/
inductive Travels (okPath : List Char → Bool) : PyVal → Ty → Prop
  | basic (pv : PyVal) (c : Basic) : fitsBasic okPath pv c = true → Travels okPath pv (.basic c)
  | variant (pv : PyVal) (t : Ty) : inferTy pv = some t → Travels okPath pv t → Travels okPath pv .variant
  | list (xs : List PyVal) (el : Ty) : (∀ e, e ∈ xs → Travels okPath e el) →
      Travels okPath (.list xs) (.array el)
  | bytearray (bs : List UInt8) : Travels okPath (.bytearray bs) (.array (.basic .y))
  | tuple (xs : List PyVal) (fs : List Ty) : xs.length = fs.length →
      (∀ i (h1 : i < xs.length) (h2 : i < fs.length), Travels okPath xs[i] fs[i]) →
      Travels okPath (.tuple xs) (.struct fs)
  | dict (kvs : List (PyVal × PyVal)) (kt vt : Ty) :
      (∀ kv, kv ∈ kvs → Travels okPath kv.1 kt) → (∀ kv, kv ∈ kvs → Travels okPath kv.2 vt) →
      Travels okPath (.dict kvs) (.array (.dict kt vt))

/-- Element `e` may follow `first` in a container whose elements are all instances of the class of
`first`: it has the same DBus type, or it is an instance of a different (sub)class that fits the
basic type of `first` (the common base type). -/
def sharesOrFits (okPath : List Char → Bool) (first e : PyVal) : Prop :=
  inferTy e = inferTy first ∨
  (e.pyType ≠ first.pyType ∧ ∃ c, inferTy first = some (.basic c) ∧ fitsBasic okPath e c = true)

/-- The hypothesis of the round-trip claim. -/
inductive InClaim (okPath : List Char → Bool) : PyVal → Prop
  | scalar (v : PyVal) (c : Basic) : v.isScalar = true → inferTy v = some (.basic c) →
      fitsBasic okPath v c = true → InClaim okPath v
  | bytearray (bs : List UInt8) : InClaim okPath (.bytearray bs)
  | listEmpty : InClaim okPath (.list [])
  /-- all elements are instances of the first element's class: one DBus type, or the common base type -/
  | listSame (x : PyVal) (xs : List PyVal) : allInstances x.pyType xs = true →
      InClaim okPath x → (∀ e, e ∈ xs → InClaim okPath e) → (∀ e, e ∈ xs → sharesOrFits okPath x e) →
      InClaim okPath (.list (x :: xs))
  /-- some element is not an instance of the first element's class: nested variants -/
  | listMixed (x : PyVal) (xs : List PyVal) : allInstances x.pyType xs = false →
      InClaim okPath x → (∀ e, e ∈ xs → InClaim okPath e) → InClaim okPath (.list (x :: xs))
  | tuple (xs : List PyVal) : xs ≠ [] → (∀ e, e ∈ xs → InClaim okPath e) → InClaim okPath (.tuple xs)
  | dictEmpty : InClaim okPath (.dict [])
  | dictSame (k v : PyVal) (rest : List (PyVal × PyVal)) (kc : Basic) :
      allValueInstances v.pyType rest = true →
      (∀ kv, kv ∈ (k, v) :: rest → inferTy kv.1 = some (.basic kc)) →
      (∀ kv, kv ∈ (k, v) :: rest → fitsBasic okPath kv.1 kc = true) →
      InClaim okPath v → (∀ kv, kv ∈ rest → InClaim okPath kv.2) →
      (∀ kv, kv ∈ rest → sharesOrFits okPath v kv.2) →
      InClaim okPath (.dict ((k, v) :: rest))
  | dictMixed (k v : PyVal) (rest : List (PyVal × PyVal)) (kc : Basic) :
      allValueInstances v.pyType rest = false →
      (∀ kv, kv ∈ (k, v) :: rest → inferTy kv.1 = some (.basic kc)) →
      (∀ kv, kv ∈ (k, v) :: rest → fitsBasic okPath kv.1 kc = true) →
      InClaim okPath v → (∀ kv, kv ∈ rest → InClaim okPath kv.2) →
      InClaim okPath (.dict ((k, v) :: rest))

end Txdbus
