import TxdbusModel.Wire.Infer
/-
`sigFromPy` as it was at the pinned snapshot 4c62642, BEFORE the repairs 6ba9f66 (F28: every plain
int inferred 'i'), fixes/C19-01 (dict value signature from the last item), fixes/C19-02 (isinstance
instead of the exact class) and fixes/C19-03 (`()` and non-basic dict keys got a signature).  Used only by the
witness theorems of Properties/C19.lean ("the pre-fix model violates the property at this input").
Core Lean only.
-/
namespace Txdbus

/-- `all(isinstance(v, vtype) for v in xs)` - the snapshot's `same` flag. -/
def allInstances (c : PyClass) (xs : List PyVal) : Bool := xs.all (·.isInstance c)

def allValueInstances (c : PyClass) (kvs : List (PyVal × PyVal)) : Bool := kvs.all (·.2.isInstance c)

mutual
def sigFromPyOrig : PyVal → Except PyErr (List Char)
  | .none => .error .marshalling
  | .bool _ => .ok ['b']
  | .int cls _ =>
    match cls.dbusSignature with
    | some c => .ok [c]
    | none => .ok ['i']     -- the 'x' branch was dead code
  | .float _ => .ok ['d']
  | .str cls _ =>
    match cls.dbusSignature with
    | some c => .ok [c]
    | none => .ok ['s']
  | .bytearray _ => .ok ['a', 'y']
  | .list [] => .ok ['a', 'v']
  | .list (x :: xs) =>
    if allInstances x.pyType xs then
      match sigFromPyOrig x with
      | .ok s => .ok ('a' :: s)
      | .error e => .error e
    else .ok ['a', 'v']
  | .tuple xs =>
    match sigConcatOrig xs with
    | .ok s => .ok ('(' :: (s ++ [')']))
    | .error e => .error e
  | .dict [] => .ok ['a', '{', 's', 'v', '}']
  | .dict ((k, v) :: rest) =>
    match sigLastEntryOrig (allValueInstances v.pyType rest) ((k, v) :: rest) with
    | .ok s => .ok ('a' :: '{' :: (s ++ ['}']))
    | .error e => .error e
  | .obj _ (some s) _ => .ok s
  | .obj _ Option.none _ => .error .marshalling
  | .other _ => .error .marshalling
/-- `''.join(sigFromPyOrig(e) for e in xs)`. -/
def sigConcatOrig : List PyVal → Except PyErr (List Char)
  | [] => .ok []
  | x :: xs =>
    match sigFromPyOrig x with
    | .error e => .error e
    | .ok s =>
      match sigConcatOrig xs with
      | .error e => .error e
      | .ok r => .ok (s ++ r)
/-- Signature of the entry from the loop variables left after `for k, v in pobj.items()`:
both from the LAST item of the iteration. -/
def sigLastEntryOrig (same : Bool) : List (PyVal × PyVal) → Except PyErr (List Char)
  | [] => .error .other
  | [(k, v)] =>
    match sigFromPyOrig k with
    | .error e => .error e
    | .ok ks =>
      if same then
        match sigFromPyOrig v with
        | .error e => .error e
        | .ok vs => .ok (ks ++ vs)
      else .ok (ks ++ ['v'])
  | _ :: p :: rest => sigLastEntryOrig same (p :: rest)
end

end Txdbus
