import TxdbusModel.Wire.PyVal
/-
Code model of `sigFromPy` (txdbus/marshal.py) after four repairs:
  * 6ba9f66 (F28): a plain `int` selects 'i' / 'x' / 't' by range;
  * f62e6a7 (fixes/C19-01): the dict rule takes the value signature from the FIRST value;
  * fixes/C19-02: the list and dict rules compare the EXACT class (`type(v) is not vtype`), so a container
    mixing a class with its subclasses travels as variants;
  * fixes/C19-03: the empty tuple and dict keys whose signature is not one basic type code raise
    MarshallingError (there is no DBus type).
The code as it was at the snapshot is `sigFromPyOrig` in Wire/InferOrig.lean (witnesses only).
Mirrors the order of the tests:

  1. `getattr(pobj, 'dbusSignature', None)`   (wrapper classes, objects carrying the attribute)
  2. bool  3. int  4. float  5. str  6. bytearray
  7. list : `[]` -> 'av'; every later element `type(v) is type(pobj[0])` -> 'a' + sig(first); else 'av'
  8. tuple: `()` -> MarshallingError; else '(' + concatenation of the element signatures + ')'
  9. dict : `{}` -> 'a{sv}'; `vtype = type(first value)`; `same` iff every later value has exactly that class;
            `ksig = sigFromPy(k)` for the LAST key of the iteration (loop variable after the loop), which must be
            one of the 13 basic codes, else MarshallingError; then
            same -> 'a{' ksig sig(v_first) '}', else 'a{' ksig 'v}'.  Keys are never compared with each other.
 10. anything else: MarshallingError.
Core Lean only.
-/
namespace Txdbus

/-- Step 3: the plain-`int` branch. -/
def intSig (n : Int) : List Char :=
  if -2147483648 ≤ n ∧ n < 2147483648 then ['i']
  else if -9223372036854775808 ≤ n ∧ n < 9223372036854775808 then ['x']
  else ['t']

/-- `all(type(v) is vtype for v in xs)` - the list rule's `same` flag. -/
def allSameType (c : PyClass) (xs : List PyVal) : Bool := xs.all (·.pyType == c)

/-- The dict rule's `same` flag over the items after the first. -/
def allValuesSameType (c : PyClass) (kvs : List (PyVal × PyVal)) : Bool := kvs.all (·.2.pyType == c)

/-- The literal `'ybnqiuxtdsogh'` of the key test. -/
def basicCodes : List Char := ['y', 'b', 'n', 'q', 'i', 'u', 'x', 't', 'd', 's', 'o', 'g', 'h']

/-- `not (len(ksig) != 1 or ksig not in 'ybnqiuxtdsogh')`. -/
def isBasicSig : List Char → Bool
  | [c] => basicCodes.contains c
  | _ => false

mutual
def sigFromPy : PyVal → Except PyErr (List Char)
  | .none => .error .marshalling
  | .bool _ => .ok ['b']
  | .int cls n =>
    match cls.dbusSignature with
    | some c => .ok [c]
    | none => .ok (intSig n)
  | .float _ => .ok ['d']
  | .str cls _ =>
    match cls.dbusSignature with
    | some c => .ok [c]
    | none => .ok ['s']
  | .bytearray _ => .ok ['a', 'y']
  | .list [] => .ok ['a', 'v']
  | .list (x :: xs) =>
    if allSameType x.pyType xs then
      match sigFromPy x with
      | .ok s => .ok ('a' :: s)
      | .error e => .error e
    else .ok ['a', 'v']
  | .tuple [] => .error .marshalling
  | .tuple (x :: xs) =>
    match sigConcat (x :: xs) with
    | .ok s => .ok ('(' :: (s ++ [')']))
    | .error e => .error e
  | .dict [] => .ok ['a', '{', 's', 'v', '}']
  | .dict ((k, v) :: rest) =>
    match sigLastKey ((k, v) :: rest) with
    | .error e => .error e
    | .ok ks =>
      if isBasicSig ks then
        if allValuesSameType v.pyType rest then
          match sigFromPy v with
          | .error e => .error e
          | .ok vs => .ok ('a' :: '{' :: (ks ++ vs ++ ['}']))
        else .ok ('a' :: '{' :: (ks ++ ['v', '}']))
      else .error .marshalling
  | .obj _ (some s) _ => .ok s
  | .obj _ Option.none _ => .error .marshalling
  | .other _ => .error .marshalling
/-- `''.join(sigFromPy(e) for e in xs)`. -/
def sigConcat : List PyVal → Except PyErr (List Char)
  | [] => .ok []
  | x :: xs =>
    match sigFromPy x with
    | .error e => .error e
    | .ok s =>
      match sigConcat xs with
      | .error e => .error e
      | .ok r => .ok (s ++ r)
/-- `sigFromPy(k)` for the loop variable `k` left after `for k, v in pobj.items()`: the LAST key. -/
def sigLastKey : List (PyVal × PyVal) → Except PyErr (List Char)
  | [] => .error .other     -- unreachable: called on non-empty item lists only
  | [(k, _)] => sigFromPy k
  | _ :: p :: rest => sigLastKey (p :: rest)
end

end Txdbus
