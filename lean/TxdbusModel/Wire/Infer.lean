import TxdbusModel.Wire.PyVal
/-
Code model of `sigFromPy` (txdbus/marshal.py:243-310) after two repairs:
  * 6ba9f66: a plain `int` selects 'i' / 'x' / 't' by range (F28);
  * fixes/C19-01-dict-value-signature.patch: the dict rule takes the value signature from the FIRST
    value - the one whose class `same` was judged against - instead of the last one.
The code as it was before both repairs is `sigFromPyOrig` in Wire/InferOrig.lean (witnesses only).
Mirrors the order of the tests:

  1. `getattr(pobj, 'dbusSignature', None)`   (wrapper classes, objects carrying the attribute)
  2. bool  3. int  4. float  5. str  6. bytearray
  7. list : `[]` -> 'av'; all later elements `isinstance(v, type(pobj[0]))` -> 'a' + sig(first); else 'av'
  8. tuple: '(' + concatenation of the element signatures + ')'      (the empty tuple gives '()')
  9. dict : `{}` -> 'a{sv}'; `vtype = type(first value)`; `same` iff every later value is an instance
            of it; the key signature is taken from the LAST key of the iteration (loop variable `k`
            after the loop), the value signature from the FIRST value:
            same -> 'a{' sig(k_last) sig(v_first) '}', else 'a{' sig(k_last) 'v}'.  Keys are never compared.
 10. anything else: MarshallingError.
Core Lean only.
-/
namespace Txdbus

/-- Step 3: the plain-`int` branch. -/
def intSig (n : Int) : List Char :=
  if -2147483648 ≤ n ∧ n < 2147483648 then ['i']
  else if -9223372036854775808 ≤ n ∧ n < 9223372036854775808 then ['x']
  else ['t']

/-- `all(isinstance(v, vtype) for v in xs)` - the list rule's `same` flag. -/
def allInstances (c : PyClass) (xs : List PyVal) : Bool := xs.all (·.isInstance c)

/-- The dict rule's `same` flag over the items after the first. -/
def allValueInstances (c : PyClass) (kvs : List (PyVal × PyVal)) : Bool := kvs.all (·.2.isInstance c)

mutual
def sigFromPy : PyVal → Except PyErr (List Char)
  | .none => .error .marshalling
  | .bool _ => .ok ['b']
  | .int cls n =>
    match cls.dbusSignature with
    | some c => .ok [c]
    | none => .ok (intSig n)
  | .float _ => .ok ['d']
  | .str cls _ =>
    match cls.dbusSignature with
    | some c => .ok [c]
    | none => .ok ['s']
  | .bytearray _ => .ok ['a', 'y']
  | .list [] => .ok ['a', 'v']
  | .list (x :: xs) =>
    if allInstances x.pyType xs then
      match sigFromPy x with
      | .ok s => .ok ('a' :: s)
      | .error e => .error e
    else .ok ['a', 'v']
  | .tuple xs =>
    match sigConcat xs with
    | .ok s => .ok ('(' :: (s ++ [')']))
    | .error e => .error e
  | .dict [] => .ok ['a', '{', 's', 'v', '}']
  | .dict ((k, v) :: rest) =>
    match sigLastKey ((k, v) :: rest) with
    | .error e => .error e
    | .ok ks =>
      if allValueInstances v.pyType rest then
        match sigFromPy v with
        | .error e => .error e
        | .ok vs => .ok ('a' :: '{' :: (ks ++ vs ++ ['}']))
      else .ok ('a' :: '{' :: (ks ++ ['v', '}']))
  | .obj _ (some s) _ => .ok s
  | .obj _ Option.none _ => .error .marshalling
  | .other _ => .error .marshalling
/-- `''.join(sigFromPy(e) for e in xs)`. -/
def sigConcat : List PyVal → Except PyErr (List Char)
  | [] => .ok []
  | x :: xs =>
    match sigFromPy x with
    | .error e => .error e
    | .ok s =>
      match sigConcat xs with
      | .error e => .error e
      | .ok r => .ok (s ++ r)
/-- `sigFromPy(k)` for the loop variable `k` left after `for k, v in pobj.items()`: the LAST key. -/
def sigLastKey : List (PyVal × PyVal) → Except PyErr (List Char)
  | [] => .error .other     -- unreachable: called on non-empty item lists only
  | [(k, _)] => sigFromPy k
  | _ :: p :: rest => sigLastKey (p :: rest)
end

end Txdbus
