import TxdbusModel.Wire.Spec
import TxdbusModel.Wire.Code
/-
Executable, type-directed reading of a Python value as the spec value it denotes - the decidable twin of
the conformance relation `Code.Conf` (Proofs/Wire/Conf.lean; soundness: Proofs/Wire/ToSpecSound.lean).
Used by the drivers (`specenc`) so that every generated case for which it answers is CERTIFIED to satisfy
the hypotheses of `C01_roundtrip_conf` / `C02_encode_conf`.

Conforming means: the Python class the type asks for at every position - `bool` or `Boolean(0/1)` for `b`;
`int` (plain or a typed wrapper other than `Boolean`) for the integer types; `float` for `d`; `str` (plain or
wrapped) for `s`, `o` (accepted by `validateObjectPath`), `g` (ASCII); list / tuple / bytearray for arrays,
`dict` for arrays of dict entries (items in iteration order); list / tuple / object with `dbusOrder` for
structs and single dict entries; for `v` any value whose inferred signature (`sigFromPy`) is one complete
type to which it conforms (no descriptors inside: txdbus passes no descriptor list there); for `h` (outside
variants) a plain scalar object, which denotes its index in the descriptor list being built (`fds`).
`fuel` bounds the nesting depth.  Core Lean only.
-/
namespace Txdbus
namespace Code

mutual
/-- `plain` with the `Boolean` wrapper read as the boolean it stands for. -/
def plainB : PyVal → PyVal
  | .int .boolean n => .bool (decide (n ≠ 0))
  | .int _ n => .int .plain n
  | .str _ s => .str .plain s
  | .bytearray bs => .list (bs.map fun b => .int .plain b.toNat)
  | .list xs => .list (plainBList xs)
  | .tuple xs => .list (plainBList xs)
  | .dict kvs => .dict (plainBPairs kvs)
  | .obj _ _ fields => .list (plainBList fields)
  | v => v
def plainBList : List PyVal → List PyVal
  | [] => []
  | x :: xs => plainB x :: plainBList xs
def plainBPairs : List (PyVal × PyVal) → List (PyVal × PyVal)
  | [] => []
  | (k, v) :: kvs => (plainB k, plainB v) :: plainBPairs kvs
end

/-- The canonical key forms of a list of keys (`none`: an unhashable key). -/
def keyForms : List PyVal → Option (List KeyForm)
  | [] => some []
  | k :: ks =>
    match keyForm? k, keyForms ks with
    | some kf, some kfs => some (kf :: kfs)
    | _, _ => none

/-- Hashable and pairwise different under Python equality. -/
def distinctKeysCheck (ks : List PyVal) : Bool :=
  match keyForms ks with
  | some kfs => decide (kfs.Pairwise (fun a b => keysEqual a b = false))
  | none => false

mutual
/-- Executable form of `KeysOKB`: every dict inside the value has hashable, pairwise distinct keys (after
normalisation) - what a real Python dict guarantees. -/
def keysOKCheck : PyVal → Bool
  | .list xs => keysOKCheckList xs
  | .tuple xs => keysOKCheckList xs
  | .obj _ _ fs => keysOKCheckList fs
  | .dict kvs => distinctKeysCheck ((plainBPairs kvs).map (·.1)) && keysOKCheckPairs kvs
  | _ => true
def keysOKCheckList : List PyVal → Bool
  | [] => true
  | x :: xs => keysOKCheck x && keysOKCheckList xs
def keysOKCheckPairs : List (PyVal × PyVal) → Bool
  | [] => true
  | (k, v) :: kvs => keysOKCheck k && keysOKCheck v && keysOKCheckPairs kvs
end

/-- Values that are their own normal form (what the harness uses as descriptors). -/
def isPlainScalar : PyVal → Bool
  | .none => true
  | .bool _ => true
  | .int .plain _ => true
  | .float _ => true
  | .str .plain _ => true
  | .other _ => true
  | _ => false

def toSpecArrayElems : PyVal → Option (List PyVal)
  | .list xs => some xs
  | .tuple xs => some xs
  | .bytearray bs => some (bs.map fun b => .int .plain b.toNat)
  | _ => none

def toSpecStructFields : PyVal → Option (List PyVal)
  | .list xs => some xs
  | .tuple xs => some xs
  | .obj _ _ fields => some fields
  | _ => none

/-- The basic types (no recursion).  `fds`: the descriptors handed out so far. -/
def toSpecBasic (fd : Bool) (c : Basic) (pv : PyVal) (fds : List PyVal) : Option (Val × List PyVal) :=
  match c with
  | .h => if fd && isPlainScalar pv then some (.int fds.length, fds ++ [pv]) else none
  | .b =>
    match pv with
    | .bool b => some (.bool b, fds)
    | .int .boolean n => if n = 0 then some (.bool false, fds) else if n = 1 then some (.bool true, fds) else none
    | _ => none
  | .d =>
    match pv with
    | .float bits => some (.double bits, fds)
    | _ => none
  | .s =>
    match pv with
    | .str _ cs => some (.str (utf8Encode cs), fds)
    | _ => none
  | .o =>
    match pv with
    | .str _ cs => if Valid.validateObjectPath cs = .accept then some (.str (utf8Encode cs), fds) else none
    | _ => none
  | .g =>
    match pv with
    | .str _ cs =>
      match asciiEncode cs with
      | some bs => some (.str bs, fds)
      | none => none
    | _ => none
  | _ =>
    match pv with
    | .int cls n => if cls = .boolean then none else some (.int n, fds)
    | _ => none

mutual
def toSpec : Nat → Bool → Ty → PyVal → List PyVal → Option (Val × List PyVal)
  | 0, _, _, _, _ => none
  | fuel + 1, fd, t, pv, fds =>
    match t with
    | .basic c => toSpecBasic fd c pv fds
    | .variant =>
      match sigFromPy pv with
      | .ok sg =>
        match parseSingle sg with
        | some t' =>
          if t'.render = sg then
            match toSpec fuel false t' pv fds with
            | some (v, _) => some (.variant t' v, fds)
            | none => none
          else none
        | none => none
      | .error _ => none
    | .array el =>
      match el with
      | .dict _ _ =>
        match pv with
        | .dict kvs =>
          match toSpecElems fuel fd el (kvs.map fun kv => .tuple [kv.1, kv.2]) fds with
          | some (vs, fds') => some (.array vs, fds')
          | none => none
        | _ => none
      | _ =>
        match toSpecArrayElems pv with
        | some xs =>
          match toSpecElems fuel fd el xs fds with
          | some (vs, fds') => some (.array vs, fds')
          | none => none
        | none => none
    | .struct fs =>
      match toSpecStructFields pv with
      | some xs =>
        match toSpecFields fuel fd fs xs fds with
        | some (vs, fds') => some (.struct vs, fds')
        | none => none
      | none => none
    | .dict kt vt =>
      match toSpecStructFields pv with
      | some [x, y] =>
        match toSpec fuel fd kt x fds with
        | some (a, fds1) =>
          match toSpec fuel fd vt y fds1 with
          | some (b, fds2) => some (.entry a b, fds2)
          | none => none
        | none => none
      | _ => none
def toSpecElems : Nat → Bool → Ty → List PyVal → List PyVal → Option (List Val × List PyVal)
  | 0, _, _, _, _ => none
  | _ + 1, _, _, [], fds => some ([], fds)
  | fuel + 1, fd, el, x :: xs, fds =>
    match toSpec fuel fd el x fds with
    | some (v, fds1) =>
      match toSpecElems fuel fd el xs fds1 with
      | some (vs, fds2) => some (v :: vs, fds2)
      | none => none
    | none => none
def toSpecFields : Nat → Bool → List Ty → List PyVal → List PyVal → Option (List Val × List PyVal)
  | 0, _, _, _, _ => none
  | _ + 1, _, [], [], fds => some ([], fds)
  | fuel + 1, fd, t :: ts, x :: xs, fds =>
    match toSpec fuel fd t x fds with
    | some (v, fds1) =>
      match toSpecFields fuel fd ts xs fds1 with
      | some (vs, fds2) => some (v :: vs, fds2)
      | none => none
    | none => none
  | _ + 1, _, _, _, _ => none
end

/-- The whole `variableList` of a `marshal()` call (a list, a tuple or an object with `dbusOrder`). -/
def toSpecTop (fuel : Nat) (ts : List Ty) (pv : PyVal) : Option (List Val × List PyVal) :=
  match toSpecStructFields pv with
  | some items => toSpecFields fuel true ts items []
  | none => none

end Code
end Txdbus
