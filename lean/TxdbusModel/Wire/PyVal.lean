import TxdbusModel.Base.ExceptEq
/-
The Python values that txdbus marshals, as a model datatype, with the part of Python's class
lattice that `sigFromPy` / the marshallers look at (`isinstance`, `type(x)`).
Shared: Wire/Infer (C19), Wire/Code (C01/C02), message and object models.  Core Lean only.

Conventions
* `int` carries its class: a plain `int` or one of the eight wrapper subclasses of `int` defined in
  marshal.py.  `bool` is its own constructor (`bool` is a subclass of `int`: `PyClass.subclassOf`).
* `float` is its IEEE-754 binary64 bit pattern (no float arithmetic is modelled).
* `str` carries its class: plain `str`, `Signature` or `ObjectPath`; the text is a list of code points.
* `dict` is an association list in insertion (= iteration) order; a real dict has pairwise distinct
  keys under Python equality - that is a hypothesis of theorems, not part of the datatype.
* `obj cls dbusSig fields`: an instance of user class number `cls` that has a `dbusOrder` attribute;
  `fields` are the attribute values in `dbusOrder` order; `dbusSig` is its `dbusSignature`
  attribute if it has one.
* `other cls`: an object of an unsupported class number `cls` (no `dbusOrder`, no `dbusSignature`;
  e.g. `bytes`, `object()`, a `set`).  Distinct `cls` numbers are unrelated classes.
-/
namespace Txdbus

/-- Small error enumeration shared by the wire models (the Python exception class that escapes). -/
inductive PyErr where
  | marshalling   -- txdbus.error.MarshallingError
  | struct        -- struct.error
  | type          -- TypeError
  | value         -- ValueError
  | index         -- IndexError
  | key           -- KeyError
  | attribute     -- AttributeError
  | unicode       -- UnicodeError (encode / decode)
  | runtime       -- RuntimeError (e.g. 'generator raised StopIteration')
  | stopIteration -- StopIteration
  | recursion     -- RecursionError
  | other
  deriving DecidableEq, Repr, Inhabited

/-- `int` and its wrapper subclasses of marshal.py. -/
inductive IntCls where
  | plain | byte | boolean | int16 | uint16 | int32 | uint32 | int64 | uint64
  deriving DecidableEq, Repr, Inhabited

/-- `str` and its wrapper subclasses of marshal.py. -/
inductive StrCls where
  | plain | signature | objectPath
  deriving DecidableEq, Repr, Inhabited

inductive PyVal where
  | none
  | bool (b : Bool)
  | int (cls : IntCls) (n : Int)
  | float (bits : UInt64)
  | str (cls : StrCls) (s : List Char)
  | bytearray (bs : List UInt8)
  | list (xs : List PyVal)
  | tuple (xs : List PyVal)
  | dict (kvs : List (PyVal × PyVal))
  | obj (cls : Nat) (dbusSig : Option (List Char)) (fields : List PyVal)
  | other (cls : Nat)
  deriving Repr, Inhabited

/-- `type(x)` for the values of the model. -/
inductive PyClass where
  | noneType | bool | int (c : IntCls) | float | str (c : StrCls) | bytearray
  | list | tuple | dict | obj (cls : Nat) | other (cls : Nat)
  deriving DecidableEq, Repr, Inhabited

def PyVal.pyType : PyVal → PyClass
  | .none => .noneType
  | .bool _ => .bool
  | .int c _ => .int c
  | .float _ => .float
  | .str c _ => .str c
  | .bytearray _ => .bytearray
  | .list _ => .list
  | .tuple _ => .tuple
  | .dict _ => .dict
  | .obj c _ _ => .obj c
  | .other c => .other c

/-- `issubclass(a, b)` on the modelled classes: reflexive; `bool` and the integer wrappers below
plain `int`; `Signature` / `ObjectPath` below plain `str`; nothing else. -/
def PyClass.subclassOf (a b : PyClass) : Bool :=
  a == b ||
  match a, b with
  | .bool, .int .plain => true
  | .int _, .int .plain => true
  | .str _, .str .plain => true
  | _, _ => false

/-- `isinstance(v, c)`. -/
def PyVal.isInstance (v : PyVal) (c : PyClass) : Bool := v.pyType.subclassOf c

/-- The class attribute `dbusSignature` of the integer wrapper classes. -/
def IntCls.dbusSignature : IntCls → Option Char
  | .plain => none
  | .byte => some 'y' | .boolean => some 'b' | .int16 => some 'n' | .uint16 => some 'q'
  | .int32 => some 'i' | .uint32 => some 'u' | .int64 => some 'x' | .uint64 => some 't'

def StrCls.dbusSignature : StrCls → Option Char
  | .plain => none
  | .signature => some 'g'
  | .objectPath => some 'o'

/-- The integer value of an `int`/`bool` instance (`True == 1`). -/
def PyVal.asInt? : PyVal → Option Int
  | .bool b => some (if b then 1 else 0)
  | .int _ n => some n
  | _ => Option.none

end Txdbus
