import TxdbusModel.Sig.Ty
/-
A parser for signatures (left inverse of `Ty.render`), used by the wire *spec* to read the signature
that precedes the content of a variant.  Recursive descent with a step budget (`fuel`), so that it is
structurally recursive; `s.length + 1` always suffices (Proofs/Wire/SigParse: `parseSingle_render`).
Core Lean only.
-/
namespace Txdbus

def Ty.code : Ty → Char
  | .basic c => c.code
  | .variant => 'v'
  | .array _ => 'a'
  | .struct _ => '('
  | .dict _ _ => '{'

mutual
/-- Parse one complete type from the front of the input; returns it and the unread rest. -/
def parseTy : Nat → List Char → Option (Ty × List Char)
  | 0, _ => none
  | _ + 1, [] => none
  | n + 1, c :: cs =>
    if c = 'v' then some (.variant, cs)
    else if c = 'a' then
      match parseTy n cs with
      | some (t, r) => some (.array t, r)
      | none => none
    else if c = '(' then
      match parseTys n cs with
      | some (fs, r) =>
        match r with
        | ')' :: r' => some (.struct fs, r')
        | _ => none
      | none => none
    else if c = '{' then
      match parseTy n cs with
      | some (k, r1) =>
        match parseTy n r1 with
        | some (v, r2) =>
          match r2 with
          | '}' :: r' => some (.dict k v, r')
          | _ => none
        | none => none
      | none => none
    else
      match Basic.ofCode? c with
      | some b => some (.basic b, cs)
      | none => none
/-- Parse complete types up to the end of the input or up to (not including) a `)`. -/
def parseTys : Nat → List Char → Option (List Ty × List Char)
  | 0, _ => none
  | _ + 1, [] => some ([], [])
  | n + 1, c :: cs =>
    if c = ')' then some ([], c :: cs)
    else
      match parseTy n (c :: cs) with
      | some (t, r) =>
        match parseTys n r with
        | some (ts, r') => some (t :: ts, r')
        | none => none
      | none => none
end

/-- The signature of a variant's content: exactly one complete type and nothing else. -/
def parseSingle (s : List Char) : Option Ty :=
  match parseTy (s.length + 1) s with
  | some (t, []) => some t
  | _ => none

/-- A whole signature: a sequence of complete types. -/
def parseSig (s : List Char) : Option (List Ty) :=
  match parseTys (s.length + 1) s with
  | some (ts, []) => some ts
  | _ => none

mutual
/-- Structs are non-empty, everywhere inside the type (the part of signature validity on which the
wire format depends: every value of such a type occupies at least one byte). -/
def Ty.WF : Ty → Bool
  | .basic _ => true
  | .variant => true
  | .array e => e.WF
  | .struct fs => !fs.isEmpty && allWF fs
  | .dict k v => k.WF && v.WF
def allWF : List Ty → Bool
  | [] => true
  | t :: ts => t.WF && allWF ts
end

end Txdbus
