import TxdbusModel.Wire.Prim
import TxdbusModel.Wire.SigParse
/-
The DBus wire format as a reference encoder / decoder over the type grammar `Ty`, written from the
DBus specification (section "Marshaling (Wire Format)") and from nothing in txdbus.

* parameterised by an alignment table `A : Char → Nat` (type code ↦ alignment) and a byte order;
* a value is encoded at an offset `off` counted from the start of the message; every value is preceded
  by zero bytes up to the alignment of its type;
* fixed-size types: BYTE 1, BOOLEAN 4 (only 0 and 1), INT16/UINT16 2, INT32/UINT32 4, INT64/UINT64 8,
  DOUBLE 8 (IEEE 754 bit pattern), UNIX_FD 4 (index into the out-of-band descriptor array);
* STRING / OBJECT_PATH: UINT32 byte length, the bytes (UTF-8, no NUL), one NUL;
* SIGNATURE: one length byte, the bytes, one NUL;
* ARRAY: UINT32 length `n` of the element data in bytes, padding to the alignment of the element type
  (present even when the array is empty, not counted in `n`), then the elements, each aligned (the
  padding between elements is counted in `n`); `n ≤ 2^26`;
* STRUCT / DICT_ENTRY: the fields in order, each aligned (the struct itself is aligned by its parent);
* VARIANT: the SIGNATURE of exactly one complete type, then the value of that type, aligned.

The encoder is structurally recursive on the value (the type of a variant's content comes from the
value); the decoder is structurally recursive on the type, and takes the decoder for the content of
variants as a parameter, which `variantDec` closes up by the number of nested variants allowed.
Core Lean only.
-/
namespace Txdbus

/-- Alignment table: type code (first character of the rendered type) ↦ alignment. -/
abbrev AlignTable := Char → Nat

/-- Every type has a positive alignment. -/
def AlignTable.Pos (A : AlignTable) : Prop := ∀ t : Ty, 0 < A t.code

/-- The alignment table of the DBus specification. -/
def Spec.alignTable : AlignTable := fun c =>
  if c = 'y' then 1 else if c = 'b' then 4 else if c = 'n' then 2 else if c = 'q' then 2
  else if c = 'i' then 4 else if c = 'u' then 4 else if c = 'x' then 8 else if c = 't' then 8
  else if c = 'd' then 8 else if c = 's' then 4 else if c = 'o' then 4 else if c = 'g' then 1
  else if c = 'a' then 4 else if c = '(' then 8 else if c = 'v' then 1 else if c = '{' then 8
  else if c = 'h' then 4 else 1

/-- Values of the wire format.  Integers of all eight integer types and descriptor indices are `int`;
a double is its 64-bit pattern; string-like values (`s`, `o`, `g`) are the bytes that travel. -/
inductive Val where
  | int (n : Int)
  | bool (b : Bool)
  | double (bits : UInt64)
  | str (bs : Bytes)
  | variant (t : Ty) (v : Val)
  | array (vs : List Val)
  | struct (vs : List Val)
  | entry (k v : Val)
  deriving Repr, Inhabited

mutual
/-- Nesting depth of variants inside a value. -/
def Val.vdepth : Val → Nat
  | .variant _ v => v.vdepth + 1
  | .array vs => vdepthAll vs
  | .struct vs => vdepthAll vs
  | .entry k v => max k.vdepth v.vdepth
  | _ => 0
def vdepthAll : List Val → Nat
  | [] => 0
  | v :: vs => max v.vdepth (vdepthAll vs)
end

/-- How a basic type is laid out. -/
inductive Shape where
  | uint (k : Nat)   -- unsigned, k bytes
  | sint (k : Nat)   -- two's complement, k bytes
  | bool             -- UINT32 restricted to 0 / 1
  | double           -- 8 bytes, IEEE 754 bit pattern
  | str32            -- UINT32 length, bytes, NUL
  | str8             -- BYTE length, bytes, NUL
  deriving DecidableEq, Repr

def Basic.shape : Basic → Shape
  | .y => .uint 1 | .b => .bool | .n => .sint 2 | .q => .uint 2 | .i => .sint 4 | .u => .uint 4
  | .x => .sint 8 | .t => .uint 8 | .d => .double | .s => .str32 | .o => .str32 | .g => .str8
  | .h => .uint 4

namespace Spec

/-- Largest array payload (2^26 bytes). -/
def maxArray : Nat := 67108864

/-- Bytes of a string-like value that may travel: no NUL byte inside (the terminator is the only NUL).
UTF-8 well-formedness and the object-path / signature grammars are conditions on *values*
(`Val.Conforms` in Proofs); they do not influence the layout. -/
def strOk (bs : Bytes) : Bool := !bs.contains 0

def sigBytes (t : Ty) : Bytes := t.render.map (fun c => UInt8.ofNat c.toNat)

def bytesToChars (bs : Bytes) : List Char := bs.map (fun b => Char.ofNat b.toNat)

/-- A basic value, without its leading padding. -/
def encBasic (e : Endian) (c : Basic) (v : Val) : Option Bytes :=
  match c.shape, v with
  | .uint k, .int n => if 0 ≤ n ∧ n < (256 ^ k : Nat) then some (encUInt e k n.toNat) else none
  | .sint k, .int n =>
    if -((256 ^ k / 2 : Nat) : Int) ≤ n ∧ n < ((256 ^ k / 2 : Nat) : Int) then some (encSInt e k n) else none
  | .bool, .bool b => some (encUInt e 4 (if b then 1 else 0))
  | .double, .double bits => some (encUInt e 8 bits.toNat)
  | .str32, .str bs =>
    if strOk bs ∧ bs.length < 4294967296 then some (encUInt e 4 bs.length ++ bs ++ [0]) else none
  | .str8, .str bs =>
    if strOk bs ∧ bs.length < 256 then some (encUInt e 1 bs.length ++ bs ++ [0]) else none
  | _, _ => none

/-- Is `t` acceptable as the type of a variant's content: one complete type without empty structs whose
signature fits the one-byte length. -/
def variantTypeOk (t : Ty) : Bool := t.WF && t.render.length < 256

mutual
/-- `encode A e t v off`: the bytes of value `v` of type `t` when its first byte is at offset `off`
(the caller has already aligned `off`).  `none`: `v` is not a value of type `t`, or a length limit is
exceeded. -/
def encode (A : AlignTable) (e : Endian) : Ty → Val → Nat → Option Bytes
  | .basic c, v, _ => encBasic e c v
  | .variant, .variant t v, off =>
    if variantTypeOk t then
      let sg := encUInt e 1 t.render.length ++ sigBytes t ++ [0]
      let p := padLen (A t.code) (off + sg.length)
      match encode A e t v (off + sg.length + p) with
      | some body => some (sg ++ zeros p ++ body)
      | none => none
    else none
  | .array el, .array vs, off =>
    let p := padLen (A el.code) (off + 4)
    match encodeElems A e el vs (off + 4 + p) with
    | some body =>
      if body.length ≤ maxArray then some (encUInt e 4 body.length ++ zeros p ++ body) else none
    | none => none
  | .struct fs, .struct vs, off => encodeFields A e fs vs off
  | .dict kt vt, .entry k v, off =>
    let pk := padLen (A kt.code) off
    match encode A e kt k (off + pk) with
    | some kb =>
      let off1 := off + pk + kb.length
      let pv := padLen (A vt.code) off1
      match encode A e vt v (off1 + pv) with
      | some vb => some (zeros pk ++ kb ++ (zeros pv ++ vb))
      | none => none
    | none => none
  | _, _, _ => none
/-- The elements of an array, each preceded by its padding; `off` is where the first padding starts. -/
def encodeElems (A : AlignTable) (e : Endian) : Ty → List Val → Nat → Option Bytes
  | _, [], _ => some []
  | el, v :: vs, off =>
    let p := padLen (A el.code) off
    match encode A e el v (off + p) with
    | some b =>
      match encodeElems A e el vs (off + p + b.length) with
      | some r => some (zeros p ++ b ++ r)
      | none => none
    | none => none
/-- A sequence of values of the given types (a message body, the fields of a struct), each preceded
by its padding. -/
def encodeFields (A : AlignTable) (e : Endian) : List Ty → List Val → Nat → Option Bytes
  | [], [], _ => some []
  | t :: ts, v :: vs, off =>
    let p := padLen (A t.code) off
    match encode A e t v (off + p) with
    | some b =>
      match encodeFields A e ts vs (off + p + b.length) with
      | some r => some (zeros p ++ b ++ r)
      | none => none
    | none => none
  | _, _, _ => none
end

/-! ### Decoder (parser style: unread bytes and the offset of their first byte) -/

/-- A decoder reads a value from the front of the unread bytes, whose first byte is at offset `off`;
it returns the value, the bytes left, and the offset after the value. -/
abbrev Dec := Bytes → Nat → Option (Val × Bytes × Nat)

/-- Skip the padding before a value of alignment `a`; every padding byte must be zero. -/
def skipPad (a : Nat) (bs : Bytes) (off : Nat) : Option (Bytes × Nat) :=
  let p := padLen a off
  if p ≤ bs.length ∧ (bs.take p).all (· == 0) then some (bs.drop p, off + p) else none

/-- Take exactly `n` bytes. -/
def takeN (n : Nat) (bs : Bytes) : Option (Bytes × Bytes) :=
  if n ≤ bs.length then some (bs.take n, bs.drop n) else none

def decBasic (e : Endian) (c : Basic) : Dec := fun bs off =>
  match c.shape with
  | .uint k =>
    match takeN k bs with
    | some (w, r) => some (.int (decUInt e w), r, off + k)
    | none => none
  | .sint k =>
    match takeN k bs with
    | some (w, r) => some (.int (decSInt e w), r, off + k)
    | none => none
  | .bool =>
    match takeN 4 bs with
    | some (w, r) =>
      if decUInt e w = 0 then some (.bool false, r, off + 4)
      else if decUInt e w = 1 then some (.bool true, r, off + 4)
      else none
    | none => none
  | .double =>
    match takeN 8 bs with
    | some (w, r) => some (.double (UInt64.ofNat (decUInt e w)), r, off + 8)
    | none => none
  | .str32 =>
    match takeN 4 bs with
    | some (w, r) =>
      match takeN (decUInt e w) r with
      | some (s, r1) =>
        match r1 with
        | 0 :: r2 => if strOk s then some (.str s, r2, off + 4 + s.length + 1) else none
        | _ => none
      | none => none
    | none => none
  | .str8 =>
    match takeN 1 bs with
    | some (w, r) =>
      match takeN (decUInt e w) r with
      | some (s, r1) =>
        match r1 with
        | 0 :: r2 => if strOk s then some (.str s, r2, off + 1 + s.length + 1) else none
        | _ => none
      | none => none
    | none => none

/-- The elements of an array: decode aligned elements until the offset `stop` is reached exactly.
`fuel` bounds the number of elements (every element must occupy at least one byte, so the byte length
of the array data suffices). -/
def decodeElems (dec : Dec) (a : Nat) : Nat → Bytes → Nat → Nat → Option (List Val × Bytes × Nat)
  | fuel, bs, off, stop =>
    if off = stop then some ([], bs, off)
    else if stop < off then none
    else
      match fuel with
      | 0 => none
      | fuel + 1 =>
        match skipPad a bs off with
        | some (bs1, off1) =>
          match dec bs1 off1 with
          | some (v, bs2, off2) =>
            if off2 ≤ off then none
            else
              match decodeElems dec a fuel bs2 off2 stop with
              | some (vs, bs3, off3) => some (v :: vs, bs3, off3)
              | none => none
          | none => none
        | none => none

mutual
/-- Decoder for type `t`, given the decoder `vdec` for the content of variants. -/
def decodeWith (A : AlignTable) (e : Endian) (vdec : Ty → Dec) : Ty → Dec
  | .basic c => decBasic e c
  | .variant => fun bs off =>
    match decBasic e .g bs off with
    | some (.str sg, bs1, off1) =>
      match parseSingle (bytesToChars sg) with
      | some t =>
        if variantTypeOk t then
          match skipPad (A t.code) bs1 off1 with
          | some (bs2, off2) =>
            match vdec t bs2 off2 with
            | some (v, bs3, off3) => some (.variant t v, bs3, off3)
            | none => none
          | none => none
        else none
      | none => none
    | _ => none
  | .array el => fun bs off =>
    match takeN 4 bs with
    | some (w, bs1) =>
      let n := decUInt e w
      if n ≤ maxArray then
        match skipPad (A el.code) bs1 (off + 4) with
        | some (bs2, off2) =>
          match decodeElems (decodeWith A e vdec el) (A el.code) n bs2 off2 (off2 + n) with
          | some (vs, bs3, off3) => some (.array vs, bs3, off3)
          | none => none
        | none => none
      else none
    | none => none
  | .struct fs => fun bs off =>
    match decodeFieldsWith A e vdec fs bs off with
    | some (vs, bs1, off1) => some (.struct vs, bs1, off1)
    | none => none
  | .dict kt vt => fun bs off =>
    match skipPad (A kt.code) bs off with
    | some (bs1, off1) =>
      match decodeWith A e vdec kt bs1 off1 with
      | some (k, bs2, off2) =>
        match skipPad (A vt.code) bs2 off2 with
        | some (bs3, off3) =>
          match decodeWith A e vdec vt bs3 off3 with
          | some (v, bs4, off4) => some (.entry k v, bs4, off4)
          | none => none
        | none => none
      | none => none
    | none => none
/-- Decoder for a sequence of aligned values of the given types. -/
def decodeFieldsWith (A : AlignTable) (e : Endian) (vdec : Ty → Dec) :
    List Ty → Bytes → Nat → Option (List Val × Bytes × Nat)
  | [] => fun bs off => some ([], bs, off)
  | t :: ts => fun bs off =>
    match skipPad (A t.code) bs off with
    | some (bs1, off1) =>
      match decodeWith A e vdec t bs1 off1 with
      | some (v, bs2, off2) =>
        match decodeFieldsWith A e vdec ts bs2 off2 with
        | some (vs, bs3, off3) => some (v :: vs, bs3, off3)
        | none => none
      | none => none
    | none => none
end

/-- The decoder for the content of a variant when `depth` further levels of variants are allowed. -/
def variantDec (A : AlignTable) (e : Endian) : Nat → Ty → Dec
  | 0 => fun _ _ _ => none
  | depth + 1 => decodeWith A e (variantDec A e depth)

/-- Decoder for one value of type `t` containing variants nested at most `depth` deep. -/
def decodeTy (A : AlignTable) (e : Endian) (depth : Nat) : Ty → Dec :=
  decodeWith A e (variantDec A e depth)

/-! ### Top level: a list of types (a signature), values placed at `off` in a byte string -/

/-- Encode the values `vs` of types `ts` starting at offset `off` (padding before the first value
included, as a message body or a struct's content would have it). -/
def encodeAll (A : AlignTable) (e : Endian) (ts : List Ty) (vs : List Val) (off : Nat) : Option Bytes :=
  encodeFields A e ts vs off

/-- Decode values of types `ts` from `data` starting at offset `off`; returns the values and the
number of bytes consumed.  `depth`: how deeply variants may nest (a variant nest of depth `d` occupies
more than `d` bytes, so `data.length` is always enough: see `decode`). -/
def decodeAll (A : AlignTable) (e : Endian) (depth : Nat) (ts : List Ty) (data : Bytes) (off : Nat) :
    Option (List Val × Nat) :=
  if off ≤ data.length then
    match decodeFieldsWith A e (variantDec A e depth) ts (data.drop off) off with
    | some (vs, _, off') => some (vs, off' - off)
    | none => none
  else none

/-- The decoder without a depth parameter. -/
def decode (A : AlignTable) (e : Endian) (ts : List Ty) (data : Bytes) (off : Nat) :
    Option (List Val × Nat) :=
  decodeAll A e data.length ts data off

end Spec
end Txdbus
