import TxdbusModel.Wire.Prim
import TxdbusModel.Wire.Utf8
import TxdbusModel.Wire.PyVal
import TxdbusModel.Wire.Infer
import TxdbusModel.Sig.Split
import TxdbusModel.Valid.Names
import TxdbusModel.Gen.Wire
/-
CODE MODEL of the wire codec of txdbus/marshal.py (after repairs 6ba9f66, 635620f and bf83351):
`marshal()` / `unmarshal()` and the per-type functions of the two dispatch tables, on signatures as
strings (`List Char`) and Python values (`PyVal`), as the code is written:

* `pad[tcode](x)`      : `padLenOf` - alignment from the generated table; a type code that is not a key is a
                         KeyError; a pad that `padding` does not list is a KeyError;
* `struct.pack` / `struct.unpack_from` : `pack` / `unpackFrom` on the generated format strings (range and type
                         errors are `struct.error`; reading past the end of the data is `struct.error`);
* `marshal()`          : `marshalTop` - `dbusOrder` objects are replaced by their field list, then (repair bf83351) one
                         value is pulled per complete type of the LAZY splitter: too few or too many values are a
                         MarshallingError (also inside structs / dict entries, which recurse through `marshal()`);
                         an exception of the splitter only surfaces if the loop gets that far;
* dispatch on `ct[0]`  : through the generated tables `marshallers` / `unmarshallers` (code ↦ function);
* arrays               : length word counts per-element padding but not the padding after the length word;
                         list / tuple / bytearray / dict (items as tuples) accepted;
* struct / dict entry  : `marshal(ct[1:-1], var, ...)`;
* variant              : signature from `sigFromPy`, `marshal(vsig, [var], start_byte, lendian)` - WITHOUT the
                         descriptor list; decoding returns `value[0]`;
* `unmarshal_array`    : `while offset < end_offset`, zero-length element check, `offset == end_offset`
                         check, dict built by `d[item[0]] = item[1]` (Python key equality, unhashable keys);
* strings              : `data[a:b]` clamps; the terminating NUL is not looked at; UTF-8 / ASCII strict;
* `oobFDs`             : `marshal_unix_fd` appends to the caller's list and writes the index (`len(None)` is
                         a TypeError); `unmarshal_unix_fd` indexes the list (`IndexError` gives `None`).

Recursion: signatures come from data (variants), so the per-type functions take a step budget `fuel`,
decremented at every per-type call; running out is `RecursionError` (what Python reports for an
object whose `dbusSignature` is 'v').  Core Lean only.
-/
namespace Txdbus
namespace Code
open Gen.Wire (Fn)

/-- The out-of-band descriptor list argument `oobFDs` (`none`: Python `None`). -/
abbrev Fds := Option (List PyVal)

/-! ### Python primitives -/

/-- `pad[tcode](x)`: how many NUL bytes.  `genpad(align)`: `padding[x % align and (align - x % align) or 0]`. -/
def padLenOf (tcode : Char) (x : Nat) : Except PyErr Nat :=
  match Gen.Wire.alignTable.lookup tcode with
  | none => .error .key
  | some a =>
    if a = 0 then .error .other            -- ZeroDivisionError
    else
      let n := if x % a = 0 then 0 else a - x % a
      if n ≤ Gen.Wire.maxPad then .ok n else .error .key

/-- Layout selected by a `struct` format letter. -/
inductive FmtKind where
  | uint (k : Nat) | sint (k : Nat) | double
  deriving DecidableEq, Repr

def fmtKind? (letter : Char) : Option FmtKind :=
  if letter = 'B' then some (.uint 1) else if letter = 'H' then some (.uint 2)
  else if letter = 'I' then some (.uint 4) else if letter = 'Q' then some (.uint 8)
  else if letter = 'h' then some (.sint 2) else if letter = 'i' then some (.sint 4)
  else if letter = 'q' then some (.sint 8) else if letter = 'd' then some .double
  else none

def fmtEndian? (mark : Char) : Option Endian :=
  if mark = '<' then some .little else if mark = '>' then some .big else if mark = '!' then some .big else none

def FmtKind.size : FmtKind → Nat
  | .uint k => k | .sint k => k | .double => 8

/-- `float(n)` for a Python int: round to nearest, ties to even; `none` = OverflowError. -/
def intToDouble (n : Int) : Option UInt64 :=
  let m := n.natAbs
  if m = 0 then some 0 else
  let sign : Nat := if n < 0 then 1 else 0
  let k := Nat.log2 m + 1                 -- bit length
  let (q, ex) :=
    if k ≤ 53 then (m * 2 ^ (53 - k), k - 1)
    else
      let sh := k - 53
      let q := m / 2 ^ sh
      let r := m % 2 ^ sh
      let half := 2 ^ (sh - 1)
      let q' := if r > half ∨ (r = half ∧ q % 2 = 1) then q + 1 else q
      if q' = 2 ^ 53 then (2 ^ 52, k) else (q', k - 1)
  if ex > 1023 then none
  else some (UInt64.ofNat (sign * 2 ^ 63 + (ex + 1023) * 2 ^ 52 + (q - 2 ^ 52)))

/-- `struct.pack(fmt, v)` for the two-character formats of marshal.py. -/
def pack (fmt : Char × Char) (v : PyVal) : Except PyErr Bytes :=
  match fmtEndian? fmt.1, fmtKind? fmt.2 with
  | some e, some (.uint k) =>
    match v.asInt? with
    | some n => if 0 ≤ n ∧ n < (256 ^ k : Nat) then .ok (encUInt e k n.toNat) else .error .struct
    | none => .error .struct
  | some e, some (.sint k) =>
    match v.asInt? with
    | some n =>
      if -((256 ^ k / 2 : Nat) : Int) ≤ n ∧ n < ((256 ^ k / 2 : Nat) : Int) then .ok (encSInt e k n)
      else .error .struct
    | none => .error .struct
  | some e, some .double =>
    match v with
    | .float bits => .ok (encUInt e 8 bits.toNat)
    | _ =>
      match v.asInt? with
      | some n =>
        match intToDouble n with
        | some bits => .ok (encUInt e 8 bits.toNat)
        | none => .error .other              -- OverflowError
      | none => .error .struct
  | _, _ => .error .other                    -- a format outside the modelled ones

/-- `data[a:b]` -/
def pySlice (data : Bytes) (a b : Nat) : Bytes := (data.take b).drop a

/-- `struct.unpack_from(fmt, data, offset)[0]`. -/
def unpackFrom (fmt : Char × Char) (data : Bytes) (offset : Nat) : Except PyErr PyVal :=
  match fmtEndian? fmt.1, fmtKind? fmt.2 with
  | some e, some kind =>
    if offset + kind.size ≤ data.length then
      let w := pySlice data offset (offset + kind.size)
      match kind with
      | .uint _ => .ok (.int .plain (decUInt e w))
      | .sint _ => .ok (.int .plain (decSInt e w))
      | .double => .ok (.float (UInt64.ofNat (decUInt e w)))
    else .error .struct
  | _, _ => .error .other

/-- The `n`-th `lendian and L or B` format of function `f`, selected by `lendian`. -/
def fmtOf (f : Fn) (n : Nat) (lendian : Bool) : Except PyErr (Char × Char) :=
  match Gen.Wire.formats.lookup f with
  | some l =>
    match l[n]? with
    | some (le, be) => .ok (if lendian then le else be)
    | none => .error .other
  | none => .error .other

def sizeOf (f : Fn) : Except PyErr Nat :=
  match Gen.Wire.fixedSize.lookup f with
  | some n => .ok n
  | none => .error .other

/-- The framing overhead of a variable-size function: the integer constants of the byte count it returns
(`4 + len(var) + 1`, `2 + len(var)`, `4 + len(initial_padding) + data_len`, `1 + slen + 1`), generated. -/
def frameOf (f : Fn) : Except PyErr Nat :=
  match Gen.Wire.frameConst.lookup f with
  | some n => .ok n
  | none => .error .other

/-- Truth value of a Python object (`if var`).  The `other` objects are the instances the harness
builds (valcodec.py): 0 `b''`, 1 `object()`, 2 `frozenset()`, 3 `1j`, 4 `range(0)`, ≥ 5 plain instances. -/
def truthy : PyVal → Bool
  | .none => false
  | .bool b => b
  | .int _ n => n ≠ 0
  | .float bits => !(bits == 0 || bits == 0x8000000000000000)
  | .str _ s => !s.isEmpty
  | .bytearray bs => !bs.isEmpty
  | .list xs => !xs.isEmpty
  | .tuple xs => !xs.isEmpty
  | .dict kvs => !kvs.isEmpty
  | .obj _ _ _ => true
  | .other c => !(c == 0 || c == 2 || c == 4)

/-- `iter(v)` run to the end (what `zip(..., v)` / `for item in v` consume). -/
def pyIter : PyVal → Except PyErr (List PyVal)
  | .list xs => .ok xs
  | .tuple xs => .ok xs
  | .dict kvs => .ok (kvs.map (·.1))
  | .str _ s => .ok (s.map fun c => .str .plain [c])
  | .bytearray bs => .ok (bs.map fun b => .int .plain b.toNat)
  | .other c => if c == 0 || c == 2 || c == 4 then .ok [] else .error .type
  | _ => .error .type

def splitErr : SplitErr → PyErr
  | .typeError => .type
  | .stopIteration => .runtime

/-- `validateObjectPath(var)` on an arbitrary object: `p.startswith('/')` needs a `str`. -/
def validateObjectPathPy : PyVal → Except PyErr Unit
  | .str _ s =>
    match Valid.validateObjectPath s with
    | .accept => .ok ()
    | .raised _ => .error .marshalling
  | .bytearray _ => .error .type        -- bytearray.startswith('/'): a bytes-like object is required
  | .other 0 => .error .type            -- bytes.startswith('/')
  | _ => .error .attribute

/-! ### marshalling -/

/-- Result of a per-type marshaller: `(nbytes, chunks)` and the descriptor list after the call. -/
abbrev MRes := Except PyErr (Nat × Bytes × Fds)

/-- The loop of `marshal()` (after repair bf83351): `for ct in genCompleteTypes(sig)` pulls one value per
complete type with `next(variables, exhausted)` - no value left is `MarshallingError` ("Too few values"); when
the types are exhausted a value that is left is `MarshallingError` ("Too many values").  The splitter is still
lazy: its exception surfaces only if the loop gets that far (and before the "too many" test).
`one ct var start fds` is `marshallers[ct[0]](ct, var, start, lendian, oobFDs)` including the KeyError of an
unknown code.  Returns the final `startByte`. -/
def marshalSeq (one : List Char → PyVal → Nat → Fds → MRes) :
    List (List Char) → Option SplitErr → List PyVal → Nat → Fds → Except PyErr (Nat × Bytes × Fds)
  | [], perr, vals, start, fds =>
    match perr with
    | some e => .error (splitErr e)
    | none =>
      match vals with
      | [] => .ok (start, [], fds)
      | _ :: _ => .error .marshalling          -- too many values
  | _ :: _, _, [], _, _ => .error .marshalling   -- too few values
  | ct :: pieces, perr, v :: vs, start, fds =>
    match ct.head? with
    | none => .error .index
    | some tcode =>
      match padLenOf tcode start with
      | .error e => .error e
      | .ok p =>
        match one ct v (start + p) fds with
        | .error e => .error e
        | .ok (n, bs, fds1) =>
          match marshalSeq one pieces perr vs (start + p + n) fds1 with
          | .error e => .error e
          | .ok (stop, rest, fds2) => .ok (stop, zeros p ++ bs ++ rest, fds2)

/-- The values `marshal()` iterates over: the attributes named by `dbusOrder` if the object has one
(`hasattr(variableList, 'dbusOrder')`), else `iter(variableList)` (called by `zip`). -/
def topItems : PyVal → Except PyErr (List PyVal)
  | .obj _ _ fields => .ok fields
  | v => pyIter v

/-- `marshal(compoundSignature, variableList, startByte, lendian, oobFDs)`. -/
def marshalTop (one : List Char → PyVal → Nat → Fds → MRes)
    (sig : List Char) (vals : PyVal) (start : Nat) (fds : Fds) : MRes :=
  match topItems vals with
  | .error e => .error e
  | .ok items =>
    let lp := lazyPieces sig
    match marshalSeq one lp.1 lp.2 items start fds with
    | .error e => .error e
    | .ok (stop, bs, fds') => .ok (stop - start, bs, fds')

/-- The element loop of `marshal_array`; returns `(start_byte, data_len, chunks, fds)`. -/
def marshalElems (elem : PyVal → Nat → Fds → MRes) (tcode : Char) :
    List PyVal → Nat → Nat → Fds → Except PyErr (Nat × Nat × Bytes × Fds)
  | [], start, dataLen, fds => .ok (start, dataLen, [], fds)
  | item :: items, start, dataLen, fds =>
    match padLenOf tcode start with
    | .error e => .error e
    | .ok p =>
      match elem item (start + p) fds with
      | .error e => .error e
      | .ok (n, bs, fds1) =>
        match marshalElems elem tcode items (start + p + n) (dataLen + p + n) fds1 with
        | .error e => .error e
        | .ok (stop, dl, rest, fds2) => .ok (stop, dl, zeros p ++ bs ++ rest, fds2)

/-- `arr_list` of `marshal_array`. -/
def arrayItems : PyVal → Except PyErr (List PyVal)
  | .list xs => .ok xs
  | .tuple xs => .ok xs
  | .bytearray bs => .ok (bs.map fun b => .int .plain b.toNat)
  | .dict kvs => .ok (kvs.map fun kv => .tuple [kv.1, kv.2])
  | _ => .error .marshalling

/-- The fixed-size marshallers: `return N, [struct.pack(lendian and L or B, arg)]`. -/
def mFixed (lendian : Bool) (f : Fn) (arg : PyVal) (fds : Fds) : MRes :=
  match sizeOf f, fmtOf f 0 lendian with
  | .ok n, .ok fmt =>
    match pack fmt arg with
    | .ok bs => .ok (n, bs, fds)
    | .error e => .error e
  | .error e, _ => .error e
  | _, .error e => .error e

/-- `marshal_string`. -/
def mString (lendian : Bool) (var : PyVal) (fds : Fds) : MRes :=
  match var with
  | .str _ s =>
    if s.contains (Char.ofNat 0) then .error .marshalling
    else
      let b := utf8Encode s
      match fmtOf .marshal_string 0 lendian with
      | .error e => .error e
      | .ok fmt =>
        match pack fmt (.int .plain b.length), frameOf .marshal_string with
        | .ok lenb, .ok fr => .ok (fr + b.length, lenb ++ b ++ [0], fds)
        | .error e, _ => .error e
        | _, .error e => .error e
  | _ => .error .marshalling

/-- `marshal_signature` on a `str`. -/
def mSignature (lendian : Bool) (s : List Char) (fds : Fds) : MRes :=
  match asciiEncode s with
  | none => .error .unicode
  | some b =>
    match fmtOf .marshal_signature 0 lendian with
    | .error e => .error e
    | .ok fmt =>
      match pack fmt (.int .plain b.length), frameOf .marshal_signature with
      | .ok lenb, .ok fr => .ok (fr + b.length, lenb ++ b ++ [0], fds)
      | .error e, _ => .error e
      | _, .error e => .error e

/-- `marshallers[ct[0]](ct, var, start_byte, lendian, oobFDs)`. -/
def marshalOne (lendian : Bool) : Nat → List Char → PyVal → Nat → Fds → MRes
  | 0, _, _, _, _ => .error .recursion
  | fuel + 1, ct, var, start, fds =>
    match ct.head? with
    | none => .error .index
    | some tcode =>
      match Gen.Wire.marshallers.lookup tcode with
      | none => .error .key
      | some f =>
        match f with
        | .marshal_byte | .marshal_int16 | .marshal_uint16 | .marshal_int32 | .marshal_uint32
        | .marshal_int64 | .marshal_uint64 | .marshal_double => mFixed lendian f var fds
        | .marshal_boolean => mFixed lendian f (.int .plain (if truthy var then 1 else 0)) fds
        | .marshal_unix_fd =>
          match fds with
          | none => .error .type                    -- len(None)
          | some l => mFixed lendian f (.int .plain l.length) (some (l ++ [var]))
        | .marshal_string => mString lendian var fds
        | .marshal_object_path =>
          match validateObjectPathPy var with
          | .error e => .error e
          | .ok () => mString lendian var fds
        | .marshal_signature =>
          match var with
          | .str _ s => mSignature lendian s fds
          | _ => .error .type
        | .marshal_array =>
          let tsig := ct.tail
          match tsig.head? with
          | none => .error .index
          | some ec =>
            match padLenOf ec (start + 4) with
            | .error e => .error e
            | .ok p0 =>
              match arrayItems var with
              | .error e => .error e
              | .ok items =>
                match marshalElems (marshalOne lendian fuel tsig) ec items (start + 4 + p0) 0 fds with
                | .error e => .error e
                | .ok (_, dataLen, body, fds') =>
                  match fmtOf .marshal_array 0 lendian with
                  | .error e => .error e
                  | .ok fmt =>
                    match pack fmt (.int .plain dataLen), frameOf .marshal_array with
                    | .ok lenb, .ok fr => .ok (fr + p0 + dataLen, lenb ++ zeros p0 ++ body, fds')
                    | .error e, _ => .error e
                    | _, .error e => .error e
        | .marshal_struct =>
          marshalTop (marshalOne lendian fuel) (ct.tail.dropLast) var start fds
        | .marshal_variant =>
          match sigFromPy var with
          | .error e => .error e
          | .ok vsig =>
            match mSignature lendian vsig fds with
            | .error e => .error e
            | .ok (n, sg, _) =>
              match vsig.head? with
              | none => .error .index
              | some vc =>
                match padLenOf vc (start + n) with
                | .error e => .error e
                | .ok p =>
                  match marshalTop (marshalOne lendian fuel) vsig (.list [var]) (start + n + p) none with
                  | .error e => .error e
                  | .ok (rn, body, _) => .ok (n + p + rn, sg ++ zeros p ++ body, fds)
        | _ => .error .other     -- an unmarshal function in the marshallers table

/-- `marshal(sig, values, startByte, lendian, oobFDs)` with a step budget for the per-type calls. -/
def marshal (fuel : Nat) (sig : List Char) (vals : PyVal) (start : Nat) (lendian : Bool) (fds : Fds) : MRes :=
  marshalTop (marshalOne lendian fuel) sig vals start fds

/-! ### unmarshalling -/

/-- Result of a per-type unmarshaller: `(nbytes, value)`. -/
abbrev URes := Except PyErr (Nat × PyVal)

/-- Exact integer value of a finite double with an integral value (for `1 == 1.0` as dict keys). -/
def doubleToInt? (bits : UInt64) : Option Int :=
  let n := bits.toNat
  let sign := n / 2 ^ 63
  let ex := n / 2 ^ 52 % 2048
  let frac := n % 2 ^ 52
  if ex = 2047 then none                       -- inf / nan
  else if ex = 0 then (if frac = 0 then some 0 else none)     -- ±0, subnormals
  else
    let m := 2 ^ 52 + frac                     -- value = m * 2^(ex - 1075)
    let v : Option Nat :=
      if ex ≥ 1075 then some (m * 2 ^ (ex - 1075))
      else if m % 2 ^ (1075 - ex) = 0 then some (m / 2 ^ (1075 - ex)) else none
    v.map fun v => if sign = 1 then -(v : Int) else (v : Int)

def isNaN (bits : UInt64) : Bool :=
  let n := bits.toNat
  n / 2 ^ 52 % 2048 == 2047 && n % 2 ^ 52 != 0

/-- Can the value be a dict key, and if so a canonical form under Python's `==` / `hash`
(`True == 1 == 1.0`, `0.0 == -0.0`, str subclasses compare as str).  `none`: unhashable (TypeError).
A NaN is equal to nothing (each decoded NaN is a fresh object): `some none`. -/
inductive KeyForm where
  | none | int (n : Int) | float (bits : UInt64) | str (s : List Char) | nan | other (c : Nat)
  deriving DecidableEq, Repr

def keyForm? : PyVal → Option KeyForm
  | .none => some .none
  | .bool b => some (.int (if b then 1 else 0))
  | .int _ n => some (.int n)
  | .float bits =>
    if isNaN bits then some .nan
    else match doubleToInt? bits with
      | some n => some (.int n)
      | none => some (.float bits)
  | .str _ s => some (.str s)
  | .other c => some (.other c)
  | .obj _ _ _ => some (.other 0)   -- never produced by unmarshal
  | .tuple _ => some (.other 0)     -- never produced by unmarshal
  | _ => Option.none                -- list, dict, bytearray: unhashable

def keysEqual (a b : KeyForm) : Bool :=
  match a, b with
  | .nan, _ => false
  | _, .nan => false
  | a, b => a == b

/-- `d[k] = v`: overwrite in place (the first key object and its position stay), else append. -/
def dictSet (kf : KeyForm) (k v : PyVal) : List (KeyForm × PyVal × PyVal) → List (KeyForm × PyVal × PyVal)
  | [] => [(kf, k, v)]
  | (kf', k', v') :: rest =>
    if keysEqual kf' kf then (kf', k', v) :: rest else (kf', k', v') :: dictSet kf k v rest

/-- `d = {}; for item in values: d[item[0]] = item[1]`. -/
def buildDict : List PyVal → List (KeyForm × PyVal × PyVal) → Except PyErr (List (KeyForm × PyVal × PyVal))
  | [], acc => .ok acc
  | item :: items, acc =>
    match item with
    | .list (k :: v :: _) =>
      match keyForm? k with
      | some kf => buildDict items (dictSet kf k v acc)
      | Option.none => .error .type
    | .list _ => .error .index
    | _ => .error .type

/-- The loop of `unmarshal()` over `genCompleteTypes(sig)`; returns the final offset and the values. -/
def unmarshalSeq (one : List Char → Nat → URes) :
    List (List Char) → Option SplitErr → Nat → Except PyErr (Nat × List PyVal)
  | [], perr, offset =>
    match perr with
    | some e => .error (splitErr e)
    | none => .ok (offset, [])
  | ct :: pieces, perr, offset =>
    match ct.head? with
    | none => .error .index
    | some tcode =>
      match padLenOf tcode offset with
      | .error e => .error e
      | .ok p =>
        match one ct (offset + p) with
        | .error e => .error e
        | .ok (n, v) =>
          match unmarshalSeq one pieces perr (offset + p + n) with
          | .error e => .error e
          | .ok (stop, vs) => .ok (stop, v :: vs)

/-- `unmarshal(compoundSignature, data, offset, lendian, oobFDs)`. -/
def unmarshalTop (one : List Char → Nat → URes) (sig : List Char) (offset : Nat) :
    Except PyErr (Nat × List PyVal) :=
  let lp := lazyPieces sig
  match unmarshalSeq one lp.1 lp.2 offset with
  | .error e => .error e
  | .ok (stop, vs) => .ok (stop - offset, vs)

/-- The `while offset < end_offset` loop of `unmarshal_array`; `n` bounds the number of iterations
(every iteration advances the offset by at least one byte, or raises). -/
def unmarshalElems (elem : Nat → URes) (tcode : Char) (stop : Nat) :
    Nat → Nat → Except PyErr (Nat × List PyVal)
  | n, offset =>
    if offset < stop then
      match n with
      | 0 => .error .recursion     -- unreachable when n ≥ stop - offset
      | n + 1 =>
        match padLenOf tcode offset with
        | .error e => .error e
        | .ok p =>
          match elem (offset + p) with
          | .error e => .error e
          | .ok (nbytes, v) =>
            if nbytes = 0 then .error .marshalling
            else
              match unmarshalElems elem tcode stop n (offset + p + nbytes) with
              | .error e => .error e
              | .ok (off', vs) => .ok (off', v :: vs)
    else .ok (offset, [])

/-- The fixed-size unmarshallers: `return N, struct.unpack_from(lendian and L or B, data, offset)[0]`. -/
def uFixed (lendian : Bool) (data : Bytes) (f : Fn) (offset : Nat) : URes :=
  match sizeOf f, fmtOf f 0 lendian with
  | .ok n, .ok fmt =>
    match unpackFrom fmt data offset with
    | .ok v => .ok (n, v)
    | .error e => .error e
  | .error e, _ => .error e
  | _, .error e => .error e

/-- A length / index word read with the first format of function `f`. -/
def uLenWord (lendian : Bool) (data : Bytes) (f : Fn) (offset : Nat) : Except PyErr Nat :=
  match fmtOf f 0 lendian with
  | .error e => .error e
  | .ok fmt =>
    match unpackFrom fmt data offset with
    | .ok (.int _ n) => .ok n.toNat
    | .ok _ => .error .other
    | .error e => .error e

/-- `unmarshal_signature`: `(nbytes, str)`. -/
def uSignature (lendian : Bool) (data : Bytes) (offset : Nat) : Except PyErr (Nat × List Char) :=
  match uLenWord lendian data .unmarshal_signature offset with
  | .error e => .error e
  | .ok slen =>
    match asciiDecode (pySlice data (offset + 1) (offset + 1 + slen)), frameOf .unmarshal_signature with
    | some s, .ok fr => .ok (fr + slen, s)
    | none, _ => .error .unicode
    | _, .error e => .error e

/-- `unmarshallers[ct[0]](ct, data, offset, lendian, oobFDs)`. -/
def unmarshalOne (lendian : Bool) (data : Bytes) (fds : Fds) : Nat → List Char → Nat → URes
  | 0, _, _ => .error .recursion
  | fuel + 1, ct, offset =>
    match ct.head? with
    | none => .error .index
    | some tcode =>
      match Gen.Wire.unmarshallers.lookup tcode with
      | none => .error .key
      | some f =>
        match f with
        | .unmarshal_byte | .unmarshal_int16 | .unmarshal_uint16 | .unmarshal_int32 | .unmarshal_uint32
        | .unmarshal_int64 | .unmarshal_uint64 | .unmarshal_double => uFixed lendian data f offset
        | .unmarshal_boolean =>
          match uFixed lendian data f offset with
          | .ok (n, .int _ v) => .ok (n, .bool (v ≠ 0))
          | .ok _ => .error .other
          | .error e => .error e
        | .unmarshal_unix_fd =>
          match sizeOf f, uLenWord lendian data f offset with
          | .ok n, .ok index =>
            match fds with
            | none => .error .type                  -- None[index]
            | some l => .ok (n, (l[index]?).getD .none)
          | .error e, _ => .error e
          | _, .error e => .error e
        | .unmarshal_string =>
          match uLenWord lendian data f offset with
          | .error e => .error e
          | .ok slen =>
            match utf8Decode (pySlice data (offset + 4) (offset + 4 + slen)), frameOf f with
            | some s, .ok fr => .ok (fr + slen, .str .plain s)
            | none, _ => .error .unicode
            | _, .error e => .error e
        | .unmarshal_signature =>
          match uSignature lendian data offset with
          | .error e => .error e
          | .ok (n, s) => .ok (n, .str .plain s)
        | .unmarshal_array =>
          match uLenWord lendian data f offset with
          | .error e => .error e
          | .ok dataLen =>
            let tsig := ct.tail
            match tsig.head? with
            | none => .error .index
            | some ec =>
              match padLenOf ec (offset + 4) with
              | .error e => .error e
              | .ok p0 =>
                let first := offset + 4 + p0
                let stop := first + dataLen
                match unmarshalElems (unmarshalOne lendian data fds fuel tsig) ec stop dataLen first with
                | .error e => .error e
                | .ok (off', values) =>
                  if off' ≠ stop then .error .marshalling
                  else if ec = '{' then
                    match buildDict values [] with
                    | .error e => .error e
                    | .ok d => .ok (off' - offset, .dict (d.map fun x => (x.2.1, x.2.2)))
                  else .ok (off' - offset, .list values)
        | .unmarshal_struct =>
          match unmarshalTop (unmarshalOne lendian data fds fuel) ct.tail.dropLast offset with
          | .error e => .error e
          | .ok (n, vs) => .ok (n, .list vs)
        | .unmarshal_variant =>
          match uSignature lendian data offset with
          | .error e => .error e
          | .ok (nsig, vsig) =>
            match vsig.head? with
            | none => .error .index
            | some vc =>
              match padLenOf vc (offset + nsig) with
              | .error e => .error e
              | .ok p =>
                match unmarshalTop (unmarshalOne lendian data fds fuel) vsig (offset + nsig + p) with
                | .error e => .error e
                | .ok (nvar, vs) =>
                  match vs with
                  | v :: _ => .ok (nsig + p + nvar, v)
                  | [] => .error .index
        | _ => .error .other     -- a marshal function in the unmarshallers table

/-- `unmarshal(sig, data, offset, lendian, oobFDs)` with a step budget for the per-type calls. -/
def unmarshal (fuel : Nat) (sig : List Char) (data : Bytes) (offset : Nat) (lendian : Bool) (fds : Fds) :
    Except PyErr (Nat × List PyVal) :=
  unmarshalTop (unmarshalOne lendian data fds fuel) sig offset

end Code
end Txdbus
