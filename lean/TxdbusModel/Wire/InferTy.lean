import TxdbusModel.Wire.PyVal
import TxdbusModel.Sig.Ty
import TxdbusModel.Sig.Parse
/-
Type-level restatement of variant type inference: the DBus *type* (a `Ty`, not a string) that a Python
value has under the documented rules (wrapper classes select their type; a plain int the smallest of
INT32 / INT64 / UINT64 holding it; containers are first-element based; a container whose elements do not
all have exactly the class of the first carries variants; no type for `()` or for a dict whose key type
is not basic).  It is written against `PyVal` only (it does not import the code model Wire/Infer.lean) but
it follows the same rules - it is NOT an independent specification of which type is "right"; what it adds
is that the result is a `Ty` (so a single complete type by construction), on which well-formedness and
conformance (Wire/Claim.lean) can be stated.  `Proofs/Wire/Infer.lean` shows that the code model
`sigFromPy` returns exactly the rendering of this type.  Core Lean only.
-/
namespace Txdbus

def intBasic (n : Int) : Basic :=
  if -2147483648 ≤ n ∧ n < 2147483648 then .i
  else if -9223372036854775808 ≤ n ∧ n < 9223372036854775808 then .x
  else .t

/-- The DBus type selected by an integer class (`none`: plain `int`, chosen by range). -/
def IntCls.basic? : IntCls → Option Basic
  | .plain => none
  | .byte => some .y | .boolean => some .b | .int16 => some .n | .uint16 => some .q
  | .int32 => some .i | .uint32 => some .u | .int64 => some .x | .uint64 => some .t

def StrCls.basic : StrCls → Basic
  | .plain => .s | .signature => .g | .objectPath => .o

/-- Every element has exactly the Python class `c` (subclass instances do not count). -/
def sameClass (c : PyClass) (xs : List PyVal) : Bool := xs.all (fun e => e.pyType == c)

def sameValueClass (c : PyClass) (kvs : List (PyVal × PyVal)) : Bool := kvs.all (fun kv => kv.2.pyType == c)

mutual
def inferTy : PyVal → Option Ty
  | .none => none
  | .bool _ => some (.basic .b)
  | .int cls n =>
    match cls.basic? with
    | some c => some (.basic c)
    | none => some (.basic (intBasic n))
  | .float _ => some (.basic .d)
  | .str cls _ => some (.basic cls.basic)
  | .bytearray _ => some (.array (.basic .y))
  | .list [] => some (.array .variant)
  | .list (x :: xs) =>
    if sameClass x.pyType xs then
      match inferTy x with
      | some t => some (.array t)
      | none => none
    else some (.array .variant)
  | .tuple [] => none                       -- DBus has no empty struct
  | .tuple (x :: xs) =>
    match inferTys (x :: xs) with
    | some ts => some (.struct ts)
    | none => none
  | .dict [] => some (.array (.dict (.basic .s) .variant))
  | .dict ((k, v) :: rest) =>
    match inferLastKey ((k, v) :: rest) with
    | some (.basic kc) =>                    -- a dict entry key is a basic type
      if sameValueClass v.pyType rest then
        match inferTy v with
        | some vt => some (.array (.dict (.basic kc) vt))
        | none => none
      else some (.array (.dict (.basic kc) .variant))
    | _ => none
  | .obj _ _ _ => none
  | .other _ => none
def inferTys : List PyVal → Option (List Ty)
  | [] => some []
  | x :: xs =>
    match inferTy x with
    | none => none
    | some t =>
      match inferTys xs with
      | none => none
      | some ts => some (t :: ts)
def inferLastKey : List (PyVal × PyVal) → Option Ty
  | [] => none
  | [(k, _)] => inferTy k
  | _ :: p :: rest => inferLastKey (p :: rest)
end

mutual
/-- No object carrying its own `dbusSignature` attribute occurs in the value (the property speaks
about values built from the builtin classes and the wrapper classes). -/
def PyVal.noCustomSig : PyVal → Bool
  | .obj _ (some _) _ => false
  | .obj _ Option.none fs => noCustomSigs fs
  | .list xs => noCustomSigs xs
  | .tuple xs => noCustomSigs xs
  | .dict kvs => noCustomSigPairs kvs
  | _ => true
def noCustomSigs : List PyVal → Bool
  | [] => true
  | x :: xs => x.noCustomSig && noCustomSigs xs
def noCustomSigPairs : List (PyVal × PyVal) → Bool
  | [] => true
  | (k, v) :: rest => k.noCustomSig && v.noCustomSig && noCustomSigPairs rest
end

mutual
/-- Built from bool, int, float, str, bytearray, the wrapper classes, lists, tuples and dicts only. -/
def PyVal.builtinOnly : PyVal → Bool
  | .none => false
  | .obj _ _ _ => false
  | .other _ => false
  | .list xs => builtinOnlys xs
  | .tuple xs => builtinOnlys xs
  | .dict kvs => builtinOnlyPairs kvs
  | _ => true
def builtinOnlys : List PyVal → Bool
  | [] => true
  | x :: xs => x.builtinOnly && builtinOnlys xs
def builtinOnlyPairs : List (PyVal × PyVal) → Bool
  | [] => true
  | (k, v) :: rest => k.builtinOnly && v.builtinOnly && builtinOnlyPairs rest
end

/-- Not a bare dict entry. -/
def Ty.notEntry : Ty → Bool
  | .dict _ _ => false
  | _ => true

end Txdbus
