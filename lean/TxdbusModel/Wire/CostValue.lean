import TxdbusModel.Wire.PyVal
/-
Size of a decoded Python value (extension of property C05 to the value model of C01 / C02): the number of Python
objects in it.  `Properties/C05.lean: code_result_bounded` bounds it, for every value `Code.unmarshal` returns, by the
number of unmarshaller invocations of the cost model and hence linearly by the data length.
The harness counts the same on the value the real decoder returns (`nodes` in harness/c05.py; the driver's `x` command
prints `1 + nodesList vs`, the `1` being the list `unmarshal` returns).  Core Lean only.
-/
namespace Txdbus

mutual
/-- the number of objects in a value: the object itself and, for containers, everything inside
(dict: keys and values). -/
def PyVal.nodes : PyVal → Nat
  | .list xs => 1 + nodesList xs
  | .tuple xs => 1 + nodesList xs
  | .dict kvs => 1 + nodesPairs kvs
  | .obj _ _ fs => 1 + nodesList fs
  | .none => 1
  | .bool _ => 1
  | .int _ _ => 1
  | .float _ => 1
  | .str _ _ => 1
  | .bytearray _ => 1
  | .other _ => 1
def nodesList : List PyVal → Nat
  | [] => 0
  | x :: xs => x.nodes + nodesList xs
def nodesPairs : List (PyVal × PyVal) → Nat
  | [] => 0
  | (k, v) :: rest => k.nodes + v.nodes + nodesPairs rest
end

end Txdbus

namespace Txdbus.CostValue

/-- What a descriptor handed to the decoder (`oobFDs[i]`) has to be for the composition theorems of C05: not a container
- `None`, `bool`, `int`, `float`, `str`, an opaque object (ints in txdbus).  (Not `Txdbus.PyVal.isScalar` of
`Wire/Claim.lean`, which is C19's "bool / int / float / str".) -/
def isFdScalar : PyVal → Bool
  | .list _ => false
  | .tuple _ => false
  | .dict _ => false
  | .obj _ _ _ => false
  | .bytearray _ => false
  | _ => true

end Txdbus.CostValue
