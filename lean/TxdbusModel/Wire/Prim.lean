/-
Byte-level primitives of the DBus wire format: fixed-width unsigned / two's-complement integers in
either byte order, and the padding arithmetic.  Written from the DBus specification ("Marshaling
(Wire Format)": "Byte order and alignment"); shared by the wire spec (Wire/Spec) and by the code
model (Wire/Code, where they are the model of `struct.pack` / `struct.unpack_from`).
Core Lean only.
-/
namespace Txdbus

abbrev Bytes := List UInt8

inductive Endian where
  | little | big
  deriving DecidableEq, Repr, Inhabited

/-- The `k` low-order base-256 digits of `n`, least significant first. -/
def leBytes : Nat → Nat → Bytes
  | 0, _ => []
  | k + 1, n => UInt8.ofNat (n % 256) :: leBytes k (n / 256)

/-- The number denoted by base-256 digits, least significant first. -/
def leVal : Bytes → Nat
  | [] => 0
  | b :: bs => b.toNat + 256 * leVal bs

/-- A `k`-byte unsigned integer (`n < 256^k` is the caller's obligation; larger `n` is truncated). -/
def encUInt (e : Endian) (k n : Nat) : Bytes :=
  match e with
  | .little => leBytes k n
  | .big => (leBytes k n).reverse

def decUInt (e : Endian) (bs : Bytes) : Nat :=
  match e with
  | .little => leVal bs
  | .big => leVal bs.reverse

/-- A `k`-byte two's-complement integer (`-256^k/2 ≤ i < 256^k/2` is the caller's obligation). -/
def encSInt (e : Endian) (k : Nat) (i : Int) : Bytes :=
  encUInt e k (i % (256 ^ k : Nat)).toNat

def decSInt (e : Endian) (bs : Bytes) : Int :=
  let u := decUInt e bs
  if 2 * u < 256 ^ bs.length then (u : Int) else (u : Int) - (256 ^ bs.length : Nat)

/-- Number of padding bytes that bring offset `off` to the next multiple of `a`
(DBus: "values are aligned to a multiple of their alignment, counted from the start of the message"). -/
def padLen (a off : Nat) : Nat := (a - off % a) % a

def zeros (n : Nat) : Bytes := List.replicate n 0

end Txdbus
