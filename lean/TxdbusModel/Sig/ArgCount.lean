import TxdbusModel.Sig.Split
/-
Code model of the argument counting of txdbus/interface.py (`DBusInterface.addMethod`, `addSignal`):
    if m.nargs == -1:
        m.nargs = len([a for a in marshal.genCompleteTypes(m.sigIn)])
        m.nret  = len([a for a in marshal.genCompleteTypes(m.sigOut)])
A declaration is counted once (the `-1` sentinel); an exception of the splitter escapes (the object
state left behind by the exception is not modelled).  Core Lean only.
-/
namespace Txdbus

structure MethodDecl where
  nargs : Int := -1
  nret : Int := -1
  sigIn : List Char
  sigOut : List Char
  deriving DecidableEq, Repr

structure SignalDecl where
  nargs : Int := -1
  sig : List Char
  deriving DecidableEq, Repr

def addMethod (m : MethodDecl) : Except SplitErr MethodDecl :=
  if m.nargs = -1 then
    match countCompleteTypes m.sigIn with
    | .error e => .error e
    | .ok a =>
      match countCompleteTypes m.sigOut with
      | .error e => .error e
      | .ok r => .ok { m with nargs := a, nret := r }
  else .ok m

def addSignal (s : SignalDecl) : Except SplitErr SignalDecl :=
  if s.nargs = -1 then
    match countCompleteTypes s.sig with
    | .error e => .error e
    | .ok a => .ok { s with nargs := a }
  else .ok s

end Txdbus
