import TxdbusModel.Sig.Ty
import TxdbusModel.Base.ExceptEq
/-
Code model of `genCompleteTypes` and its inner `find_end` (txdbus/marshal.py:346-390), on `List Char`.

The real function is a *generator*.  Three views are offered:

* `firstType s`       - what `next(genCompleteTypes(s))` does on a fresh generator: the first complete
                         type and the unread rest, or the exception that `next` raises.
* `genCompleteTypes s` - `list(genCompleteTypes(s))`: all pieces, or the first exception.
* `lazyPieces s`      - the generator as a consumer that stops early sees it (`zip(gen, values)`):
                         the pieces produced before the first exception, and that exception if any.

Behaviour on malformed input is mirrored, not repaired:
* an unbalanced `(` / `{`  : `find_end` falls off the end and returns `None`; `compoundSig[i:None + 1]`
                             raises `TypeError`                                     -> `SplitErr.typeError`
* `a` with nothing after it: `next(g)` on the exhausted inner generator raises `StopIteration`, which
                             (PEP 479) surfaces as `RuntimeError`                    -> `SplitErr.stopIteration`
* any other character (also a stray `)` or `}`) is yielded as a one-character piece.
Core Lean only.
-/
namespace Txdbus

inductive SplitErr where
  /-- `TypeError: unsupported operand type(s) for +: 'NoneType' and 'int'` (no closing bracket). -/
  | typeError
  /-- `StopIteration` from `next(g)` on an empty remainder after `a`; seen by callers of the outer
  generator as `RuntimeError('generator raised StopIteration')`; `next()` on an exhausted generator. -/
  | stopIteration
  deriving DecidableEq, Repr, Inhabited

/-- `find_end(idx, b, e)` with `depth = d` on entry, scanning `cs = compoundSig[idx:]`.
Returns the offset *relative to `idx`* of the closing bracket, `none` when the loop runs off the end
(Python returns `None`). -/
def findEnd (b e : Char) : Nat → List Char → Option Nat
  | _, [] => none
  | d, c :: cs =>
    if c = b then (findEnd b e (d + 1) cs).map (· + 1)
    else if c = e then (if d = 1 then some 0 else (findEnd b e (d - 1) cs).map (· + 1))
    else (findEnd b e d cs).map (· + 1)

/-- One step of the generator: the first complete type of `s` and the unread rest.
`[]` is the exhausted generator (`StopIteration`). -/
def firstType : List Char → Except SplitErr (List Char × List Char)
  | [] => .error .stopIteration
  | c :: cs =>
    if c = '(' then
      match findEnd '(' ')' 1 cs with
      | some x => .ok (c :: cs.take (x + 1), cs.drop (x + 1))
      | none => .error .typeError
    else if c = '{' then
      match findEnd '{' '}' 1 cs with
      | some x => .ok (c :: cs.take (x + 1), cs.drop (x + 1))
      | none => .error .typeError
    else if c = 'a' then
      match firstType cs with
      | .ok (ct, rest) => .ok ('a' :: ct, rest)
      | .error e => .error e
    else .ok ([c], cs)

/-- The `while i < end` loop with an explicit step budget (every step consumes at least one
character, so `s.length` steps always suffice: `splitFuel_enough`). -/
def splitFuel : Nat → List Char → Except SplitErr (List (List Char))
  | _, [] => .ok []
  | 0, _ :: _ => .ok []     -- unreachable from `genCompleteTypes` (see `splitFuel_enough`)
  | n + 1, c :: cs =>
    match firstType (c :: cs) with
    | .error e => .error e
    | .ok (ct, rest) =>
      match splitFuel n rest with
      | .error e => .error e
      | .ok cts => .ok (ct :: cts)

/-- `list(genCompleteTypes(s))`. -/
def genCompleteTypes (s : List Char) : Except SplitErr (List (List Char)) :=
  splitFuel s.length s

/-- The generator as seen by a consumer that may stop early: pieces yielded before the first
exception, and that exception (if the scan reaches it). -/
def lazyFuel : Nat → List Char → List (List Char) × Option SplitErr
  | _, [] => ([], none)
  | 0, _ :: _ => ([], none)
  | n + 1, c :: cs =>
    match firstType (c :: cs) with
    | .error e => ([], some e)
    | .ok (ct, rest) =>
      let r := lazyFuel n rest
      (ct :: r.1, r.2)

def lazyPieces (s : List Char) : List (List Char) × Option SplitErr := lazyFuel s.length s

/-- `len(list(genCompleteTypes(sig)))` as used by `interface.py` for argument counting. -/
def countCompleteTypes (s : List Char) : Except SplitErr Nat :=
  (genCompleteTypes s).map List.length

end Txdbus
