/-
The DBus type grammar as a datatype, and its rendering as a signature string.
Shared by the splitter (Sig/Split), the wire spec (Wire/Spec) and the introspection model.
Core Lean only.
-/
namespace Txdbus

/-- The 13 basic type codes (fixed-size types, string-like types, unix fd). -/
inductive Basic where
  | y | b | n | q | i | u | x | t | d | s | o | g | h
  deriving DecidableEq, Repr, Inhabited

def Basic.code : Basic → Char
  | .y => 'y' | .b => 'b' | .n => 'n' | .q => 'q' | .i => 'i' | .u => 'u' | .x => 'x'
  | .t => 't' | .d => 'd' | .s => 's' | .o => 'o' | .g => 'g' | .h => 'h'

def Basic.all : List Basic := [.y, .b, .n, .q, .i, .u, .x, .t, .d, .s, .o, .g, .h]

def Basic.ofCode? (c : Char) : Option Basic :=
  Basic.all.find? (fun b => b.code = c)

/-- Single complete types.  `dict k v` is a dict entry `{kv}`; the grammar only allows it as the
element of an array and with a basic key - that is part of `Ty.Valid`, not of the datatype. -/
inductive Ty where
  | basic (c : Basic)
  | variant
  | array (e : Ty)
  | struct (fs : List Ty)
  | dict (k v : Ty)
  deriving Repr, Inhabited

mutual
def Ty.render : Ty → List Char
  | .basic c => [c.code]
  | .variant => ['v']
  | .array e => 'a' :: e.render
  | .struct fs => '(' :: (renderAll fs ++ [')'])
  | .dict k v => '{' :: (k.render ++ v.render ++ ['}'])
def renderAll : List Ty → List Char
  | [] => []
  | t :: ts => t.render ++ renderAll ts
end

theorem Basic.code_ne (c : Basic) :
    c.code ≠ '(' ∧ c.code ≠ ')' ∧ c.code ≠ '{' ∧ c.code ≠ '}' ∧ c.code ≠ 'a' ∧ c.code ≠ 'v' := by
  cases c <;> decide

end Txdbus
